#!/bin/bash
# run all 20 quick checks in parallel; print per-property exit code and any VIOLATION/ANALYSIS-ERROR context
cd /verif
for p in C01 C02 C03 C04 C05 C06 C07 C08 C09 C10 C11 C12 C13 C14 C15 C16 C17 C18 C19 C20; do
  ( ./check $p ${1:-quick} --no-evidence > /tmp/allchk_$p.out 2>&1; echo "$p rc=$?" >> /tmp/allchk_$p.out ) &
done; wait
for p in C01 C02 C03 C04 C05 C06 C07 C08 C09 C10 C11 C12 C13 C14 C15 C16 C17 C18 C19 C20; do
  tail -1 /tmp/allchk_$p.out
  grep -B1 "^VIOLATION" /tmp/allchk_$p.out | grep -v "^VIOLATION\|^--\|^      " | cut -c1-260
  grep "ANALYSIS-ERROR" /tmp/allchk_$p.out | cut -c1-260
  grep "UNDECIDED" /tmp/allchk_$p.out | cut -c1-200
done
rm -f /tmp/allchk_*.out
