#!/usr/bin/env python3
"""Regenerate the measured tables of DESIGN.md (between <!-- GEN:x --> markers)
from the machinery's own data: rule registry, evidence files, known_findings.json,
seeded/*/meta.json and the stored evaluation runs.  Prose is never touched."""
import glob
import json
import os
import re
import sys

V = os.path.dirname(os.path.dirname(os.path.abspath(__file__)))
sys.path.insert(0, V)
from sa import core, props  # noqa: E402


def rules_table():
    inst = {}
    for f in sorted(glob.glob(f"{V}/evidence/C*.json")):
        e = json.load(open(f))
        for r in e["coverage"].get("rules", []):
            inst[r["rule"]] = max(inst.get(r["rule"], 0), r["instances"])
    out = ["| rule | § | properties | floor | instances today | decides |", "|---|---|---|---|---|---|"]
    for name, rd in core.RULES.items():
        doc = " ".join(rd.doc.split())
        out.append(f"| {name} | {rd.section} | {' '.join(sorted(rd.props))} | {rd.floor} | {inst.get(name, '-')} | {doc} |")
    out.append("")
    out.append(f"{len(core.RULES)} rules.")
    return "\n".join(out)


def proprules():
    out = ["| property | rules (quick and thorough) | obligations today | known findings |", "|---|---|---|---|"]
    for pid in sorted(props.PROPS):
        rs = sorted(n for n, rd in core.RULES.items() if pid in rd.props)
        ev = f"{V}/evidence/{pid}.json"
        ob = kf = "-"
        if os.path.exists(ev):
            e = json.load(open(ev))
            ob, kf = e["coverage"]["obligations"], e["coverage"]["known_findings"]
        out.append(f"| {pid} | {', '.join(rs)} | {ob} | {kf} |")
    return "\n".join(out)


def findings():
    k = json.load(open(f"{V}/known_findings.json"))
    out = ["| property | rule | site | construct | failing input / why recorded |", "|---|---|---|---|---|"]
    for f in k["findings"]:
        out.append("| {property} | {rule} | `{site}` | {construct} | {what} |".format(**{a: str(b).replace("|", "\\|") for a, b in f.items()}))
    out.append("")
    out.append(f"{len(k['findings'])} recorded findings.")
    return "\n".join(out)


def fixed():
    k = json.load(open(f"{V}/known_findings.json"))
    out = []
    for i, f in enumerate(k["fixed"], 1):
        out.append(f"{i}. `{f}`".replace("|", "\\|"))
    return "\n".join(out)


def _read_eval(path):
    d = {}
    if not os.path.exists(path):
        return d
    for line in open(path):
        m = re.match(r"(C\d\d-\w+) exit=(\d+) rules=(\S*)(?:.*other_props=\[(.*?)\])?", line)
        if not m:
            continue
        rules = [r for r in m.group(3).split(",") if r in core.RULES]
        d[m.group(1)] = (int(m.group(2)), rules, (m.group(4) or "").split())
    return d


def seeded():
    before = {}
    before.update(_read_eval(f"{V}/seeded/BASELINE_eval_before_strengthening.txt"))
    before.update(_read_eval(f"{V}/seeded/ROUND2_eval_before_strengthening.txt"))
    before.update(_read_eval(f"{V}/seeded/ROUND3_eval_before_strengthening.txt"))
    before.update(_read_eval(f"{V}/seeded/ROUND4_eval_before_strengthening.txt"))
    before.update(_read_eval(f"{V}/seeded/ROUND5_eval_before_strengthening.txt"))
    before.update(_read_eval(f"{V}/seeded/ROUND6_eval_before_strengthening.txt"))
    before.update(_read_eval(f"{V}/seeded/ROUND7_eval_before_strengthening.txt"))
    before.update(_read_eval(f"{V}/seeded/ROUND8_eval_before_strengthening.txt"))
    before.update(_read_eval(f"{V}/seeded/ROUND9_eval_before_strengthening.txt"))
    before.update(_read_eval(f"{V}/seeded/ROUND10_eval_before_strengthening.txt"))
    now = _read_eval(f"{V}/seeded/EVAL_current.txt")
    out = ["| change | what it does (author's words, first line) | check at the time it was seeded | check now (rules that fire) |", "|---|---|---|---|"]
    nb = nn = n = 0
    for d in sorted(glob.glob(f"{V}/seeded/C*-*")):
        sid = os.path.basename(d)
        meta = json.load(open(f"{d}/meta.json"))
        note = meta.get("needs_to_manifest_and_notes") or meta.get("notes") or ""
        first = " ".join(note.strip().split("\n")[0].split())
        first = re.sub(r"^[mnMN]\d\s*[-:–—]\s*", "", first)
        if len(first) > 170:
            first = first[:167] + "..."
        first = first.replace("|", "\\|")
        b = before.get(sid)
        c = now.get(sid)
        n += 1
        if b and b[0] == 1:
            nb += 1
            bs = "caught (" + ", ".join(b[1]) + ")" if b[1] else "caught"
        elif b:
            bs = "**missed**" + (f" (other properties' checks: {' '.join(b[2])})" if b[2] else "")
        else:
            bs = "-"
        if c and c[0] == 1:
            nn += 1
            cs = ", ".join(c[1])
        elif c:
            cs = f"**missed** (exit {c[0]})"
        else:
            cs = "-"
        out.append(f"| {sid} | {first} | {bs} | {cs} |")
    out.append("")
    out.append(f"{n} seeded changes; caught by the property's own check when seeded: {nb}; now: {nn}.")
    return "\n".join(out)


def benign():
    before = {}
    for fn in ("BENIGN_eval_before_repair.txt", "BENIGN2_eval_before_repair.txt", "BENIGN3_eval_before_repair.txt", "BENIGN4_eval_before_repair.txt", "BENIGN5_eval_before_repair.txt", "BENIGN6_eval_before_repair.txt", "BENIGN7_eval_before_repair.txt", "BENIGN8_eval_before_repair.txt", "BENIGN9_eval_before_repair.txt", "BENIGN10_eval_before_repair.txt"):
        pth = f"{V}/benign/{fn}"
        if os.path.exists(pth):
            for line in open(pth):
                m = re.match(r"w[rs]_(C\d\d)/(r\d)\s+(.*)", line.strip())
                m2 = re.match(r"(C\d\d-\w+)\s+(.*)", line.strip())
                if m:
                    before[f"{m.group(1)}-{m.group(2)}"] = m.group(3)
                elif m2:
                    before[m2.group(1)] = m2.group(2)
    now = {}
    pth = f"{V}/benign/EVAL_current.txt"
    if os.path.exists(pth):
        for line in open(pth):
            a, _, b = line.strip().partition(" ")
            now[a] = b
    out = ["| refactoring | what was reshaped (author's note, first line) | checks when it was written | checks now |", "|---|---|---|---|"]
    nb = nn = n = 0
    for d in sorted(glob.glob(f"{V}/benign/C*-*")):
        bid = os.path.basename(d)
        note = ""
        if os.path.exists(f"{d}/note.md"):
            lines = [l.strip() for l in open(f"{d}/note.md") if l.strip() and not l.startswith("#")]
            note = " ".join(" ".join(lines[:2]).split())[:170].replace("|", "\\|")
        b = before.get(bid, "-")
        rules_b = sorted(set(re.findall(r"(?<![A-Za-z])([A-Z][A-Z0-9]+(?:-[A-Z0-9a-z]+)*)(?=,|\)|:|;| |$)", b)) & set(core.RULES)) if "silent" not in b else []
        bs = "silent" if "silent" in b else ("**false alarm** (" + ", ".join(rules_b) + ")" if rules_b else ("**false alarm**" if b != "-" else "-"))
        c = now.get(bid, "-")
        cs = "silent" if c == "silent" else f"**{c}**"
        n += 1
        nb += "silent" in b
        nn += c == "silent"
        out.append(f"| {bid} | {note} | {bs} | {cs} |")
    out.append("")
    out.append(f"{n} behaviour-preserving refactorings; silent under all 20 checks when written: {nb}; now: {nn}.")
    return "\n".join(out)


GEN = {"benign": benign, "rules": rules_table, "proprules": proprules, "findings": findings, "fixed": fixed, "seeded": seeded}


def main():
    p = f"{V}/DESIGN.md"
    s = open(p).read()
    for k, fn in GEN.items():
        a, b = f"<!-- GEN:{k} -->", f"<!-- /GEN:{k} -->"
        if a not in s:
            print("marker missing:", k)
            continue
        i, j = s.index(a) + len(a), s.index(b)
        s = s[:i] + "\n" + fn() + "\n" + s[j:]
    open(p, "w").write(s)


if __name__ == "__main__":
    main()
