import sys, ast; sys.path.insert(0,'/verif')
from sa import canon
import os
root = os.environ.get('R','/repo')
mods={}
for fn in sorted(os.listdir(root+'/nutree')):
    if fn.endswith('.py'):
        mods[fn[:-3]] = ast.parse(open(f'{root}/nutree/{fn}').read())
known=None
try:
    from sa.known_funcs import KNOWN_FUNCS as known
except Exception: pass
print(canon.canonicalise(mods, known), file=sys.stderr)
want = sys.argv[1:]
for mod, tree in mods.items():
    for fn, cls, q in canon._all_functions(tree):
        if any(w == q or w == fn.name for w in want):
            f2 = ast.FunctionDef(name=fn.name, args=fn.args, body=[s for s in fn.body if not canon._is_docstring(s)], decorator_list=[], returns=None, type_comment=None, lineno=1, col_offset=0)
            print(f"# {mod}:{q}"); print(ast.unparse(ast.fix_missing_locations(f2))); print()
