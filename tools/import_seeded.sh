#!/bin/bash
# usage: tools/import_seeded.sh <worktree> <round-letter>   e.g. /tmp/wm_C05 o
# Confirms each seeded change myself on a scratch copy (never /repo): the diff applies, the demo exits 0 on the clean tree
# and non-zero with the change, the pinned suite stays green; then stores it as /verif/seeded/<Cxx>-<letter><k>/.
w=$1; L=$2; p=$(basename $w | sed 's/w[a-z]_//')
for d in $w/mutants/m[0-9].diff; do
  [ -f "$d" ] || continue
  k=$(basename $d .diff | tr -d m)
  demo=$w/mutants/m${k}_demo.py
  [ -f $demo ] || { echo "$p-$L$k REJECTED no demo"; continue; }
  s=$(mktemp -d /tmp/imp_XXXX); git -C /repo archive HEAD | tar -x -C $s
  (cd $s && timeout 120 /venv/bin/python $demo >/dev/null 2>&1); d0=$?
  if ! (cd $s && git apply $d 2>/dev/null); then echo "$p-$L$k APPLY-FAILED"; rm -rf $s; continue; fi
  (cd $s && timeout 120 /venv/bin/python $demo >/dev/null 2>&1); d1=$?
  (cd $s && timeout 600 /venv/bin/python -m pytest -q -p no:cacheprovider --no-cov -x >/dev/null 2>&1); t=$?
  rm -rf $s
  if [ "$d0" != 0 ] || [ "$d1" = 0 ] || [ "$t" != 0 ]; then echo "$p-$L$k REJECTED demo_clean=$d0 demo_changed=$d1 suite=$t"; continue; fi
  o=/verif/seeded/$p-$L$k; mkdir -p $o; cp $d $o/patch.diff; cp $demo $o/demo.py
  python3 - "$o" "$p" "$L$k" "$w/mutants/m$k.md" "$d0" "$d1" <<'PY'
import json, sys, os
o, p, idn, md, d0, d1 = sys.argv[1:]
note = open(md).read() if os.path.exists(md) else ""
json.dump({"id": f"{p}-{idn}", "property": p,
           "source": "independent sub-agent given only the property text and a scratch worktree of /repo (nothing from /verif), round " + {"m":"1","n":"2","o":"3 (after the canonical-form rewrite)","p":"4 (after benign round 3: soft rules, undecided unless a wrong value is witnessed)","q":"5","x":"6 (slips)","y":"7 (feature, optimisation and robustness commits gone wrong)","a":"8 (mixed: one slip, one refactoring gone wrong, one feature commit gone wrong)","c":"9 (mixed, same brief as round 8)","e":"10 (free choice of kinds)","g":"11 (one change per property, kind chosen by the author, short session)"}.get(idn[0], idn[0]),
           "needs_to_manifest_and_notes": note,
           "confirmed_by_me": {"how": "tools/import_seeded.sh on a scratch copy: demo on clean tree, git apply, demo, pinned suite",
                               "demo_clean_exit": int(d0), "demo_mutant_exit": int(d1), "suite_with_mutant": "pytest exit 0"},
           "run_demo": "cd <worktree of /repo> && git apply patch.diff && /venv/bin/python demo.py  (demo.py inserts '.' into sys.path)"},
          open(os.path.join(o, "meta.json"), "w"), indent=1)
PY
  echo "$p-$L$k ok"
done
