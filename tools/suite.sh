#!/bin/sh
# run the pinned suite (no hooks exist, so "guard off" is the only mode); prints counts
cd /repo && /venv/bin/python -m pytest -p no:cacheprovider --no-cov -q -rN 2>&1 | tail -1
cd /repo && /venv/bin/python -m pytest -p no:cacheprovider --no-cov -q --junitxml=/tmp/_suite.xml >/dev/null 2>&1; python3 - <<'PY'
import xml.etree.ElementTree as ET
r=ET.parse('/tmp/_suite.xml').getroot()
ts=r if r.tag=='testsuite' else r[0]
print({k:ts.get(k) for k in ('tests','failures','errors','skipped')})
PY
rm -f /tmp/_suite.xml
