#!/usr/bin/env python3
"""Development aid (not a check, not a property decision): is the canonicalising rewrite behaviour-preserving on this code
base?  Writes the *canonical form* of every module of a tree back to source (ast.unparse) in a scratch copy and runs the
pinned suite against it.  usage: tools/canon_roundtrip.py [patch.diff ...]   (no patch: the reference tree)"""
import ast, os, shutil, subprocess, sys, tempfile
sys.path.insert(0, os.path.dirname(os.path.dirname(os.path.abspath(__file__))))
os.environ["SA_KEEP_HELPERS"] = "1"  # (inlined helpers stay defined: a check script may import one)
from sa import canon
from sa.known_funcs import KNOWN_FUNCS


def run(patch):
    d = tempfile.mkdtemp(prefix="canon_rt_")
    try:
        subprocess.run(f"git -C /repo archive HEAD | tar -x -C {d}", shell=True, check=True)
        if patch:
            r = subprocess.run(["git", "apply", os.path.abspath(patch)], cwd=d, capture_output=True, text=True)
            if r.returncode:
                return "APPLY-FAILED"
        mods = {}
        for fn in sorted(os.listdir(f"{d}/nutree")):
            if fn.endswith(".py"):
                mods[fn[:-3]] = ast.parse(open(f"{d}/nutree/{fn}").read())
        stats = canon.canonicalise(mods, set(KNOWN_FUNCS))
        for m, tree in mods.items():
            src = ast.unparse(ast.fix_missing_locations(tree))
            compile(src, m, "exec")
            open(f"{d}/nutree/{m}.py", "w").write(src + "\n")
        demo = os.path.join(os.path.dirname(os.path.abspath(patch)), "demo.py") if patch else None
        if demo and os.path.exists(demo) and os.environ.get("DEMO"):
            # seeded change: its demonstration must still fail on the canonical form (the rewrite repairs nothing)
            r = subprocess.run(["/venv/bin/python", demo], cwd=d, capture_output=True, text=True, timeout=300)
            return f"demo exit {r.returncode} ({stats})"
        chk = os.path.join(os.path.dirname(os.path.abspath(patch)), "check.py") if patch else None
        if chk and not os.path.exists(chk):
            import glob as _g
            alt = _g.glob(os.path.join(os.path.dirname(os.path.abspath(patch)), "r*_check.py"))  # (two scripts assert on their own file name)
            chk = alt[0] if alt else chk
        extra = ""
        if chk and os.path.exists(chk) and os.environ.get("CHECK"):
            # benign refactoring: its author's check script must still pass on the canonical form
            rc = subprocess.run(["/venv/bin/python", chk], cwd=d, capture_output=True, text=True, timeout=300)
            extra = f" check.py exit {rc.returncode}"
            if rc.returncode and os.environ.get("SHOW"):
                extra += "\n" + (rc.stdout + rc.stderr)[-1500:]
        r = subprocess.run(["/venv/bin/python", "-m", "pytest", "-q", "-p", "no:cacheprovider", "--no-cov", "-x"], cwd=d, capture_output=True, text=True)
        tail = (r.stdout.strip().splitlines() or [""])[-1]
        return f"suite exit {r.returncode}{extra} ({stats}) {tail[:100] if r.returncode else ''}"
    finally:
        shutil.rmtree(d, ignore_errors=True)


if __name__ == "__main__":
    from concurrent.futures import ProcessPoolExecutor
    patches = sys.argv[1:] or [None]
    with ProcessPoolExecutor(max_workers=12) as ex:
        for p, res in zip(patches, ex.map(run, patches)):
            print(os.path.basename(os.path.dirname(p)) if p else "reference", res)
