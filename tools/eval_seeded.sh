#!/bin/bash
# Apply each seeded change to /repo, run the check of its property (quick), undo it. /repo must be clean.
# usage: tools/eval_seeded.sh [seeded-id ...]    prints one line per change
cd /verif || exit 2
if [ -n "$(git -C /repo status --porcelain --untracked-files=no)" ]; then echo "/repo is not clean"; exit 2; fi
ids="$@"; [ -z "$ids" ] && ids=$(ls seeded | grep "^C")
for id in $ids; do
  d=seeded/$id; pid=${id%%-*}
  if ! git -C /repo apply --check $PWD/$d/patch.diff 2>/dev/null; then echo "$id APPLY-FAILED"; continue; fi
  git -C /repo apply $PWD/$d/patch.diff
  out=$(./check $pid quick --no-evidence 2>&1); rc=$?
  others=""
  if [ "$rc" != "1" ] && [ -n "$EVAL_ALL" ]; then
    for q in C01 C02 C03 C04 C05 C06 C07 C08 C09 C10 C11 C12 C13 C14 C15 C16 C17 C18 C19 C20; do
      [ $q = $pid ] && continue
      ./check $q quick --no-evidence >/dev/null 2>&1; r2=$?
      [ "$r2" = "1" ] && others="$others $q"
    done
  fi
  git -C /repo checkout -- .
  rules=$(echo "$out" | awk '/^  [A-Z][A-Za-z0-9-]+ [^ ]+:[0-9]+ in /{r=$1} /^VIOLATION/{print r}' | sort -u | tr '\n' ',')
  err=$(echo "$out" | grep -c "ANALYSIS-ERROR")
  echo "$id exit=$rc rules=$rules analysis_errors=$err other_props=[$others ]"
done
