"""Regenerate MANIFEST.json from sa/props.py (run by hand after changing the property table)."""
import json, sys
sys.path.insert(0, "/verif")
from sa import props
from sa.core import RULES

TECH = {
 "C01": "effect/ownership analysis + must-pass-through and dominance queries on per-function CFGs (writer confinement, link/register pairing, identity discipline, ancestry guard)",
 "C02": "effect analysis + CFG dominance on index writers (re-key pairing, identity removal), alias-escape analysis, domain lints (falsy ids, limits)",
 "C03": "CFG dominance: every (parent, data_id) write is dominated by a uniqueness refusal; sibling cross-check of the two add_child pre-checks",
 "C04": "effect frames per mutator, wrapper-forwarding/call-binding analysis over resolved callees, guard->action table extraction for the position dispatch",
 "C05": "writer/reader key agreement by constant-string dataflow, wrapper-forwarding and override-signature analysis, structural checks of the (de)compression mirror",
 "C06": "exhaustiveness of the method table, emit/descend order queries on the walkers' syntax trees, normaliser case-table extraction, who-may-call",
 "C07": "read-only footprint (effect summaries instantiated per entry point) w.r.t. the source, alias-store and provenance rules for copied ids/kinds",
 "C08": "verdict-table extraction from both filter implementations and cross-check against the user guide; iteration-invalidation and copy-linearity rules",
 "C09": "slice/limit dataflow lints, generator cut-off shape, index-access resolution order by CFG dominance",
 "C10": "read-only footprint + identity-discipline lint + sibling cross-check of the parent-walk family",
 "C11": "read-only footprint w.r.t. both inputs, enum exhaustiveness, provenance of marks by reaching definitions",
 "C12": "key agreement against the documentation's literal examples, index-base and clone-reference shape rules",
 "C13": "validate-before-mutate path query (write -> refusal) over CFGs with guard-aware refusal summaries; callback-in-critical-section query",
 "C14": "dict-form key agreement, optional-dereference lint, lockset",
 "C15": "kind-branch shape rules, linear range-guard equivalence, existence-comparison lint, call binding per runtime class",
 "C16": "style-table well-formedness (evaluated literal), prefix guard->segment table extraction, call-graph reachability (no kind-sensitive callee)",
 "C17": "sibling cross-check of the DOT/Mermaid exporters (loops, key function, skip test), optional-truthiness lint, wrapper forwarding",
 "C18": "lockset analysis: structural reads inside `with tree:` regions (interprocedural), acquire/release on all CFG paths, RLock provenance, lock-order",
 "C19": "sibling cross-check of the sorted/unsorted scan branches, provenance of entry attributes, mapper key agreement",
 "C20": "sibling cross-check of the Randomizer.generate implementations, provenance/ordering rules of the generator",
}
checks = []
for pid in sorted(props.PROPS):
    meta = props.PROPS[pid]
    rules = sorted(r.name for r in RULES.values() if pid in r.props)
    checks.append({
        "property_id": pid,
        "quick_cmd": f"./check {pid} quick",
        "thorough_cmd": f"./check {pid} thorough",
        "evidence_file": f"/verif/evidence/{pid}.json",
        "replay_cmd_template": f"./check {pid} quick --replay {{path}}",
        "engine": "sa",
        "level_claimed": {
            "category": "other",
            "text": "Necessary structural clauses of the property are decided statically over the whole package on every run "
                    f"(rules: {', '.join(rules)}). {meta['explanation']} NOT decided: {meta['not_decided']}.",
            "design_ref": "DESIGN.md sections 3, 4/" + pid + " and 10 (as built)",
        },
        "level_note": "Trusted base: CPython ast parser; the nominal type/alias/effect layer of /verif/sa (frozen supplement tables, "
                      "three shape axioms); the canonicalising rewrite sa/canon.py; callbacks do not mutate the tree; no dynamic attribute "
                      "machinery in the package (checked). Clauses that pin what a small function computes are three-valued: when the "
                      "constructs a clause reads are not recognised on a changed tree it is reported UNDECIDED (counted in the evidence), "
                      "neither as a pass of that clause nor as a violation. "
                      "Findings listed in known_findings.json are genuine defects recorded, not repaired.",
        "technique": "static analysis: " + TECH[pid],
    })
man = {
    "version": 1,
    "setup_cmd": "python3 -B -c \"import ast, sys; sys.path.insert(0, '/verif'); import sa.props\"",
    "hooks": {
        "guard": "NUTREE_VERIF",
        "enable": "no hooks: nothing of /repo is executed or instrumented; the checks parse /repo/nutree/*.py",
        "baseline_off_cmd": "cd /repo && /venv/bin/python -m pytest -q -p no:cacheprovider --no-cov",
        "source_commits": [],
        "add_only": True,
    },
    "engines": [{"name": "sa", "path": "/verif/sa", "serves_properties": sorted(props.PROPS),
                 "kind_free_text": "repository-specific static analyser on Python's ast: class/MRO model, nominal types, callee resolution, "
                                   "alias (roots/fields) layer, write-effect summaries, per-function CFG with dominance and path queries, "
                                   f"canonical form of every function body (sa/canon.py), path conditions / exit cases / resolved expressions, {len(RULES)} rules"}],
    "checks": checks,
    "not_applicable": [],
    "notes": "All checks are static (family: static analysis). Exit 0 = every obligation discharged or listed as known finding; "
             "exit 1 + VIOLATION line = new finding; exit 2 + ANALYSIS-ERROR = cannot decide (vanished anchor function, rule below its "
             "instance floor) and no finding. quick = all rules of the property on /repo's working tree. thorough = quick plus the checker "
             "self-test of that property: its one-construct variants and its committed seeded/ and benign/ patches are applied to scratch "
             "copies (tempfile, removed at once) and analysed statically - nothing is executed; the self-test can only turn a clean run into "
             "exit 2 (and only on the reference tree), never hide or create a VIOLATION. Development aids that are not registered checks: "
             "python3 -m sa.corpus (all rules on all patches), python3 -m sa.selftest, tools/canon_roundtrip.py.",
}
json.dump(man, open("/verif/MANIFEST.json", "w"), indent=1)
print("wrote MANIFEST.json with", len(checks), "checks")
