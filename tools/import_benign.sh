#!/bin/bash
# usage: tools/import_benign.sh <worktree> <round-letter>   e.g. /tmp/ws_C05 s
# Confirms each refactoring myself on a scratch copy (never /repo): the diff applies, its check script exits 0 before and
# after, the pinned suite stays green; then stores it as /verif/benign/<Cxx>-<letter><k>/.
w=$1; L=$2; p=$(basename $w | sed 's/w[a-z]_//')
for d in $w/refactors/r[0-9].diff; do
  [ -f "$d" ] || continue
  k=$(basename $d .diff | tr -d r)
  s=$(mktemp -d /tmp/imp_XXXX); git -C /repo archive HEAD | tar -x -C $s
  chk=$w/refactors/r${k}_check.py
  b0=0; [ -f $chk ] && { (cd $s && /venv/bin/python $chk >/dev/null 2>&1); b0=$?; }
  if ! (cd $s && git apply $d 2>/dev/null); then echo "$p-$L$k APPLY-FAILED"; rm -rf $s; continue; fi
  b1=0; [ -f $chk ] && { (cd $s && /venv/bin/python $chk >/dev/null 2>&1); b1=$?; }
  (cd $s && /venv/bin/python -m pytest -q -p no:cacheprovider --no-cov -x >/dev/null 2>&1); t=$?
  rm -rf $s
  if [ "$b0" != 0 ] || [ "$b1" != 0 ] || [ "$t" != 0 ]; then echo "$p-$L$k REJECTED check_before=$b0 check_after=$b1 suite=$t"; continue; fi
  o=/verif/benign/$p-$L$k; mkdir -p $o; cp $d $o/patch.diff; cp $w/refactors/r$k.md $o/note.md 2>/dev/null; [ -f $chk ] && cp $chk $o/check.py
  echo "$p-$L$k ok"
done
