#!/bin/bash
# False-alarm measurement: apply each behaviour-preserving refactoring r<k>.diff inside its own scratch
# worktree (never /repo), run ALL 20 checks (quick) against that tree, restore. Silent = exit 0 everywhere.
# usage: tools/eval_refactors.sh <worktree> [...]    (worktree has refactors/r<k>.diff)
cd /verif || exit 2
for w in "$@"; do
  for d in $w/refactors/r*.diff; do
    [ -f "$d" ] || continue
    k=$(basename $d .diff)
    git -C $w checkout -q -- . 2>/dev/null
    if ! git -C $w apply --check $d 2>/dev/null; then echo "$(basename $w)/$k APPLY-FAILED"; continue; fi
    git -C $w apply $d
    bad=""
    for q in C01 C02 C03 C04 C05 C06 C07 C08 C09 C10 C11 C12 C13 C14 C15 C16 C17 C18 C19 C20; do
      out=$(python3 -B -m sa.check $q --tier quick --root $w --no-evidence 2>&1); rc=$?
      if [ "$rc" != "0" ]; then
        rules=$(echo "$out" | awk '/^  [A-Z][A-Za-z0-9-]+ [^ ]+:[0-9]+ in /{r=$1} /^VIOLATION/{print r} /^ANALYSIS-ERROR/{print "ERR:"$0}' | sort -u | tr '\n' ',')
        bad="$bad $q(rc=$rc:$rules)"
      fi
    done
    git -C $w checkout -q -- .
    echo "$(basename $w)/$k ${bad:- silent}"
  done
done
