"""Nominal types, callee resolution, roots (what an expression may reach) and
field aliases (which protected container an expression may denote).

Everything is flow-insensitive per function (the code assigns most locals
once); nested functions share the lexical environment of their owner and their
parameters are bound to the union of the actuals at their call sites.
"""
from __future__ import annotations

import ast
from dataclasses import dataclass
from typing import Dict, FrozenSet, List, Optional, Sequence, Set, Tuple

from .cfg import CFG, _binds
from .model import AnalysisError, Func, Model, iter_own, norm

# ---------------------------------------------------------------------------
# nominal type tags
NODE, TREE, NODELIST, NONE = "Node", "Tree", "NodeList", "None"
NODEITER, NODECLS, TREECLS = "NodeIter", "NodeCls", "TreeCls"
IDINDEX, DATAINDEX = "IdIndex", "DataIndex"
STR, INT, BOOL, DICT, LIST, SET, TUPLE, CALLABLE, ANY = (
    "Str", "Int", "Bool", "Dict", "List", "Set", "Tuple", "Callable", "Any",
)
DATAID, FLOAT, EXT = "DataId", "Float", "Ext"
#: opaque user data object; assumed never to be a nutree Node or Tree
DATA = "Data"

NODE_BASE, TREE_BASE = "Node", "Tree"

#: structural (protected) fields
NODE_FIELDS = ("_parent", "_children", "_tree", "_node_id", "_data_id", "_data", "_meta", "_kind")
TREE_FIELDS = ("_root", "_node_by_id", "_nodes_by_data_id", "_lock")
PROTECTED_FIELDS = set(NODE_FIELDS) | set(TREE_FIELDS)
#: fields holding a mutable container that can be changed in place
CONTAINER_FIELDS = ("_children", "_meta", "_node_by_id", "_nodes_by_data_id")
SLOT = "_nodes_by_data_id[*]"

#: supplement table for un-annotated fields (one line of reason each)
FIELD_TYPES: Dict[str, FrozenSet[str]] = {
    "_children": frozenset({NODELIST, NONE}),  # Node.__init__: list[Node] | None
    "_parent": frozenset({NODE}),  # Node.__init__: Node (None only for the system root)
    "_tree": frozenset({TREE}),  # Node.__init__: Tree
    "_root": frozenset({NODE}),  # Tree.__init__: _SystemRootNode
    "_node_by_id": frozenset({IDINDEX}),  # Tree.__init__: dict[int, Node]
    "_nodes_by_data_id": frozenset({DATAINDEX}),  # Tree.__init__: dict[id, list[Node]]
    "_meta": frozenset({DICT, NONE}),  # Node.__init__(meta: dict | None), not annotated
    "_data": frozenset({DATA}),  # user object
    "_data_id": frozenset({DATAID}),  # DataIdType
    "_node_id": frozenset({INT}),
    "_kind": frozenset({STR}),  # TypedNode.__init__(kind: str), not annotated
    "_node_factory": frozenset({NODECLS}),  # Tree.__init__: NodeFactoryType = Type[Node]
    "_calc_data_id_hook": frozenset({CALLABLE, NONE}),
    "_forward_attrs": frozenset({BOOL}),
    "_lock": frozenset({EXT}),
    "name": frozenset({STR}),
}

#: supplement table for un-annotated locals/parameters: (function, name) -> tags
LOCAL_TYPES: Dict[Tuple[str, str], FrozenSet[str]] = {
    # declared `-> Node`; elements of `parent_stack: list[tuple[bool, Node]]`
    ("Node._add_filtered._create_parents", "p"): frozenset({NODE}),
    ("Node._add_filtered._create_parents", "n"): frozenset({NODE}),
    # PredicateCallbackType = Callable[[Node], ...]
    ("diff_tree.pred", "node"): frozenset({NODE}),
    # repr callback: Callable[[Node], str]
    ("diff_node_formatter", "node"): frozenset({NODE}),
    # MapperCallbackType = Callable[[Node, dict], ...]
    ("TypedNode.to_dot._edge_mapper", "node"): frozenset({NODE}),
    ("Node._get_prefix._is_last", "p"): frozenset({NODE}),
}

#: allow-list for the root (alias) layer: (function, name) -> roots to drop.
#: Each line is one named symbol with its reason.
ROOT_OVERRIDES: Dict[Tuple[str, str], FrozenSet[str]] = {}

#: Shape axiom of Node._add_filtered (stated on the container, not on a local name): `parent_stack` holds
#: (is_existing, node) pairs; an entry is *used as a parent* only when it is flagged existing (a node of the
#: target tree) or after it was replaced by the copy `p.add(n)`.  The (flag, node) correlation is not tracked by
#: the alias layer, so a local that is only ever bound from entries of `parent_stack`, from `.add()` results or
#: from another such local does not carry the root of the *source* branch (`p:other`).
PARENT_STACK_AXIOM = ("Node._add_filtered", "parent_stack", frozenset({"p:other"}))


def _bound_from_parent_stack(owner: "Func", bs) -> bool:
    top = owner
    while top.parent is not None:
        top = top.parent
    if top.qualname != PARENT_STACK_AXIOM[0]:
        return False
    seen = False
    for b in bs:
        e = getattr(b, "expr", None)
        if e is None:
            return False
        if any(isinstance(x, ast.Name) and x.id == PARENT_STACK_AXIOM[1] for x in ast.walk(e)):
            seen = True
            continue
        if isinstance(e, ast.Call) and isinstance(e.func, ast.Attribute) and e.func.attr in ("add", "add_child", "append_child"):
            continue
        if isinstance(e, ast.Name):
            continue
        return False
    return seen

MUT_METHODS = {
    "append", "insert", "remove", "pop", "sort", "reverse", "extend", "clear",
    "update", "popitem", "setdefault", "add", "discard", "__setitem__", "__delitem__",
}
COPYING_BUILTINS = {"list", "sorted", "tuple", "set", "frozenset", "reversed", "iter",
                    "enumerate", "filter", "zip", "map", "dict"}
SCALAR_BUILTINS = {"len", "str", "int", "bool", "float", "hash", "id", "isinstance",
                   "callable", "repr", "type", "hasattr", "print", "min", "max", "sum",
                   "abs", "range", "issubclass", "format", "any", "all"}

CALLBACK_TYPE_NAMES = {
    "PredicateCallbackType", "TraversalCallbackType", "MapperCallbackType",
    "SerializeMapperType", "DeserializeMapperType", "SortKeyType", "CalcIdCallbackType",
    "RDFMapperCallbackType", "MermaidNodeMapperCallbackType",
    "MermaidEdgeMapperCallbackType", "Callable",
}


def ann_types(model: Model, ann: Optional[ast.AST]) -> FrozenSet[str]:
    """Parse an annotation into nominal tags (empty = unknown)."""
    if ann is None:
        return frozenset()
    if isinstance(ann, ast.Constant):
        if ann.value is None:
            return frozenset({NONE})
        if isinstance(ann.value, str):
            try:
                return ann_types(model, ast.parse(ann.value, mode="eval").body)
            except SyntaxError:
                return frozenset()
        return frozenset()
    if isinstance(ann, ast.Name):
        n = ann.id
        if model.is_family(n, NODE_BASE):
            return frozenset({NODE})
        if model.is_family(n, TREE_BASE) or n == "TTree":
            return frozenset({TREE})
        table = {
            "str": STR, "int": INT, "bool": BOOL, "dict": DICT, "Dict": DICT,
            "list": LIST, "List": LIST, "set": SET, "tuple": TUPLE, "float": FLOAT,
            "Any": ANY, "object": ANY, "DataIdType": DATAID, "NodeFactoryType": NODECLS,
            "KeyMapType": DICT, "ValueMapType": DICT, "ValueDictMapType": DICT,
            "FlatJsonDictType": DICT, "Path": EXT, "IO": EXT, "Graph": EXT,
            "IdentifiedNode": EXT, "IterMethod": EXT, "None": NONE,
        }
        if n in table:
            return frozenset({table[n]})
        if n in CALLBACK_TYPE_NAMES:
            return frozenset({CALLABLE})
        if n == "ReprArgType":
            return frozenset({STR, CALLABLE})
        if n == "ANY_KIND":
            return frozenset({EXT})
        return frozenset()
    if isinstance(ann, ast.Attribute):
        return ann_types(model, ast.Name(id=ann.attr))
    if isinstance(ann, ast.BinOp) and isinstance(ann.op, ast.BitOr):
        return ann_types(model, ann.left) | ann_types(model, ann.right)
    if isinstance(ann, ast.Subscript):
        base = ann.value
        bn = base.id if isinstance(base, ast.Name) else getattr(base, "attr", "")
        sl = ann.slice
        args = list(sl.elts) if isinstance(sl, ast.Tuple) else [sl]
        if bn in ("Optional",):
            return ann_types(model, args[0]) | {NONE}
        if bn in ("Union",):
            out: FrozenSet[str] = frozenset()
            for a in args:
                out |= ann_types(model, a)
            return out
        if bn in ("list", "List", "Sequence", "Iterable"):
            inner = ann_types(model, args[0])
            if inner == {NODE}:
                return frozenset({NODELIST})
            return frozenset({LIST})
        if bn in ("Iterator", "Generator"):
            inner = ann_types(model, args[0])
            if inner == {NODE}:
                return frozenset({NODEITER})
            return frozenset({EXT})
        if bn in ("dict", "Dict"):
            if len(args) == 2:
                v = ann_types(model, args[1])
                if v == {NODE}:
                    return frozenset({IDINDEX})
                if v == {NODELIST}:
                    return frozenset({DATAINDEX})
            return frozenset({DICT})
        if bn in ("type", "Type"):
            inner = ann_types(model, args[0])
            if inner == {NODE}:
                return frozenset({NODECLS})
            if inner == {TREE}:
                return frozenset({TREECLS})
            return frozenset({EXT})
        if bn in ("tuple", "Tuple"):
            return frozenset({TUPLE})
        if bn in ("IO",):
            return frozenset({EXT})
        if bn in ("Literal",):
            out = set()
            for a in args:
                if isinstance(a, ast.Constant):
                    out.add(
                        BOOL if isinstance(a.value, bool) else STR if isinstance(a.value, str)
                        else INT if isinstance(a.value, int) else NONE if a.value is None else ANY
                    )
            return frozenset(out)
        if bn in CALLBACK_TYPE_NAMES:
            return frozenset({CALLABLE})
        return frozenset()
    return frozenset()


@dataclass(frozen=True)
class Binding:
    kind: str  # val elem part with exc key value idx param
    expr: Optional[ast.AST]
    index: int = -1
    ann: Optional[ast.AST] = None
    ctx: Optional[Func] = None  # function in which expr is evaluated (if not the owner)


class Scope:
    """Lexical scope of one function (bindings of its own names)."""

    def __init__(self, env: "Env", func: Func, parent: Optional["Scope"]):
        self.env = env
        self.func = func
        self.parent = parent
        self.bindings: Dict[str, List[Binding]] = {}
        self.nonlocals: Set[str] = set()
        self.comp_bindings: Dict[int, Dict[str, List[Binding]]] = {}
        self._collect()

    def _bind(self, target: ast.AST, b: Binding, table=None) -> None:
        table = self.bindings if table is None else table
        if isinstance(target, ast.Name):
            table.setdefault(target.id, []).append(b)
        elif isinstance(target, (ast.Tuple, ast.List)):
            for i, t in enumerate(target.elts):
                if b.kind == "elem":
                    self._bind(t, Binding("elempart", b.expr, i), table)
                elif b.kind == "val":
                    if isinstance(b.expr, (ast.Tuple, ast.List)) and len(b.expr.elts) == len(target.elts):
                        self._bind(t, Binding("val", b.expr.elts[i]), table)
                    else:
                        self._bind(t, Binding("part", b.expr, i), table)
                else:
                    self._bind(t, Binding("part", b.expr, i), table)
        elif isinstance(target, ast.Starred):
            self._bind(target.value, Binding("part", b.expr, -1), table)

    def _collect(self) -> None:
        f = self.func
        for p in f.param_names():
            self.bindings.setdefault(p, []).append(Binding("param", None, ann=f.param_annotation(p)))
        for n in iter_own(f.node):
            if isinstance(n, ast.Assign):
                for t in n.targets:
                    self._bind(t, Binding("val", n.value))
            elif isinstance(n, ast.AnnAssign):
                if isinstance(n.target, ast.Name):
                    self.bindings.setdefault(n.target.id, []).append(
                        Binding("val", n.value, ann=n.annotation)
                    )
            elif isinstance(n, ast.AugAssign):
                if isinstance(n.target, ast.Name):
                    self.bindings.setdefault(n.target.id, []).append(Binding("val", n.value))
            elif isinstance(n, (ast.For, ast.AsyncFor)):
                self._bind(n.target, Binding("elem", n.iter))
            elif isinstance(n, (ast.With, ast.AsyncWith)):
                for it in n.items:
                    if it.optional_vars is not None:
                        self._bind(it.optional_vars, Binding("with", it.context_expr))
            elif isinstance(n, ast.ExceptHandler):
                if n.name:
                    self.bindings.setdefault(n.name, []).append(Binding("exc", n.type))
            elif isinstance(n, ast.NamedExpr):
                self._bind(n.target, Binding("val", n.value))
            elif isinstance(n, (ast.ListComp, ast.SetComp, ast.GeneratorExp, ast.DictComp)):
                tab: Dict[str, List[Binding]] = {}
                for g in n.generators:
                    self._bind(g.target, Binding("elem", g.iter), tab)
                self.comp_bindings[id(n)] = tab
                # comprehension variables are also made visible function-wide:
                # the repo never reuses a comprehension variable name for
                # something of another kind in the same function
                for k, v in tab.items():
                    self.bindings.setdefault(k, []).extend(v)
            elif isinstance(n, ast.Lambda):
                for a in n.args.args:
                    self.bindings.setdefault(a.arg, []).append(Binding("lambda", None))
            elif isinstance(n, ast.Nonlocal):
                self.nonlocals.update(n.names)

        for g in f.nested:
            self.bindings.setdefault(g.name, []).append(Binding("func", g.node))

    def resolve(self, name: str) -> Tuple[Optional["Scope"], List[Binding]]:
        s: Optional[Scope] = self
        while s is not None:
            if name in s.bindings and name not in s.nonlocals:
                return s, s.bindings[name]
            s = s.parent
        return None, []


class Env:
    """Whole-program inference context (shared summaries)."""

    def __init__(self, model: Model):
        self.model = model
        self.scopes: Dict[Func, Scope] = {}
        for f in model.all_funcs():
            if f.parent is None:
                self._mk_scope(f, None)
        self._types_cache: Dict[Tuple[int, int], FrozenSet[str]] = {}
        self._busy: Set[Tuple[str, int, int]] = set()
        # call sites of nested functions / all functions: callee -> [(caller, call)]
        self.ret_roots: Dict[Func, FrozenSet[str]] = {}
        self.ret_groots: Dict[Func, FrozenSet[Tuple[str, FrozenSet]]] = {}
        self.ret_fields: Dict[Func, FrozenSet[Tuple[str, str]]] = {}
        self._roots_cache: Dict[Tuple[int, int], FrozenSet[str]] = {}
        self._fields_cache: Dict[Tuple[int, int], FrozenSet[Tuple[str, str]]] = {}
        self.weak_sites: List[str] = []
        self.call_stats = {"resolved": 0, "weak": 0, "external": 0}
        self._nested_calls: Dict[Func, List[Tuple[Func, ast.Call]]] = {}
        self._cfgs: Dict[Func, CFG] = {}
        self._reach_cache: Dict[tuple, object] = {}
        self._cuts = 0
        self.guards: Dict[int, FrozenSet[Tuple[str, FrozenSet[str]]]] = {}
        self._index_calls()
        self._index_items()
        self._index_guards()
        self._fixpoint()

    def _mk_scope(self, f: Func, parent: Optional[Scope]) -> None:
        s = Scope(self, f, parent)
        self.scopes[f] = s
        for g in f.nested:
            self._mk_scope(g, s)

    def scope(self, f: Func) -> Scope:
        return self.scopes[f]

    def cfg(self, f: Func) -> CFG:
        c = self._cfgs.get(f)
        if c is None:
            c = self._cfgs[f] = CFG(f.node)
        return c

    def reaching(self, f: Func, use: ast.AST, name: str):
        """Flow-sensitive refinement for a local with several plain
        assignments: (value exprs reaching `use`, param_reaches) or None when
        it cannot be determined (loop/with binders, nested scopes, ...)."""
        key = (id(f.node), id(use), name)
        if key in self._reach_cache:
            return self._reach_cache[key]
        res = None
        try:
            cfg = self.cfg(f)
            at = cfg.stmt_node_of(use, self.model.parent_of)
            if at is not None:
                defs = cfg.reaching_assignments(at, name)
                vals = []
                ok = True
                for d in defs:
                    a = d.ast
                    if d.kind == "stmt" and isinstance(a, ast.Assign) and any(
                        isinstance(t, ast.Name) and t.id == name for t in a.targets
                    ):
                        vals.append(a.value)
                    elif d.kind == "stmt" and isinstance(a, ast.AnnAssign) and a.value is not None:
                        vals.append(a.value)
                    else:
                        ok = False
                        break
                if ok:
                    r = cfg.reachable([cfg.entry], avoid=lambda n: n is not at and _binds(n, name),
                                      may_raise=lambda n: True)
                    res = (vals, at.id in r)
        except RecursionError:  # pragma: no cover
            res = None
        self._reach_cache[key] = res
        return res

    def _flow_bindings(self, f: Func, node: Optional[ast.AST], name: str, sc: "Scope", bs: List[Binding]):
        """Restrict the bindings of a local to those reaching `node` when the
        local lives in f itself and is only bound by plain assignments."""
        if node is None or sc.func is not f:
            return bs
        kinds = {b.kind for b in bs}
        if not kinds <= {"val", "param"} or sum(1 for b in bs if b.kind == "val") < 2:
            return bs
        r = self.reaching(f, node, name)
        if r is None:
            return bs
        vals, from_entry = r
        ids = {id(v) for v in vals}
        out = [b for b in bs if (b.kind == "val" and id(b.expr) in ids) or (b.kind == "param" and from_entry)]
        if not out and not from_entry:
            return bs
        return out

    # ------------------------------------------------------------ call index
    def _index_calls(self) -> None:
        self.calls_in: Dict[Func, List[ast.Call]] = {}
        for f in self.model.all_funcs():
            cs = [n for n in iter_own(f.node) if isinstance(n, ast.Call)]
            self.calls_in[f] = cs
        # nested function call sites (by name, lexically)
        for f in self.model.all_funcs():
            for c in self.calls_in[f]:
                if isinstance(c.func, ast.Name):
                    sc, bs = self.scope(f).resolve(c.func.id)
                    for b in bs:
                        if b.kind == "func":
                            g = self._func_of_node(b.expr)
                            if g is not None:
                                self._nested_calls.setdefault(g, []).append((f, c))

    def _index_items(self) -> None:
        """container.append(x) / container[k] = x contribute element bindings
        to the scope that owns the container name."""
        for f in self.model.all_funcs():
            for n in iter_own(f.node):
                name = None
                val = None
                kind = "item"
                if (
                    isinstance(n, ast.Call)
                    and isinstance(n.func, ast.Attribute)
                    and isinstance(n.func.value, ast.Name)
                    and n.func.attr in ("append", "add", "extend", "insert", "appendleft")
                    and n.args
                ):
                    name, val = n.func.value.id, n.args[-1]
                    if n.func.attr == "extend":
                        kind = "items"
                elif isinstance(n, ast.Assign):
                    for t in n.targets:
                        if isinstance(t, ast.Subscript) and isinstance(t.value, ast.Name):
                            name, val = t.value.id, n.value
                if name is None:
                    continue
                sc, _bs = self.scope(f).resolve(name)
                if sc is None:
                    continue
                if isinstance(n, ast.Call) and n.func.attr == "add":
                    # only for sets (x.add(...) is also the Node/Tree API)
                    is_set = any(
                        b.kind == "val" and (
                            isinstance(b.expr, (ast.Set, ast.SetComp))
                            or (isinstance(b.expr, ast.Call) and isinstance(b.expr.func, ast.Name)
                                and b.expr.func.id == "set")
                        )
                        for b in _bs
                    )
                    if not is_set:
                        continue
                sc.bindings[name].append(Binding(kind, val, ctx=f))

    def _isinstance_guard(self, f: Func, test: ast.AST):
        """(param-or-local name, tags) for `isinstance(NAME, X)`."""
        if not (isinstance(test, ast.Call) and isinstance(test.func, ast.Name)
                and test.func.id == "isinstance" and len(test.args) == 2
                and isinstance(test.args[0], ast.Name)):
            return None
        x = test.args[1]
        xs = list(x.elts) if isinstance(x, ast.Tuple) else [x]
        tags: Set[str] = set()
        for c in xs:
            if isinstance(c, ast.Name) and c.id in self.model.classes:
                if self.model.is_family(c.id, NODE_BASE):
                    tags.add(NODE)
                elif self.model.is_family(c.id, TREE_BASE):
                    tags.add(TREE)
                else:
                    return None
            elif isinstance(c, ast.Name) and c.id in ("str", "int", "dict", "list", "tuple", "bool"):
                tags.add({"str": STR, "int": INT, "dict": DICT, "list": LIST, "tuple": TUPLE, "bool": BOOL}[c.id])
            else:
                ct = self.types(f, c)
                if ct == {NODECLS}:
                    tags.add(NODE)
                elif ct == {TREECLS}:
                    tags.add(TREE)
                else:
                    return None
        return (test.args[0].id, frozenset(tags))

    def _truthy_guards(self, f: Func, test: ast.AST):
        """Parameters that must be truthy for `test` to hold (Name / and-chains)."""
        out = []
        ts = test.values if isinstance(test, ast.BoolOp) and isinstance(test.op, ast.And) else [test]
        for t in ts:
            if isinstance(t, ast.Name) and t.id in f.param_names() and t.id != f.self_name:
                out.append((t.id, frozenset({"TRUTHY"})))
            g = self._isinstance_guard(f, t)
            if g is not None:
                out.append(g)
        return out

    def _index_guards(self) -> None:
        for f in self.model.all_funcs():
            def rec(node, gs):
                self.guards[id(node)] = gs
                if isinstance(node, (ast.FunctionDef, ast.AsyncFunctionDef, ast.ClassDef)) and node is not f.node:
                    return
                if isinstance(node, ast.If):
                    g = None
                    rec(node.test, gs)
                    inner = gs | frozenset(self._truthy_guards(f, node.test))
                    for st in node.body:
                        rec(st, inner)
                    for st in node.orelse:
                        rec(st, gs)
                    return
                for ch in ast.iter_child_nodes(node):
                    rec(ch, gs)
            rec(f.node, frozenset())

    def guards_of(self, node: ast.AST) -> FrozenSet[Tuple[str, FrozenSet[str]]]:
        return self.guards.get(id(node), frozenset())

    def guard_infeasible(self, f: Func, call: ast.Call, g: Func, recv, guards) -> bool:
        """True if some isinstance guard of callee g cannot hold at this call."""
        for pname, tags in guards:
            if pname not in g.param_names():
                continue
            bound = recv is not None or g.name == "__init__" or g.kind == "classmethod"
            a = self._actual_for(g, call, pname, bound=bound)
            if a is None:
                d = g.param_default(pname)
                if not isinstance(d, ast.Constant):
                    continue
                const = d
                ta = frozenset(self._const_type(d))
            else:
                const = a if isinstance(a, ast.Constant) else None
                ta = self.types(f, a)
            if "TRUTHY" in tags:
                if const is not None and not const.value:
                    return True
                continue
            if "NOTSELF" in tags:
                if a is not None and isinstance(a, ast.Name) and a.id == f.self_name:
                    return True
                # the same belief for any node x that is looked up in its own parent's list (`_index_of(x._parent._children, x)`,
                # also through locals bound to x._parent / x._parent._children): shape axiom c._parent is X <=> c in X._children
                if a is not None and isinstance(a, ast.Name) and any(self._mentions_parent_of(f, o, a.id) for o in call.args if o is not a):
                    return True
                continue
            if any(isinstance(t, tuple) and t and t[0] == "NOTIN" for t in tags):
                vals = [t[1] for t in tags if isinstance(t, tuple) and t[0] == "NOTIN"][0]
                if const is not None and any(const.value is v or (const.value == v and type(const.value) is type(v)) for v in vals):
                    return True
                continue
            if ta and ANY not in ta and not (ta & tags):
                return True
        return False

    def _mentions_parent_of(self, f: Func, e: ast.AST, x: str, depth: int = 2) -> bool:
        for n in ast.walk(e):
            if isinstance(n, ast.Attribute) and n.attr in ("_parent", "parent") and isinstance(n.value, ast.Name) and n.value.id == x:
                return True
            if depth and isinstance(n, ast.Name) and n.id != x:
                bs = self.scope(f).bindings.get(n.id, [])
                vals = [b for b in bs if b.kind == "val" and b.expr is not None]
                if vals and len(vals) == len(bs) and all(self._mentions_parent_of(f, b.expr, x, depth - 1) for b in vals):
                    return True
        return False

    def _func_of_node(self, node) -> Optional[Func]:
        for f in self.model.all_funcs():
            if f.node is node:
                return f
        return None

    # ----------------------------------------------------------------- types
    def types(self, f: Func, e: Optional[ast.AST]) -> FrozenSet[str]:
        if e is None:
            return frozenset()
        key = (id(f.node), id(e))
        if key in self._types_cache:
            return self._types_cache[key]
        bk = ("t", id(f.node), id(e))
        if bk in self._busy:
            self._cuts += 1
            return frozenset()
        self._busy.add(bk)
        c0 = self._cuts
        try:
            r = self._types(f, e)
        finally:
            self._busy.discard(bk)
        if self._cuts == c0 or len(self._busy) == 0:
            self._types_cache[key] = r
        return r

    def _name_types(self, f: Func, name: str, node: Optional[ast.AST] = None) -> FrozenSet[str]:
        sc, bs = self.scope(f).resolve(name)
        if sc is not None:
            bs = self._flow_bindings(f, node, name, sc, bs)
        if sc is None:
            m = self.model
            if m.is_family(name, NODE_BASE):
                return frozenset({NODECLS})
            if m.is_family(name, TREE_BASE):
                return frozenset({TREECLS})
            return frozenset()
        owner = sc.func
        out: Set[str] = set()
        sup = LOCAL_TYPES.get((owner.qualname, name))
        if sup is not None:
            return sup
        for b in bs:
            if b.kind == "param":
                if name == owner.self_name and owner.parent is None:
                    top = owner
                    if top.kind == "classmethod":
                        out.add(NODECLS if self.model.is_family(top.cls, NODE_BASE)
                                else TREECLS if self.model.is_family(top.cls, TREE_BASE) else EXT)
                    elif self.model.is_family(top.cls, NODE_BASE):
                        out.add(NODE)
                    elif self.model.is_family(top.cls, TREE_BASE):
                        out.add(TREE)
                    else:
                        out.add(EXT)
                    continue
                t = ann_types(self.model, b.ann)
                if t:
                    out |= t
                else:
                    d = owner.param_default(name)
                    if isinstance(d, ast.Constant):
                        out |= self._const_type(d) - {NONE}
                    # nested function parameters: union over call-site actuals
                    if owner.parent is not None:
                        for caller, call in self._nested_calls.get(owner, []):
                            a = self._actual_for(owner, call, name)
                            if a is not None:
                                out |= self.types(caller, a)
            elif b.kind == "val":
                if b.ann is not None:
                    t = ann_types(self.model, b.ann)
                    if t:
                        out |= t
                        continue
                out |= self.types(owner, b.expr)
            elif b.kind == "elem":
                out |= self._elem_types(owner, b.expr)
            elif b.kind == "elempart":
                out |= self._elempart_types(owner, b.expr, b.index)
            elif b.kind == "with":
                t = self.types(owner, b.expr)
                out |= t if t & {TREE} else {EXT}
            elif b.kind == "func":
                out.add(CALLABLE)
            elif b.kind == "exc":
                out.add(EXT)
            elif b.kind == "item":
                if self.types(b.ctx or owner, b.expr) == {NODE}:
                    out.add(NODELIST)
            elif b.kind == "items":
                if self.types(b.ctx or owner, b.expr) & {NODELIST}:
                    out.add(NODELIST)
        # isinstance refinements anywhere in the owning top function add
        # nothing new: annotations already carry the union
        return frozenset(out)

    @staticmethod
    def _const_type(c: ast.Constant) -> Set[str]:
        v = c.value
        if v is None:
            return {NONE}
        if isinstance(v, bool):
            return {BOOL}
        if isinstance(v, int):
            return {INT}
        if isinstance(v, str):
            return {STR}
        if isinstance(v, float):
            return {FLOAT}
        return {EXT}

    def _elem_types(self, f: Func, it: ast.AST) -> FrozenSet[str]:
        t = self.types(f, it)
        out: Set[str] = set()
        if t & {NODELIST, NODEITER, NODE, TREE}:
            out.add(NODE)
        if isinstance(it, ast.Call):
            fn = it.func
            if isinstance(fn, ast.Attribute) and fn.attr == "values":
                bt = self.types(f, fn.value)
                if IDINDEX in bt:
                    out.add(NODE)
                if DATAINDEX in bt:
                    out.add(NODELIST)
            if isinstance(fn, ast.Attribute) and fn.attr == "keys":
                out.add(ANY)
            if isinstance(fn, ast.Name) and fn.id in ("reversed", "sorted", "list", "iter", "tuple") and it.args:
                out |= self._elem_types(f, it.args[0])
            if isinstance(fn, ast.Name) and fn.id == "range":
                out.add(INT)
        if isinstance(it, ast.BoolOp):
            for v in it.values:
                out |= self._elem_types(f, v)
        return frozenset(out)

    def _elempart_types(self, f: Func, it: ast.AST, idx: int) -> FrozenSet[str]:
        if isinstance(it, ast.Call) and isinstance(it.func, ast.Name) and it.func.id == "enumerate" and it.args:
            if idx == 0:
                return frozenset({INT})
            return self._elem_types(f, it.args[0])
        if isinstance(it, ast.Call) and isinstance(it.func, ast.Attribute) and it.func.attr == "items":
            bt = self.types(f, it.func.value)
            if idx == 1:
                if IDINDEX in bt:
                    return frozenset({NODE})
                if DATAINDEX in bt:
                    return frozenset({NODELIST})
            return frozenset()
        return frozenset()

    def _types(self, f: Func, e: ast.AST) -> FrozenSet[str]:
        m = self.model
        if isinstance(e, ast.Constant):
            return frozenset(self._const_type(e))
        if isinstance(e, ast.Name):
            return self._name_types(f, e.id, e)
        if isinstance(e, ast.JoinedStr):
            return frozenset({STR})
        if isinstance(e, ast.Attribute):
            bt = self.types(f, e.value)
            out: Set[str] = set()
            if e.attr == "__class__":
                if NODE in bt:
                    out.add(NODECLS)
                if TREE in bt:
                    out.add(TREECLS)
                return frozenset(out)
            if e.attr == "data" and NODE in bt:
                return frozenset({DATA})
            for base, tag in ((NODE_BASE, NODE), (TREE_BASE, TREE)):
                if tag not in bt and not (tag == NODE and NODECLS in bt) and not (tag == TREE and TREECLS in bt):
                    continue
                if e.attr in FIELD_TYPES and e.attr.startswith("_"):
                    out |= FIELD_TYPES[e.attr]
                    continue
                found = False
                for cn in m.subclasses(base):
                    g = m.lookup(cn, e.attr)
                    if g is None:
                        continue
                    found = True
                    if g.kind == "property":
                        out |= self.ret_types(g)
                    else:
                        out.add(CALLABLE)
                if not found and e.attr in FIELD_TYPES:
                    out |= FIELD_TYPES[e.attr]
            if not out and isinstance(e.value, ast.Name) and e.value.id == f.self_name and e.attr in FIELD_TYPES:
                out |= FIELD_TYPES[e.attr]
            return frozenset(out)
        if isinstance(e, ast.Subscript):
            bt = self.types(f, e.value)
            out = set()
            if isinstance(e.slice, ast.Slice):
                if NODELIST in bt:
                    out.add(NODELIST)
                if LIST in bt:
                    out.add(LIST)
                return frozenset(out)
            if NODELIST in bt:
                out.add(NODE)
            if DATAINDEX in bt:
                out.add(NODELIST)
            if IDINDEX in bt:
                out.add(NODE)
            if TREE in bt:
                out.add(NODE)  # Tree.__getitem__ -> Node
            return frozenset(out)
        if isinstance(e, ast.Call):
            return self._call_types(f, e)
        if isinstance(e, ast.IfExp):
            return self.types(f, e.body) | self.types(f, e.orelse)
        if isinstance(e, ast.BoolOp):
            out = set()
            for v in e.values:
                out |= self.types(f, v)
            return frozenset(out)
        if isinstance(e, (ast.ListComp, ast.GeneratorExp)):
            et = self.types(f, e.elt)
            if et == {NODE}:
                return frozenset({NODELIST if isinstance(e, ast.ListComp) else NODEITER})
            return frozenset({LIST if isinstance(e, ast.ListComp) else EXT})
        if isinstance(e, ast.List):
            if e.elts and all(self.types(f, x) == {NODE} for x in e.elts):
                return frozenset({NODELIST})
            return frozenset({LIST})
        if isinstance(e, ast.Tuple):
            return frozenset({TUPLE})
        if isinstance(e, (ast.Dict, ast.DictComp)):
            return frozenset({DICT})
        if isinstance(e, (ast.Set, ast.SetComp)):
            return frozenset({SET})
        if isinstance(e, ast.Compare):
            return frozenset({BOOL})
        if isinstance(e, ast.UnaryOp) and isinstance(e.op, ast.Not):
            return frozenset({BOOL})
        if isinstance(e, ast.BinOp):
            lt, rt = self.types(f, e.left), self.types(f, e.right)
            if lt == {INT} and rt == {INT}:
                return frozenset({INT})
            if STR in lt:
                return frozenset({STR})
            return frozenset()
        if isinstance(e, ast.Lambda):
            return frozenset({CALLABLE})
        if isinstance(e, ast.NamedExpr):
            return self.types(f, e.value)
        if isinstance(e, ast.Starred):
            return self.types(f, e.value)
        return frozenset()

    def _call_types(self, f: Func, e: ast.Call) -> FrozenSet[str]:
        m = self.model
        fn = e.func
        if isinstance(fn, ast.Name):
            n = fn.id
            sc, bs = self.scope(f).resolve(n)
            if sc is None:
                if m.is_family(n, NODE_BASE):
                    return frozenset({NODE})
                if m.is_family(n, TREE_BASE):
                    return frozenset({TREE})
                if n in m.classes:
                    return frozenset({EXT})
                if n in ("list", "sorted", "reversed", "tuple", "iter") and e.args:
                    at = self.types(f, e.args[0])
                    if at & {NODELIST, NODEITER, NODE, TREE} or self._elem_types(f, e.args[0]) == {NODE}:
                        return frozenset({NODELIST if n in ("list", "sorted") else NODEITER})
                    return frozenset({LIST})
                if n == "filter" and len(e.args) == 2:
                    if self.types(f, e.args[1]) & {NODELIST, NODEITER}:
                        return frozenset({NODEITER})
                    return frozenset({EXT})
                if n == "len" or n == "int" or n == "hash" or n == "id":
                    return frozenset({INT})
                if n in ("str", "repr"):
                    return frozenset({STR})
                if n in ("bool", "isinstance", "callable", "hasattr"):
                    return frozenset({BOOL})
                if n == "dict":
                    return frozenset({DICT})
                if n == "set":
                    return frozenset({SET})
                if n == "getattr":
                    return frozenset({ANY})
                g = m.func(n, required=False)
                if g is not None and g.parent is None and g.cls is None:
                    return self.ret_types(g)
                return frozenset()
            # local name: nested function, class-valued variable, callback
            out: Set[str] = set()
            t = self._name_types(f, n)
            if NODECLS in t:
                out.add(NODE)
            if TREECLS in t:
                out.add(TREE)
            for b in bs:
                if b.kind == "func":
                    out |= ann_types(m, b.expr.returns)
            if not out:
                for g, _recv in self.callees(f, e):
                    out |= self.ret_types(g)
            return frozenset(out)
        if isinstance(fn, ast.Attribute):
            if fn.attr == "copy" and not e.args:
                bt = self.types(f, fn.value)
                if bt & {NODELIST, LIST, DICT, SET}:
                    return bt & {NODELIST, LIST, DICT, SET}
            if fn.attr == "get":
                bt = self.types(f, fn.value)
                if DATAINDEX in bt:
                    return frozenset({NODELIST, NONE})
                if IDINDEX in bt:
                    return frozenset({NODE, NONE})
                if DICT in bt:
                    return frozenset({ANY})
            out = set()
            # constructor through attribute typed as class (self._tree.__class__())
            ft = self.types(f, fn)
            if NODECLS in ft:
                out.add(NODE)
            if TREECLS in ft:
                out.add(TREE)
            for g, _recv in self.callees(f, e):
                if g.name == "__init__":
                    continue
                out |= self.ret_types(g)
            return frozenset(out)
        if isinstance(fn, ast.Call):
            return frozenset()
        return frozenset()

    def ret_types(self, g: Func) -> FrozenSet[str]:
        """Declared return type, else the union over the returned expressions."""
        t = ann_types(self.model, g.node.returns)
        if t:
            return t
        bk = ("rt", id(g.node), 0)
        if bk in self._busy:
            self._cuts += 1
            return frozenset()
        self._busy.add(bk)
        try:
            out: Set[str] = set()
            for n in iter_own(g.node, into_lambda=False):
                if isinstance(n, ast.Return) and n.value is not None:
                    out |= self.types(g, n.value)
            return frozenset(out)
        finally:
            self._busy.discard(bk)

    # ---------------------------------------------------------------- callees
    def _actual_for(self, g: Func, call: ast.Call, pname: str, *, bound: bool = False) -> Optional[ast.AST]:
        """Actual argument expression bound to parameter `pname` of g."""
        pos = g.positional_params()
        if bound and pos and g.kind != "staticmethod" and g.cls is not None and g.parent is None:
            pos = pos[1:]
        for k in call.keywords:
            if k.arg == pname:
                return k.value
        if pname in pos:
            i = pos.index(pname)
            if i < len(call.args) and not any(isinstance(a, ast.Starred) for a in call.args[: i + 1]):
                return call.args[i]
        return None

    def callees(self, f: Func, call: ast.Call) -> List[Tuple[Func, Optional[ast.AST]]]:
        """Resolved repo callees of a call site as (callee, receiver-expr)."""
        r = self._callees(f, call.func)
        return r

    def _self_dispatch(self, f: Func, name: str) -> List[Func]:
        m = self.model
        out: List[Func] = []
        for d in m.runtime_classes_for(f):
            g = m.lookup(d, name)
            if g is not None and g not in out:
                out.append(g)
        return out

    def _family_dispatch(self, base: str, name: str) -> List[Func]:
        m = self.model
        out: List[Func] = []
        for d in m.subclasses(base):
            g = m.lookup(d, name)
            if g is not None and g not in out:
                out.append(g)
        return out

    def _callees(self, f: Func, fn: ast.AST, depth: int = 0) -> List[Tuple[Func, Optional[ast.AST]]]:
        m = self.model
        if depth > 3:
            return []
        if isinstance(fn, ast.Name):
            n = fn.id
            sc, bs = self.scope(f).resolve(n)
            if sc is None:
                if n in m.classes:
                    g = m.lookup(n, "__init__")
                    return [(g, None)] if g else []
                g = m.func(n, required=False)
                if g is not None and g.cls is None and g.parent is None:
                    return [(g, None)]
                return []
            out: List[Tuple[Func, Optional[ast.AST]]] = []
            for b in bs:
                if b.kind == "func":
                    g = self._func_of_node(b.expr)
                    if g:
                        out.append((g, None))
                elif b.kind == "val" and b.expr is not None:
                    ex = b.expr
                    if isinstance(ex, ast.Attribute):
                        out += self._callees(sc.func, ex, depth + 1)
                    elif isinstance(ex, ast.Name) and ex.id != n:
                        out += self._callees(sc.func, ex, depth + 1)
                    elif isinstance(ex, ast.Call) and isinstance(ex.func, ast.Name) and ex.func.id == "getattr":
                        out += self._getattr_dispatch(sc.func, ex)
                    elif isinstance(ex, ast.BoolOp):
                        for v in ex.values:
                            if isinstance(v, (ast.Attribute, ast.Name)):
                                out += self._callees(sc.func, v, depth + 1)
            t = self._name_types(f, n)
            if NODECLS in t:
                for g in self._family_dispatch(NODE_BASE, "__init__"):
                    if g.cls and not g.cls.startswith("_System"):
                        out.append((g, None))
            if TREECLS in t:
                for g in self._family_dispatch(TREE_BASE, "__init__"):
                    out.append((g, None))
            seen = []
            for x in out:
                if x not in seen:
                    seen.append(x)
            return seen
        if isinstance(fn, ast.Attribute):
            recv = fn.value
            name = fn.attr
            # super().m()
            if isinstance(recv, ast.Call) and isinstance(recv.func, ast.Name) and recv.func.id == "super":
                top = f.top
                if top.cls:
                    mro = m.classes[top.cls].mro
                    for k in mro[1:]:
                        g = m.lookup(k, name)
                        if g is not None:
                            return [(g, ast.Name(id=top.self_name or "self"))]
                return []
            if isinstance(recv, ast.Name) and recv.id == f.self_name and self.scope(f).resolve(recv.id)[0] is self.scope(f.top):
                return [(g, recv) for g in self._self_dispatch(f, name)]
            if isinstance(recv, ast.Name) and recv.id in m.classes and self.scope(f).resolve(recv.id)[0] is None:
                g = m.lookup(recv.id, name)
                return [(g, None)] if g else []
            rt = self.types(f, recv)
            out = []
            if NODE in rt or NODECLS in rt:
                out += [(g, recv) for g in self._family_dispatch(NODE_BASE, name)]
            if TREE in rt or TREECLS in rt:
                out += [(g, recv) for g in self._family_dispatch(TREE_BASE, name)]
            if name == "__class__":
                out = []  # x.__class__(...): a constructor call, not a method of x
            # x.__class__(...) handled by types; constructor effects:
            ft = self.types(f, fn)
            if NODECLS in ft and not out:
                out += [(g, None) for g in self._family_dispatch(NODE_BASE, "__init__")
                        if g.cls and not g.cls.startswith("_System")]
            if TREECLS in ft and not out:
                out += [(g, None) for g in self._family_dispatch(TREE_BASE, "__init__")]
            if out:
                return out
            if not rt or rt & {ANY}:
                # weak, name-based resolution over the repo classes
                cands: List[Func] = []
                for c in m.classes.values():
                    g = c.methods.get(name) or (c.methods.get(c.aliases[name]) if name in c.aliases else None)
                    if g is not None and g not in cands:
                        cands.append(g)
                if cands and name not in _GENERIC_METHOD_NAMES:
                    return [(g, recv) for g in cands]
            return []
        return []

    def _getattr_dispatch(self, f: Func, ex: ast.Call) -> List[Tuple[Func, Optional[ast.AST]]]:
        """getattr(self, f"_iter_{method.value}") -> all methods with the prefix."""
        if len(ex.args) < 2:
            return []
        target, namearg = ex.args[0], ex.args[1]
        prefix = None
        if isinstance(namearg, ast.JoinedStr) and namearg.values and isinstance(namearg.values[0], ast.Constant):
            prefix = str(namearg.values[0].value)
        elif isinstance(namearg, ast.Constant) and isinstance(namearg.value, str):
            prefix = namearg.value
        if prefix is None:
            return []
        tt = self.types(f, target)
        bases = []
        if NODE in tt or NODECLS in tt:
            bases.append(NODE_BASE)
        if TREE in tt or TREECLS in tt:
            bases.append(TREE_BASE)
        out = []
        recv = target
        if isinstance(target, ast.Attribute) and target.attr == "__class__":
            recv = None  # function taken from the class: called with an explicit self
        for b in bases:
            for cn in self.model.subclasses(b):
                for mn, g in self.model.classes[cn].methods.items():
                    if mn.startswith(prefix) and (g, recv) not in out:
                        out.append((g, recv))
        return out

    def classify_call(self, f: Func, call: ast.Call) -> str:
        cs = self.callees(f, call)
        if cs:
            fn = call.func
            if isinstance(fn, ast.Attribute) and not isinstance(fn.value, ast.Call):
                rt = self.types(f, fn.value)
                if (not rt or rt & {ANY}) and not (
                    isinstance(fn.value, ast.Name) and (fn.value.id == f.self_name or fn.value.id in self.model.classes)
                ):
                    return "weak"
            return "resolved"
        return "external"

    # ----------------------------------------------------------------- roots
    def roots(self, f: Func, e: Optional[ast.AST]) -> FrozenSet[str]:
        if e is None:
            return frozenset()
        key = (id(f.node), id(e))
        if key in self._roots_cache:
            return self._roots_cache[key]
        bk = ("r", id(f.node), id(e))
        if bk in self._busy:
            self._cuts += 1
            return frozenset()
        self._busy.add(bk)
        c0 = self._cuts
        try:
            r = self._roots(f, e)
        finally:
            self._busy.discard(bk)
        if self._cuts == c0 or len(self._busy) == 0:
            self._roots_cache[key] = r
        return r

    def _name_roots(self, f: Func, name: str, node: Optional[ast.AST] = None) -> FrozenSet[str]:
        sc, bs = self.scope(f).resolve(name)
        if sc is not None:
            bs = self._flow_bindings(f, node, name, sc, bs)
        if sc is None:
            if name in self.model.globals.get(f.module, {}):
                return frozenset({"global"})
            return frozenset()
        owner = sc.func
        out: Set[str] = set()
        for b in bs:
            if b.kind == "param":
                if owner.parent is None:
                    out.add("self" if name == owner.self_name else f"p:{name}")
                else:
                    for caller, call in self._nested_calls.get(owner, []):
                        a = self._actual_for(owner, call, name)
                        if a is not None:
                            out |= self.roots(caller, a)
            elif b.kind in ("val", "elem", "elempart", "part", "with", "item", "items"):
                out |= self.roots(b.ctx or owner, b.expr)
            elif b.kind == "lambda":
                out.add("lambda")
        drop = ROOT_OVERRIDES.get((owner.qualname, name))
        if drop:
            out -= drop
        if _bound_from_parent_stack(owner, bs):
            out -= PARENT_STACK_AXIOM[2]
        return frozenset(out)

    def map_roots(self, f: Func, call: ast.Call, g: Func, recv: Optional[ast.AST],
                  rs: FrozenSet[str]) -> FrozenSet[str]:
        """Translate roots of callee g into roots of caller f at this call."""
        out: Set[str] = set()
        for r in rs:
            if r == "self":
                if recv is not None:
                    out |= self.roots(f, recv)
                elif g.name == "__init__":
                    out.add("fresh")
                else:
                    # unbound call Class.m(x): first positional is self
                    if call.args:
                        out |= self.roots(f, call.args[0])
            elif r.startswith("p:"):
                bound = recv is not None or g.name == "__init__"
                if recv is None and g.cls is not None and g.parent is None and g.kind == "classmethod":
                    bound = True
                a = self._actual_for(g, call, r[2:], bound=bound)
                if a is not None:
                    out |= self.roots(f, a)
            else:
                out.add(r)
        return frozenset(out)

    def _roots(self, f: Func, e: ast.AST) -> FrozenSet[str]:
        if isinstance(e, ast.Name):
            return self._name_roots(f, e.id, e)
        if isinstance(e, ast.Attribute):
            return self.roots(f, e.value)
        if isinstance(e, ast.Subscript):
            return self.roots(f, e.value)
        if isinstance(e, ast.Starred):
            return self.roots(f, e.value)
        if isinstance(e, (ast.Tuple, ast.List, ast.Set)):
            out: Set[str] = set()
            for x in e.elts:
                out |= self.roots(f, x)
            return frozenset(out)
        if isinstance(e, ast.Dict):
            out = set()
            for x in e.values:
                out |= self.roots(f, x)
            return frozenset(out)
        if isinstance(e, ast.IfExp):
            return self.roots(f, e.body) | self.roots(f, e.orelse)
        if isinstance(e, ast.BoolOp):
            out = set()
            for v in e.values:
                out |= self.roots(f, v)
            return frozenset(out)
        if isinstance(e, (ast.ListComp, ast.SetComp, ast.GeneratorExp)):
            return self.roots(f, e.elt)
        if isinstance(e, ast.DictComp):
            return self.roots(f, e.value)
        if isinstance(e, ast.NamedExpr):
            return self.roots(f, e.value)
        if isinstance(e, ast.Call):
            fn = e.func
            t = self.types(f, e)
            cs = self.callees(f, e)
            if cs:
                out = set()
                for g, recv in cs:
                    if g.name == "__init__":
                        out.add("fresh")
                        continue
                    for r, gs in self.ret_groots.get(g, frozenset()):
                        if gs and self.guard_infeasible(f, e, g, recv, gs):
                            continue
                        out |= self.map_roots(f, e, g, recv, frozenset({r}))
                return frozenset(out)
            if isinstance(fn, ast.Name):
                if fn.id in SCALAR_BUILTINS:
                    return frozenset()
                if fn.id == "getattr" and e.args:
                    return self.roots(f, e.args[0])
                if fn.id in COPYING_BUILTINS:
                    out = set()
                    for a in e.args:
                        out |= self.roots(f, a)
                    return frozenset(out)
                if t & {NODE, TREE}:
                    return frozenset({"fresh"})
                # user callback or external function: result is not tree state
                return frozenset()
            if isinstance(fn, ast.Attribute):
                if t & {NODE, TREE} and (NODECLS in self.types(f, fn) or TREECLS in self.types(f, fn)):
                    return frozenset({"fresh"})
                # container method on something rooted (x.copy(), d.get(k), d.values(), ...)
                out = set(self.roots(f, fn.value))
                return frozenset(out)
            return frozenset()
        return frozenset()

    # ---------------------------------------------------------------- fields
    def fields(self, f: Func, e: Optional[ast.AST]) -> FrozenSet[Tuple[str, str]]:
        """(root, field) pairs: protected containers that e may *be*."""
        if e is None:
            return frozenset()
        key = (id(f.node), id(e))
        if key in self._fields_cache:
            return self._fields_cache[key]
        bk = ("f", id(f.node), id(e))
        if bk in self._busy:
            self._cuts += 1
            return frozenset()
        self._busy.add(bk)
        c0 = self._cuts
        try:
            r = self._fields(f, e)
        finally:
            self._busy.discard(bk)
        if self._cuts == c0 or len(self._busy) == 0:
            self._fields_cache[key] = r
        return r

    def map_fields(self, f, call, g, recv, fs) -> FrozenSet[Tuple[str, str]]:
        out: Set[Tuple[str, str]] = set()
        for r, fld in fs:
            for r2 in self.map_roots(f, call, g, recv, frozenset({r})):
                out.add((r2, fld))
        return frozenset(out)

    def _fields(self, f: Func, e: ast.AST) -> FrozenSet[Tuple[str, str]]:
        m = self.model
        if isinstance(e, ast.Name):
            sc, bs = self.scope(f).resolve(e.id)
            if sc is None:
                return frozenset()
            bs = self._flow_bindings(f, e, e.id, sc, bs)
            owner = sc.func
            out: Set[Tuple[str, str]] = set()
            for b in bs:
                if b.kind == "val":
                    out |= self.fields(owner, b.expr)
                elif b.kind == "param" and owner.parent is not None:
                    for caller, call in self._nested_calls.get(owner, []):
                        a = self._actual_for(owner, call, e.id)
                        if a is not None:
                            out |= self.fields(caller, a)
                elif b.kind in ("elem", "elempart") and isinstance(b.expr, ast.Call):
                    fn = b.expr.func
                    if isinstance(fn, ast.Attribute) and fn.attr in ("values", "items"):
                        for r, fld in self.fields(owner, fn.value):
                            if fld == "_nodes_by_data_id" and (b.kind == "elem" or b.index == 1):
                                out.add((r, SLOT))
            return frozenset(out)
        if isinstance(e, ast.Attribute):
            if e.attr in CONTAINER_FIELDS:
                bt = self.types(f, e.value)
                if bt & {NODE, TREE} or not bt:
                    return frozenset((r, e.attr) for r in self.roots(f, e.value))
            # property returning an internal container
            bt = self.types(f, e.value)
            out = set()
            for base, tag in ((NODE_BASE, NODE), (TREE_BASE, TREE)):
                if tag in bt:
                    for cn in m.subclasses(base):
                        g = m.lookup(cn, e.attr)
                        if g is not None and g.kind == "property":
                            for r, fld in self.ret_fields.get(g, frozenset()):
                                if r == "self":
                                    for r2 in self.roots(f, e.value):
                                        out.add((r2, fld))
            return frozenset(out)
        if isinstance(e, ast.Subscript):
            if isinstance(e.slice, ast.Slice):
                return frozenset()
            out = set()
            for r, fld in self.fields(f, e.value):
                if fld == "_nodes_by_data_id":
                    out.add((r, SLOT))
            return frozenset(out)
        if isinstance(e, ast.IfExp):
            return self.fields(f, e.body) | self.fields(f, e.orelse)
        if isinstance(e, ast.BoolOp):
            out = set()
            for v in e.values:
                out |= self.fields(f, v)
            return frozenset(out)
        if isinstance(e, ast.NamedExpr):
            return self.fields(f, e.value)
        if isinstance(e, ast.Call):
            fn = e.func
            if isinstance(fn, ast.Attribute) and fn.attr in ("get", "setdefault", "pop"):
                out = set()
                for r, fld in self.fields(f, fn.value):
                    if fld == "_nodes_by_data_id":
                        out.add((r, SLOT))
                if out:
                    return frozenset(out)
            out = set()
            for g, recv in self.callees(f, e):
                if g.name == "__init__":
                    continue
                out |= self.map_fields(f, e, g, recv, self.ret_fields.get(g, frozenset()))
            return frozenset(out)
        return frozenset()

    # -------------------------------------------------------------- fixpoint
    def _returns_of(self, g: Func) -> List[ast.AST]:
        out = []
        for n in iter_own(g.node, into_lambda=False):
            if isinstance(n, ast.Return) and n.value is not None:
                out.append(n.value)
            elif isinstance(n, (ast.Yield, ast.YieldFrom)) and n.value is not None:
                out.append(n.value)
        return out

    def _fixpoint(self) -> None:
        funcs = [f for f in self.model.all_funcs()]
        for f in funcs:
            self.ret_roots[f] = frozenset()
            self.ret_fields[f] = frozenset()
        for _round in range(8):
            changed = False
            self._roots_cache.clear()
            self._fields_cache.clear()
            self._types_cache.clear()
            for g in funcs:
                rr: Set[str] = set()
                rg: Set[Tuple[str, FrozenSet]] = set()
                rf: Set[Tuple[str, str]] = set()
                for ex in self._returns_of(g):
                    rs = self.roots(g, ex)
                    rr |= rs
                    gs = frozenset(x for x in self.guards_of(ex) if x[0] in g.param_names())
                    if isinstance(ex, ast.Call) and self.callees(g, ex):
                        # keep the callee's isinstance guards through wrappers
                        for h, recv in self.callees(g, ex):
                            if h.name == "__init__":
                                rg.add(("fresh", gs))
                                continue
                            for r, hgs in self.ret_groots.get(h, frozenset()):
                                if hgs and self.guard_infeasible(g, ex, h, recv, hgs):
                                    continue
                                tg = set(gs)
                                for pname, tags in hgs:
                                    if pname in h.param_names():
                                        bound = recv is not None or h.kind == "classmethod"
                                        a = self._actual_for(h, ex, pname, bound=bound)
                                        if isinstance(a, ast.Name) and a.id in g.param_names():
                                            tg.add((a.id, tags))
                                for r2 in self.map_roots(g, ex, h, recv, frozenset({r})):
                                    if r2 != "lambda":
                                        rg.add((r2, frozenset(tg)))
                    else:
                        for r in rs:
                            if r != "lambda":
                                rg.add((r, gs))
                    rf |= self.fields(g, ex)
                rr.discard("lambda")
                if not frozenset(rg) <= self.ret_groots.get(g, frozenset()):
                    changed = True
                self.ret_groots[g] = frozenset(rg) | self.ret_groots.get(g, frozenset())
                if not frozenset(rr) <= self.ret_roots[g]:
                    self.ret_roots[g] = frozenset(rr) | self.ret_roots[g]
                    changed = True
                if frozenset(rf) != self.ret_fields[g]:
                    nf = frozenset(rf) | self.ret_fields[g]
                    if nf != self.ret_fields[g]:
                        self.ret_fields[g] = nf
                        changed = True
            if not changed:
                break
        self._roots_cache.clear()
        self._fields_cache.clear()

    # ----------------------------------------------------------------- stats
    def resolution_stats(self) -> Dict[str, int]:
        st = {"resolved": 0, "weak": 0, "external": 0}
        weak = []
        for f in self.model.all_funcs():
            for c in self.calls_in[f]:
                k = self.classify_call(f, c)
                st[k] += 1
                if k == "weak":
                    weak.append(f"{f.site}: {norm(c.func)}")
        self.weak_sites = sorted(set(weak))
        return st


#: container-protocol method names that must not be resolved by name alone
_GENERIC_METHOD_NAMES = {
    "copy", "format", "get", "add", "update", "remove", "sort", "filter", "find",
    "count", "index", "append", "pop", "keys", "values", "items", "join", "open",
    "load", "save", "print", "visit", "generate", "name", "clear", "extend", "insert",
    "reverse", "write", "read", "bind", "flush", "parent", "children",
}
