"""Resolved-program model of /repo/nutree built from the syntax tree only.

Nothing of the subject is imported or executed.  The model indexes modules,
classes (with MRO over the in-package classes), functions (methods, nested
functions, lambdas are left inside their owner), class-body aliases and
properties, and enumerates call sites.
"""
from __future__ import annotations

import ast
import os
from dataclasses import dataclass, field
from typing import Dict, Iterator, List, Optional, Tuple

PKG = "nutree"


class AnalysisError(Exception):
    """The analysis cannot decide (vanished anchor, unparsable unit, ...)."""


def repo_root() -> str:
    return os.environ.get("NUTREE_REPO", "/repo")


def norm(node: ast.AST) -> str:
    """Normalised text of a construct (position- and layout-independent)."""
    try:
        s = ast.unparse(node)
    except Exception:  # pragma: no cover
        s = ast.dump(node)
    s = " ".join(s.split())
    if len(s) > 160:
        s = s[:157] + "..."
    return s


@dataclass
class Func:
    module: str
    qualname: str
    name: str
    cls: Optional[str]
    node: ast.AST
    parent: Optional["Func"] = None
    nested: List["Func"] = field(default_factory=list)
    decorators: Tuple[str, ...] = ()

    @property
    def kind(self) -> str:
        if self.parent is not None:
            return "nested"
        if self.cls is None:
            return "function"
        if "property" in self.decorators:
            return "property"
        if "classmethod" in self.decorators:
            return "classmethod"
        if "staticmethod" in self.decorators:
            return "staticmethod"
        return "method"

    @property
    def args(self) -> ast.arguments:
        return self.node.args  # type: ignore[attr-defined]

    def param_names(self) -> List[str]:
        a = self.args
        names = [x.arg for x in a.posonlyargs + a.args]
        if a.vararg:
            names.append(a.vararg.arg)
        names += [x.arg for x in a.kwonlyargs]
        if a.kwarg:
            names.append(a.kwarg.arg)
        return names

    def positional_params(self) -> List[str]:
        a = self.args
        return [x.arg for x in a.posonlyargs + a.args]

    def kwonly_params(self) -> List[str]:
        return [x.arg for x in self.args.kwonlyargs]

    def required_params(self) -> List[str]:
        a = self.args
        pos = a.posonlyargs + a.args
        nreq = len(pos) - len(a.defaults)
        req = [x.arg for x in pos[:nreq]]
        for x, d in zip(a.kwonlyargs, a.kw_defaults):
            if d is None:
                req.append(x.arg)
        return req

    def param_annotation(self, name: str) -> Optional[ast.AST]:
        a = self.args
        for x in a.posonlyargs + a.args + a.kwonlyargs:
            if x.arg == name:
                return x.annotation
        return None

    def param_default(self, name: str) -> Optional[ast.AST]:
        a = self.args
        pos = a.posonlyargs + a.args
        nreq = len(pos) - len(a.defaults)
        for i, x in enumerate(pos):
            if x.arg == name:
                return a.defaults[i - nreq] if i >= nreq else None
        for x, d in zip(a.kwonlyargs, a.kw_defaults):
            if x.arg == name:
                return d
        return None

    @property
    def self_name(self) -> Optional[str]:
        """Name of the receiver parameter (self / cls) for methods."""
        f = self
        while f.parent is not None:
            f = f.parent
        if f.cls is None or f.kind == "staticmethod":
            return None
        pos = f.positional_params()
        return pos[0] if pos else None

    @property
    def top(self) -> "Func":
        f = self
        while f.parent is not None:
            f = f.parent
        return f

    @property
    def body(self) -> List[ast.stmt]:
        return self.node.body  # type: ignore[attr-defined]

    @property
    def site(self) -> str:
        return f"{self.module}:{self.qualname}"

    def __hash__(self) -> int:
        return hash((self.module, self.qualname))

    def __eq__(self, other) -> bool:
        return (
            isinstance(other, Func)
            and self.module == other.module
            and self.qualname == other.qualname
        )

    def __repr__(self) -> str:
        return f"<Func {self.site}>"


@dataclass
class Cls:
    module: str
    name: str
    node: ast.ClassDef
    base_names: List[str]
    methods: Dict[str, Func] = field(default_factory=dict)
    aliases: Dict[str, str] = field(default_factory=dict)
    consts: Dict[str, ast.AST] = field(default_factory=dict)
    mro: List[str] = field(default_factory=list)


def _dec_names(node) -> Tuple[str, ...]:
    out = []
    for d in getattr(node, "decorator_list", []):
        if isinstance(d, ast.Name):
            out.append(d.id)
        elif isinstance(d, ast.Attribute):
            out.append(d.attr)
        elif isinstance(d, ast.Call):
            f = d.func
            out.append(f.id if isinstance(f, ast.Name) else getattr(f, "attr", "?"))
    return tuple(out)


def iter_own(node: ast.AST, *, into_lambda: bool = True) -> Iterator[ast.AST]:
    """Walk the nodes of a function body without descending into nested
    function/class definitions (lambdas are walked unless told otherwise)."""
    stack = list(reversed(list(ast.iter_child_nodes(node))))
    while stack:
        n = stack.pop()
        if isinstance(n, (ast.FunctionDef, ast.AsyncFunctionDef, ast.ClassDef)):
            # decorators/defaults belong to the enclosing scope but carry no
            # behaviour we care about
            continue
        if isinstance(n, ast.Lambda) and not into_lambda:
            continue
        yield n
        stack.extend(reversed(list(ast.iter_child_nodes(n))))


class Model:
    def __init__(self, root: Optional[str] = None, extra_sources: Optional[Dict[str, str]] = None, project: bool = False):
        self.extra_sources = extra_sources or {}
        #: projected model (read by the pin rules): new options of reference functions are fixed at their defaults
        self.project = project
        self.new_options: list = []
        self.root = root or repo_root()
        self.pkg_dir = os.path.join(self.root, PKG)
        self.modules: Dict[str, ast.Module] = {}
        self.sources: Dict[str, str] = {}
        self.classes: Dict[str, Cls] = {}
        self.funcs: Dict[str, Func] = {}  # key: qualname for methods/functions "mod:qual"
        self.by_qual: Dict[str, List[Func]] = {}
        self.globals: Dict[str, Dict[str, ast.AST]] = {}
        self._parents: Dict[int, ast.AST] = {}
        self._load()

    # ------------------------------------------------------------------ load
    def _load(self) -> None:
        if not os.path.isdir(self.pkg_dir):
            raise AnalysisError(f"package directory not found: {self.pkg_dir}")
        names = sorted(f for f in os.listdir(self.pkg_dir) if f.endswith(".py"))
        if not names:
            raise AnalysisError("no modules found")
        items = []
        for fn in names:
            path = os.path.join(self.pkg_dir, fn)
            with open(path, encoding="utf8") as fp:
                items.append((fn[:-3], path, fp.read()))
        for mod, src in self.extra_sources.items():
            items.append((mod, f"<synthetic {mod}>", src))
        for mod, path, src in items:
            try:
                tree = ast.parse(src, filename=path)
            except SyntaxError as e:
                raise AnalysisError(f"cannot parse {path}: {e}") from e
            self.modules[mod] = tree
            self.sources[mod] = src
        # every later layer sees the canonical form only (sa/canon.py)
        from . import canon
        from .known_funcs import KNOWN_FUNCS

        try:
            self.new_options = canon.new_option_params(self.modules)
            self.canon_stats = canon.canonicalise(self.modules, set(KNOWN_FUNCS) | {f"{m}:{q}" for m in self.extra_sources for q in ()},
                                                  project=self.project and bool(self.new_options))
        except RecursionError as e:  # pragma: no cover - defensive
            raise AnalysisError(f"canonicalisation failed: {e}") from e
        for tree in self.modules.values():
            for p in ast.walk(tree):
                for c in ast.iter_child_nodes(p):
                    self._parents[id(c)] = p
        for mod, tree in self.modules.items():
            self.globals[mod] = {}
            self._index_body(mod, tree.body, None, None, "")
        self._compute_mro()

    def _add_func(self, f: Func) -> None:
        self.funcs[f"{f.module}:{f.qualname}"] = f
        self.by_qual.setdefault(f.qualname, []).append(f)

    def _index_body(self, mod, body, cls: Optional[Cls], parent: Optional[Func], prefix):
        for st in body:
            if isinstance(st, (ast.FunctionDef, ast.AsyncFunctionDef)):
                self._index_func(mod, st, cls, parent, prefix)
            elif isinstance(st, ast.ClassDef) and parent is None:
                bases = []
                for b in st.bases:
                    if isinstance(b, ast.Name):
                        bases.append(b.id)
                    elif isinstance(b, ast.Attribute):
                        bases.append(b.attr)
                c = Cls(mod, st.name, st, bases)
                self.classes[st.name] = c
                self._index_body(mod, st.body, c, None, st.name + ".")
            elif isinstance(st, (ast.If, ast.Try)) and parent is None:
                # module-level conditional definitions (rdf.py, TYPE_CHECKING)
                if isinstance(st, ast.If):
                    blocks = [st.body, st.orelse]
                else:
                    blocks = [st.body, st.orelse, st.finalbody] + [
                        h.body for h in st.handlers
                    ]
                for b in blocks:
                    self._index_body(mod, b, cls, parent, prefix)
            elif isinstance(st, (ast.Assign, ast.AnnAssign)) and parent is None:
                targets = st.targets if isinstance(st, ast.Assign) else [st.target]
                value = st.value
                for t in targets:
                    if isinstance(t, ast.Name) and value is not None:
                        if cls is not None:
                            if isinstance(value, ast.Name) and value.id in cls.methods:
                                cls.aliases[t.id] = value.id
                            else:
                                cls.consts[t.id] = value
                        else:
                            self.globals[mod][t.id] = value

    def _index_func(self, mod, st, cls: Optional[Cls], parent: Optional[Func], prefix):
        q = prefix + st.name
        f = Func(
            mod,
            q,
            st.name,
            cls.name if cls else (parent.cls if parent else None),
            st,
            parent,
            decorators=_dec_names(st),
        )
        if parent is not None:
            parent.nested.append(f)
        elif cls is not None:
            # property setters etc. would overwrite; the repo has none
            cls.methods[st.name] = f
        self._add_func(f)
        # nested functions (any depth inside statements)
        self._index_nested(mod, st, f, q + ".")

    def _index_nested(self, mod, fnode, owner: Func, prefix):
        def rec(node):
            for ch in ast.iter_child_nodes(node):
                if isinstance(ch, (ast.FunctionDef, ast.AsyncFunctionDef)):
                    self._index_func(mod, ch, None, owner, prefix)
                elif isinstance(ch, ast.ClassDef):
                    continue
                else:
                    rec(ch)

        for st in fnode.body:
            if isinstance(st, (ast.FunctionDef, ast.AsyncFunctionDef)):
                self._index_func(mod, st, None, owner, prefix)
            else:
                rec(st)

    def _compute_mro(self) -> None:
        def mro(name, seen=()):
            c = self.classes.get(name)
            if c is None or name in seen:
                return []
            out = [name]
            for b in c.base_names:
                for x in mro(b, seen + (name,)):
                    if x not in out:
                        out.append(x)
            return out

        for c in self.classes.values():
            c.mro = mro(c.name)

    # --------------------------------------------------------------- queries
    def parent_of(self, node: ast.AST) -> Optional[ast.AST]:
        return self._parents.get(id(node))

    def func(self, qualname: str, *, required: bool = True) -> Optional[Func]:
        """Look up 'Class.method', 'function', 'outer.inner' (unique)."""
        fs = self.by_qual.get(qualname, [])
        if len(fs) == 1:
            return fs[0]
        if not fs:
            # class alias? e.g. Node.add
            if "." in qualname:
                cn, mn = qualname.split(".", 1)
                c = self.classes.get(cn)
                if c and mn in c.aliases:
                    return self.func(f"{cn}.{c.aliases[mn]}", required=required)
            moved = self._relocated(qualname)
            if moved is not None:
                return moved
            if required:
                raise AnalysisError(f"anchor vanished: function {qualname}")
            return None
        # several functions of that name: the anchor is the one the reference tree has (a new helper elsewhere that happens to
        # share the name is not it)
        from .known_funcs import KNOWN_FUNCS as _KF

        known_ = [f_ for f_ in fs if f"{f_.module}:{f_.qualname}" in _KF]
        if len(known_) == 1:
            return known_[0]
        if required:
            raise AnalysisError(f"ambiguous function name {qualname}")
        return None

    def _relocated(self, qualname: str) -> Optional[Func]:
        """A nested anchor `Outer.f._g` that no longer exists: if `Outer.f` still exists and calls exactly one *new* private
        function (not a function of the reference tree), that function is the anchor, moved out of its closure."""
        from .known_funcs import KNOWN_FUNCS

        if qualname.count(".") < 1:
            return None
        parent_q = qualname.rsplit(".", 1)[0]
        ps = self.by_qual.get(parent_q, [])
        if len(ps) != 1:
            return None
        parent = ps[0]
        called = set()
        for n in ast.walk(parent.node):
            if isinstance(n, ast.Call):
                if isinstance(n.func, ast.Attribute):
                    called.add(n.func.attr)
                elif isinstance(n.func, ast.Name):
                    called.add(n.func.id)
        cands = [g for g in self.all_funcs() if g.parent is None and g.name in called and g.name.startswith("_") and not g.name.startswith("__")
                 and f"{g.module}:{g.qualname}" not in KNOWN_FUNCS]
        return cands[0] if len(cands) == 1 else None

    def lookup(self, cls: str, name: str) -> Optional[Func]:
        """Resolve attribute `name` on class `cls` along the MRO."""
        c = self.classes.get(cls)
        if c is None:
            return None
        for k in c.mro:
            kc = self.classes[k]
            if name in kc.methods:
                return kc.methods[name]
            if name in kc.aliases:
                return kc.methods.get(kc.aliases[name])
        return None

    def class_const(self, cls: str, name: str) -> Optional[ast.AST]:
        c = self.classes.get(cls)
        if c is None:
            return None
        for k in c.mro:
            if name in self.classes[k].consts:
                return self.classes[k].consts[name]
        return None

    def subclasses(self, cls: str) -> List[str]:
        return sorted(n for n, c in self.classes.items() if cls in c.mro)

    def is_family(self, cls: Optional[str], base: str) -> bool:
        return bool(cls) and cls in self.classes and base in self.classes[cls].mro

    def runtime_classes_for(self, f: Func) -> List[str]:
        """Classes D <= owner whose MRO still resolves f.name to f."""
        t = f.top
        if t.cls is None:
            return []
        out = []
        for d in self.subclasses(t.cls):
            g = self.lookup(d, t.name)
            if g is t:
                out.append(d)
        return out or [t.cls]

    def all_funcs(self) -> List[Func]:
        return list(self.funcs.values())

    def loc(self, f_or_mod, node: Optional[ast.AST] = None) -> str:
        mod = f_or_mod.module if isinstance(f_or_mod, Func) else f_or_mod
        if node is None and isinstance(f_or_mod, Func):
            node = f_or_mod.node
        ln = getattr(node, "lineno", 0)
        return f"{PKG}/{mod}.py:{ln}"

    def module_of_cls(self, cls: str) -> str:
        return self.classes[cls].module

    def stats(self) -> Dict[str, int]:
        ncalls = 0
        for t in self.modules.values():
            ncalls += sum(isinstance(n, ast.Call) for n in ast.walk(t))
        return {
            "modules": len(self.modules),
            "classes": len(self.classes),
            "functions": len(self.funcs),
            "call_sites": ncalls,
        }

    def forbidden_dynamic(self) -> List[str]:
        """setattr/exec/eval/globals() uses make the effect layer unsound."""
        bad = []
        for mod, t in self.modules.items():
            for n in ast.walk(t):
                if isinstance(n, ast.Call) and isinstance(n.func, ast.Name):
                    if n.func.id in ("setattr", "exec", "eval", "globals", "delattr"):
                        bad.append(f"{PKG}/{mod}.py:{n.lineno} {n.func.id}()")
                if isinstance(n, ast.Attribute) and n.attr in ("__dict__", "__setattr__"):
                    bad.append(f"{PKG}/{mod}.py:{n.lineno} .{n.attr}")
        return bad


def find_calls(node: ast.AST, *, name: Optional[str] = None, attr: Optional[str] = None,
               own: bool = True) -> List[ast.Call]:
    it = iter_own(node) if own else ast.walk(node)
    out = []
    for n in it:
        if not isinstance(n, ast.Call):
            continue
        f = n.func
        if name is not None and isinstance(f, ast.Name) and f.id == name:
            out.append(n)
        elif attr is not None and isinstance(f, ast.Attribute) and f.attr == attr:
            out.append(n)
        elif name is None and attr is None:
            out.append(n)
    return out


def call_kw(call: ast.Call, name: str) -> Optional[ast.AST]:
    for k in call.keywords:
        if k.arg == name:
            return k.value
    return None


def is_const(node: Optional[ast.AST], value) -> bool:
    return isinstance(node, ast.Constant) and node.value is value or (
        isinstance(node, ast.Constant)
        and not isinstance(value, bool)
        and not isinstance(node.value, bool)
        and value is not None
        and node.value == value
        and type(node.value) is type(value)
    )
