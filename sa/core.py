"""Rule framework: obligations, registry, shared analysis context."""
from __future__ import annotations

import ast
import os
from dataclasses import dataclass, field
from typing import Callable, Dict, Iterable, List, Optional, Sequence, Tuple

from .cfg import CFG
from .effects import Effects
from .infer import Env
from .model import AnalysisError, Func, Model, norm


@dataclass
class Ob:
    """One obligation: a rule instance at a construct, discharged or not."""

    rule: str
    props: Tuple[str, ...]
    site: str  # module:qualname (or a table / doc name)
    construct: str  # normalised text identifying the instance (never a line)
    loc: str  # file:line (diagnostic only, not part of the key)
    ok: bool
    detail: str = ""
    path: Optional[List[str]] = None
    note: bool = False  # informational, never a finding
    undecided: bool = False  # the clause's anchor constructs were not recognised on this tree: neither discharged nor violated

    @property
    def key(self) -> str:
        return f"{self.rule}|{self.site}|{self.construct}"

    def to_json(self) -> dict:
        d = {
            "rule": self.rule,
            "site": self.site,
            "construct": self.construct,
            "loc": self.loc,
            "verdict": "discharged" if self.ok else ("note" if self.note else "FINDING"),
        }
        if self.detail:
            d["detail"] = self.detail
        if self.path:
            d["path"] = self.path
        return d


@dataclass
class RuleDef:
    name: str
    props: Tuple[str, ...]
    fn: Callable[["Ctx"], List[Ob]]
    floor: int
    doc: str
    section: str = ""
    soft: bool = False  # three-valued rule: an unrecognised shape makes it UNDECIDED, not an analysis error


RULES: Dict[str, RuleDef] = {}


# Rules that pin down what individual (small) functions compute.  They are three-valued: when the constructs a
# clause reads are not recognised on a changed tree, the clause - or, if the rule cannot even find its anchor shape, the
# whole rule - is UNDECIDED (reported, counted, exit 0), never a violation and never an analysis error.  Structural
# rules (ownership, pairing, guards, ordering, effects, locking, exhaustiveness) are not in this list: for them an
# unrecognised shape is an ANALYSIS-ERROR (exit 2).
SOFT_RULES = {
    "ORDER-TRAV", "SIB-ITER", "EXH-2", "SIB-FILTER", "COPY-LINEAR", "FMT", "RENDER", "SIB-EXPORT", "DIFF", "FS", "GEN", "SEARCH",
    "PARENT-WALK", "KIND-BRANCH", "SORT-GUARD", "EXH-5", "LIMIT", "REGEX-FULL", "RANGE-GUARD", "EXIST-CMP", "DATAID-DEF", "ITER-NORET",
    "FRAME", "STALE-ALIAS",
    # rules that were derived from individual seeded changes and look at one construct each
    "UNIQ-SCOPE", "SLOT-NEW", "REC-FWD", "MOVE-ORDER", "ALIAS-ARG", "PRED-NORM", "GUARD-TREE", "DATA-IS", "CACHE-INVAL", "RET-USED", "ENUM-POS", "COPY-ORDER", "SUPER-KIND", "PRED-TEST", "MEMO-KEY",
}


def rule(name: str, props: Sequence[str], floor: int, section: str = ""):
    def deco(fn):
        RULES[name] = RuleDef(name, tuple(props), fn, floor, (fn.__doc__ or "").strip(), section, name in SOFT_RULES)
        return fn

    return deco


class Ctx:
    def __init__(self, root: Optional[str] = None, tier: str = "quick"):
        self.tier = tier
        self.model = Model(root)
        self.env = Env(self.model)
        self._fx: Optional[Effects] = None
        self._cfgs: Dict[Func, CFG] = {}
        self.root = self.model.root
        self.paths_enumerated = 0
        self._projected: Optional["Ctx"] = None

    def projected(self) -> "Ctx":
        """The context the pin (soft) rules read: the same tree with every *new option* of a reference function fixed at
        its default (sa/canon.py, step P0).  The tree itself when it has no new option."""
        if not self.model.new_options or self.model.project:
            return self
        if getattr(self, "_projected", None) is None:
            c = Ctx.__new__(Ctx)
            c.tier = self.tier
            c.model = Model(self.root, extra_sources=self.model.extra_sources, project=True)
            c.env = Env(c.model)
            c._fx = None
            c._cfgs = {}
            c.root = self.root
            c.paths_enumerated = 0
            c._projected = c
            c.unprojected = self  # a pin rule may look at the unprojected code for a structural clause
            self._projected = c
        return self._projected

    def with_extra(self, sources: Dict[str, str]) -> "Ctx":
        """A context over the same tree plus synthetic modules (positive controls of expected-zero rules)."""
        c = Ctx.__new__(Ctx)
        c.tier = self.tier
        c.model = Model(self.root, extra_sources=sources)
        c.env = Env(c.model)
        c._fx = None
        c._cfgs = {}
        c.root = self.root
        c.paths_enumerated = 0
        c._projected = None
        return c

    @property
    def fx(self) -> Effects:
        if self._fx is None:
            self._fx = Effects(self.env)
        return self._fx

    def cfg(self, f: Func) -> CFG:
        if f not in self._cfgs:
            self._cfgs[f] = CFG(f.node)
        return self._cfgs[f]

    def func(self, q: str) -> Func:
        return self.model.func(q)

    def reaching_values(self, f: Func, use: ast.AST, name: str) -> Optional[List[ast.AST]]:
        """Value expressions of the assignments to local `name` that reach the
        statement containing `use` (None if it cannot be determined, e.g. the
        name is a parameter reaching unassigned, or bound by a loop)."""
        cfg = self.cfg(f)
        at = cfg.stmt_node_of(use, self.model.parent_of)
        if at is None:
            return None
        vals: List[ast.AST] = []
        defs = cfg.reaching_assignments(at, name)
        # does the function entry reach `at` without a binding?  (parameter / undefined)
        r = cfg.reachable([cfg.entry], avoid=lambda n: n is not at and _binds_name(n, name),
                          may_raise=lambda n: True)
        if at.id in r and name in f.param_names():
            return None
        for d in defs:
            a = d.ast
            if d.kind == "stmt" and isinstance(a, ast.Assign) and any(isinstance(t, ast.Name) and t.id == name for t in a.targets):
                vals.append(a.value)
            elif d.kind == "stmt" and isinstance(a, ast.AnnAssign) and a.value is not None:
                vals.append(a.value)
            else:
                return None
        return vals

    def _home_site(self, f: Func) -> str:
        """The site a finding in f is filed under.  A *new* private helper (not a function of the reference tree) that
        could not be inlined - a recursive worker, say - is filed under the one reference function it is reached from,
        so that extracting it does not rename the findings (and known findings) of that function."""
        from .known_funcs import KNOWN_FUNCS

        top = f.top
        if f"{top.module}:{top.qualname}" in KNOWN_FUNCS or not top.name.startswith("_") or (top.name.startswith("__") and top.name.endswith("__")):
            return f.site
        cache = self.__dict__.setdefault("_home_cache", {})
        if top in cache:
            return cache[top]
        rev = self.__dict__.get("_callers_rev")
        if rev is None:
            rev = {}
            for g in self.model.all_funcs():
                for c in self.env.calls_in[g]:
                    for h, _r in self.env.callees(g, c):
                        rev.setdefault(h.top, set()).add(g.top)
            self.__dict__["_callers_rev"] = rev
        seen, frontier, homes = {top}, [top], set()
        while frontier:
            g = frontier.pop()
            for h in rev.get(g, ()):
                if h in seen:
                    continue
                seen.add(h)
                if f"{h.module}:{h.qualname}" in KNOWN_FUNCS:
                    homes.add(h)
                else:
                    frontier.append(h)
        site = next(iter(homes)).site if len(homes) == 1 else f.site
        cache[top] = site
        return site

    def ob(self, rule: str, props, f_or_site, construct, node=None, ok=True, detail="", path=None,
           note=False) -> Ob:
        if isinstance(f_or_site, Func):
            site = self._home_site(f_or_site)
            loc = self.model.loc(f_or_site, node if node is not None else f_or_site.node)
        else:
            site = str(f_or_site)
            loc = site
            if node is not None and hasattr(node, "lineno"):
                loc = f"{site}:{node.lineno}"
        if not isinstance(construct, str):
            construct = norm(construct)
        return Ob(rule, tuple(props), site, construct, loc, ok, detail, path, note)

    def tri(self, rule: str, props, f_or_site, construct, node=None, ok: Optional[bool] = True, detail="", path=None) -> Ob:
        """Three-valued obligation: True discharged, False violated (a recognised
        shape with a wrong slot), None undecided (the shape this clause reads was
        not recognised: reported as a note, never as a violation)."""
        if ok is None:
            o = self.ob(rule, props, f_or_site, construct, node, False, "UNDECIDED: " + (detail or "shape not recognised"), path, note=True)
            o.undecided = True
            return o
        return self.ob(rule, props, f_or_site, construct, node, bool(ok), "" if ok else detail, path)

    def guarded(self, obs: list, rule: str, props, f_or_site, label: str, fn) -> None:
        """Run one block of a (three-valued) rule; if the block cannot find the shape it reads
        (AnalysisError), the block's clauses are reported as one UNDECIDED obligation instead of
        failing the whole rule."""
        try:
            fn()
        except AnalysisError as e:
            obs.append(self.tri(rule, props, f_or_site, label, None, None, str(e)))

    def doc_text(self, name: str) -> str:
        p = os.path.join(self.root, "docs", "sphinx", name)
        try:
            with open(p, encoding="utf8") as fp:
                return fp.read()
        except OSError as e:
            raise AnalysisError(f"documentation oracle missing: {p}") from e


def _binds_name(n, name: str) -> bool:
    from .cfg import _binds

    return _binds(n, name)


def run_rule(ctx: Ctx, rd: RuleDef) -> List[Ob]:
    if rd.soft:
        ctx = ctx.projected()
    try:
        obs = rd.fn(ctx)
    except AnalysisError as e:
        if rd.soft and "vanished" not in str(e) and "not found in" not in str(e):
            return [ctx.tri(rd.name, rd.props, "package", f"{rd.name}: " + rd.doc.split(";")[0][:120], None, None, str(e))]
        raise
    except RecursionError:
        raise
    except Exception as e:  # noqa: BLE001 - a rule that trips over an unexpected shape cannot decide
        import traceback

        tb = traceback.extract_tb(e.__traceback__)
        where = f"{tb[-1].filename.split('/')[-1]}:{tb[-1].lineno}" if tb else "?"
        if rd.soft:
            # a pin rule that trips over a shape it does not know cannot decide (the thorough tier fails on an
            # undecided clause on the reference tree, so a defect of the rule itself does not hide here)
            return [ctx.tri(rd.name, rd.props, "package", f"{rd.name}: " + rd.doc.split(";")[0][:120], None, None,
                            f"could not analyse this shape ({type(e).__name__}: {e} at {where})")]
        raise AnalysisError(f"rule {rd.name} could not analyse this shape ({type(e).__name__}: {e} at {where})") from e
    # an obligation is only ever looked at by the checks of the properties its rule is registered for: one that carries
    # another property would silently never be decided for it
    stray = sorted({p_ for o in obs for p_ in o.props} - set(rd.props))
    if stray:
        raise AnalysisError(f"rule {rd.name} emits obligations for {stray} but is not registered for them (checker defect)")
    n = sum(1 for o in obs if not o.note or o.undecided)
    if n < rd.floor and rd.soft:
        if not any(o.undecided for o in obs):
            obs.append(ctx.tri(rd.name, rd.props, "package", f"{rd.name}: the constructs this rule reads", None, None,
                               f"{n} instances recognised, {rd.floor} on the reference tree: some construct this rule reads was reshaped"))
        return obs
    if n < rd.floor:
        raise AnalysisError(
            f"rule {rd.name}: {n} instances matched, below the hand-confirmed floor {rd.floor} "
            "(a rule matching too few sites would pass vacuously)"
        )
    return obs
