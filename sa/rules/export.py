"""Graph exports (C17), pretty printing (C16), diff (C11)."""
from __future__ import annotations

import ast
from typing import Dict, List, Optional, Set, Tuple

from ..core import Ctx, Ob, rule
from ..model import AnalysisError, Func, iter_own, norm
from .trav import _if_chain


def _loops_over(f: Func, name: str) -> List[ast.For]:
    return [n for n in iter_own(f.node) if isinstance(n, ast.For) and isinstance(n.iter, ast.Name) and n.iter.id == name]


def _key_func(ctx: Ctx, f: Func) -> Optional[Func]:
    for g in f.nested:
        rets = [n for n in iter_own(g.node) if isinstance(n, ast.Return) and isinstance(n.value, ast.IfExp)]
        if len(rets) == 1 and norm(rets[0].value.test) == "unique_nodes":
            return g
    return None


@rule("SIB-EXPORT", ["C17"], floor=20, section="3.7")
def sib_export(ctx: Ctx) -> List[Ob]:
    """DOT and Mermaid exporters agree: node loop and edge loop range over the same iteration, keys come from one key function (data_id iff unique_nodes), the edge loop skips exactly the edges leaving an excluded root and emits one edge per node; RDF adds one has_child triple per child with a parent"""
    obs: List[Ob] = []
    m = ctx.model
    specs = [("node_to_dot", "add_self"), ("_node_to_mermaid_flowchart_iter", "add_root")]
    for q, flag in specs:
        f = m.func(q)
        kf = _key_func(ctx, f)
        ok = kf is not None
        if ok:
            r = [n for n in iter_own(kf.node) if isinstance(n, ast.Return)][0].value
            p = kf.positional_params()[0]
            ok = norm(r.body) == f"{p}._data_id" and norm(r.orelse) == f"{p}._node_id"
        obs.append(ctx.ob("SIB-EXPORT", ["C17"], f, f"{q}: key(n) = n._data_id if unique_nodes else n._node_id", None, ok,
                          "" if ok else "one graph node per distinct data_id, or per tree node when unique_nodes is off"))
        kname = kf.name if kf else "?"
        loops = _loops_over(f, "node")
        ok = len(loops) == 2
        obs.append(ctx.ob("SIB-EXPORT", ["C17"], f, f"{q}: node loop and edge loop both iterate `node` (same pre-order walk)", None, ok,
                          "" if ok else f"{len(loops)} loops over the start node"))
        if len(loops) != 2:
            continue
        nl, el = loops
        # node loop: de-dup by key with continue, one yield
        ys = [x for st in nl.body for x in ast.walk(st) if isinstance(x, ast.Yield)]
        conts = [x for st in nl.body for x in ast.walk(st) if isinstance(x, ast.Continue)]
        ok = len(ys) == 1 and len(conts) == 1
        if ok:
            cp = m.parent_of(conts[0])
            ok = isinstance(cp, ast.If) and isinstance(cp.test, ast.Compare) and isinstance(cp.test.ops[0], ast.In) and norm(cp.test.left) == "key"
            seen = norm(cp.test.comparators[0]) if ok else "?"
            # the key is recorded after the membership test
            rec = [x for st in nl.body for x in ast.walk(st)
                   if (isinstance(x, ast.Call) and norm(x.func) == f"{seen}.add" and norm(x.args[0]) == "key")
                   or (isinstance(x, ast.Assign) and norm(x.targets[0]) == f"{seen}[key]")]
            ok = ok and len(rec) == 1
        obs.append(ctx.ob("SIB-EXPORT", ["C17"], f, f"{q}: node loop defines each key once (skip when seen, record when new)", nl, ok,
                          "" if ok else "clones must share one graph node when unique_nodes is on, and every other node must be defined"))
        # edge loop
        first = el.body[0]
        ok = isinstance(first, ast.If) and norm(first.test) == f"not {flag} and n._parent is node" and len(first.body) == 1 and isinstance(first.body[0], ast.Continue)
        obs.append(ctx.ob("SIB-EXPORT", ["C17"], f, f"{q}: the edge loop skips exactly `not {flag} and n._parent is node`", el, ok,
                          "" if ok else "excluding the root omits the root node and the edges leaving it and nothing else"))
        conts = [x for st in el.body for x in ast.walk(st) if isinstance(x, (ast.Continue, ast.Break))]
        ys = [x for st in el.body for x in ast.walk(st) if isinstance(x, ast.Yield)]
        ok = len(conts) == 1 and len(ys) == 1
        obs.append(ctx.ob("SIB-EXPORT", ["C17"], f, f"{q}: exactly one edge statement per remaining node", el, ok,
                          "" if ok else f"{len(ys)} yields / {len(conts)} skips in the edge loop"))
        body_txt = " | ".join(norm(st) for st in el.body)
        ok = f"{kname}(n._parent)" in body_txt and f"{kname}(n)" in body_txt
        obs.append(ctx.ob("SIB-EXPORT", ["C17"], f, f"{q}: an edge runs from key(n._parent) to key(n)", el, ok,
                          "" if ok else "the edge must connect the parent's key to the child's key"))
        # root emission under the flag, before the loops
        roots = [n for n in f.body if isinstance(n, ast.If) and norm(n.test) == flag and any(isinstance(x, ast.Yield) for st in n.body for x in ast.walk(st))]
        ok = len(roots) == 1 and roots[0].lineno < nl.lineno
        obs.append(ctx.ob("SIB-EXPORT", ["C17"], f, f"{q}: the root node is defined iff {flag}", None, ok, "" if ok else "root definition must follow the flag"))
    # dot: node key in the node loop equals the key function's choice
    f = m.func("node_to_dot")
    nl = _loops_over(f, "node")[0] if _loops_over(f, "node") else None
    if nl is not None:
        first = nl.body[0]
        ok = isinstance(first, ast.If) and norm(first.test) == "unique_nodes" and norm(first.body[0]) == "key = n._data_id" \
            and first.orelse and norm(first.orelse[0]) == "key = n._node_id"
        obs.append(ctx.ob("SIB-EXPORT", ["C17"], f, "node_to_dot: the node loop's key agrees with the key function", nl, ok,
                          "" if ok else "node definitions and edge endpoints must use the same key"))
        lab = [st for st in nl.body if isinstance(st, ast.Assign) and norm(st.targets[0]) == "attr_def"]
        ok = len(lab) == 1 and norm(lab[0].value) == "{'label': n.name}"
        obs.append(ctx.ob("SIB-EXPORT", ["C17"], f, "node_to_dot: node definitions carry the node's name as label", nl, ok, "" if ok else "exports carry the child's name"))
    # mermaid: index table
    f = m.func("_node_to_mermaid_flowchart_iter")
    lps = _loops_over(f, "node")
    if len(lps) == 2:
        nl, el = lps
        t = " | ".join(norm(st) for st in nl.body)
        ok = "id_to_idx[key] = idx" in t and "idx += 1" in t and "key = _id(n)" in t
        obs.append(ctx.ob("SIB-EXPORT", ["C17"], f, "mermaid: every new key gets the next index", nl, ok, "" if ok else "node numbering broken"))
        t = " | ".join(norm(st) for st in el.body)
        ok = "parent_idx = id_to_idx[parent_key]" in t and "idx = id_to_idx[key]" in t and "edge_mapper(parent_idx, n._parent, idx, n)" in t
        obs.append(ctx.ob("SIB-EXPORT", ["C17"], f, "mermaid: edges are looked up through the same index table", el, ok, "" if ok else "edge endpoints must be the indices of the defined nodes"))
        rt = [st for st in ast.walk(f.node) if isinstance(st, ast.Assign) and norm(st.targets[0]) == "id_to_idx[_id(node)]"]
        ok = len(rt) == 1 and norm(rt[0].value) == "0"
        obs.append(ctx.ob("SIB-EXPORT", ["C17"], f, "mermaid: the root is node 0", None, ok, ""))
    # default typed edge template
    em = [g for g in f.nested if g.name == "edge_mapper" and any("kind" in norm(x) for x in iter_own(g.node))]
    ok = False
    if em:
        t = " | ".join(norm(st) for st in em[0].body)
        ok = "kind = getattr(to_node, 'kind', None)" in t and "DEFAULT_EDGE_TEMPLATE_TYPED if kind else DEFAULT_EDGE_TEMPLATE" in t
    obs.append(ctx.ob("SIB-EXPORT", ["C17"], f, "mermaid: the default edge is labelled with the child's kind iff it has one", None, ok, "" if ok else "typed trees label edges with the child's kind"))
    # TypedNode.to_dot edge labels
    f = m.func("TypedNode.to_dot")
    em = [g for g in f.nested if "label" in " ".join(norm(x) for x in g.body)]
    ok = False
    if em:
        g = em[0]
        p0, p1 = g.positional_params()[:2]
        t = " | ".join(norm(st) for st in g.body)
        ok = f"{p1}['label'] = {p0}.kind" in t and "edge_mapper" in t
        calls = [c for c in ctx.env.calls_in[f] if any(k.arg == "edge_mapper" and norm(k.value) == g.name for k in c.keywords)]
        ok = ok and len(calls) == 1
    obs.append(ctx.ob("SIB-EXPORT", ["C17"], f, "typed DOT export labels every edge with the child's kind and still calls the user's edge mapper", None, ok,
                      "" if ok else "typed edge labels lost"))
    # RDF
    f = m.func("_add_child_node")
    hc = [c for c in ast.walk(f.node) if isinstance(c, ast.Call) and norm(c.func) == "graph.add" and "has_child" in norm(c)]
    ok = len(hc) == 1 and norm(hc[0].args[0]) == "(parent_graph_node, NUTREE_NS.has_child, graph_node)"
    p = m.parent_of(m.parent_of(hc[0])) if hc else None
    ok = ok and isinstance(p, ast.If) and "parent_graph_node" in norm(p.test)
    obs.append(ctx.ob("SIB-EXPORT", ["C17"], f, "rdf: one has_child triple parent -> child, iff there is a parent graph node", None, ok, "" if ok else "edge triple missing or misdirected"))
    kd = [c for c in ast.walk(f.node) if isinstance(c, ast.Call) and norm(c.func) == "graph.add" and "NUTREE_NS.kind" in norm(c)]
    ok = len(kd) == 1 and isinstance(m.parent_of(m.parent_of(kd[0])), ast.If) and "hasattr(tree_node, 'kind')" in norm(m.parent_of(m.parent_of(kd[0])).test) \
        and "Literal(tree_node.kind)" in norm(kd[0])
    obs.append(ctx.ob("SIB-EXPORT", ["C17"], f, "rdf: typed nodes get a kind triple", None, ok, "" if ok else "kind must be exported for typed trees"))
    nm = [c for c in ast.walk(f.node) if isinstance(c, ast.Call) and norm(c.func) == "graph.add" and "NUTREE_NS.name" in norm(c)]
    ok = len(nm) == 1 and "Literal(tree_node.name)" in norm(nm[0])
    obs.append(ctx.ob("SIB-EXPORT", ["C17"], f, "rdf: every node gets a name triple", None, ok, ""))
    gn = [st for st in f.body if isinstance(st, ast.Assign) and norm(st.targets[0]) == "graph_node"]
    ok = len(gn) == 1 and norm(gn[0].value) == "Literal(tree_node.data_id)"
    obs.append(ctx.ob("SIB-EXPORT", ["C17"], f, "rdf: graph nodes are keyed by data_id", None, ok, ""))
    f = m.func("_add_child_nodes")
    lps = [n for n in iter_own(f.node) if isinstance(n, ast.For)]
    ok = len(lps) == 1 and norm(lps[0].iter) in ("enumerate(tree_node._children or ())", "enumerate(tree_node.children)")
    if ok:
        lp = lps[0]
        calls = [c for c in ast.walk(lp) if isinstance(c, ast.Call) and norm(c.func) == "_add_child_node"]
        recs = [c for c in ast.walk(lp) if isinstance(c, ast.Call) and norm(c.func) == "_add_child_nodes"]
        ok = len(calls) == 1 and len(recs) == 1
        if ok:
            kw = {k.arg: norm(k.value) for k in calls[0].keywords}
            cv = norm(lp.target.elts[1])
            ok = kw.get("parent_graph_node") == "graph_node" and kw.get("tree_node") == cv and kw.get("index") == norm(lp.target.elts[0])
            tgt = [st for st in lp.body if isinstance(st, ast.Assign) and st.value is calls[0]]
            ok = ok and len(tgt) == 1 and [norm(a) for a in recs[0].args][:3] == ["graph", norm(tgt[0].targets[0]), cv]
    obs.append(ctx.ob("SIB-EXPORT", ["C17"], f, "rdf: each child is added below this node's graph node and recursed into once", None, ok, "" if ok else "edges must follow the tree's parent-child relation"))
    return obs


# ------------------------------------------------------------------- C16
@rule("RENDER", ["C16"], floor=15, section="3.8")
def render(ctx: Ctx) -> List[Ob]:
    """pretty printing: the style table is well-formed (4/6 string segments of consistent width), _get_prefix picks one indent segment per ancestor by identity-last and one connector by (last, has children), lines are yielded once per node of the default walk, the render path calls no kind-sensitive override, title plumbing of Tree.format_iter"""
    obs: List[Ob] = []
    m = ctx.model
    conn = m.globals["common"].get("CONNECTORS")
    try:
        table = ast.literal_eval(conn)
    except Exception as e:
        raise AnalysisError("CONNECTORS is not a literal table") from e
    if len(table) < 20:
        raise AnalysisError("CONNECTORS has fewer than 20 styles")
    for name, segs in sorted(table.items()):
        ok = isinstance(segs, tuple) and len(segs) in (4, 6) and all(isinstance(s, str) for s in segs)
        why = "" if ok else "a style is a tuple of 4 or 6 strings"
        if ok:
            if len(segs[0]) != len(segs[1]):
                ok, why = False, "indent segments s0/s1 differ in width: the depth cannot be decoded from the prefix"
            elif len({len(s) for s in segs[2:]}) != 1:
                ok, why = False, "connector segments differ in width"
            elif len(segs) == 6 and (segs[2] == segs[4] or segs[3] == segs[5]):
                ok, why = False, "compact style does not distinguish nodes with children"
        obs.append(ctx.ob("RENDER", ["C16"], "common:CONNECTORS", f"style '{name}' is well-formed", None, ok, why))
    f = m.func("Node._get_prefix")
    ifs = [n for n in f.body if isinstance(n, ast.If) and "len(style)" in norm(n.test)]
    ok = False
    if ifs:
        ch = _if_chain(ifs[0])
        tests = [norm(t) if t is not None else "else" for t, _ in ch]
        ok = tests == ["len(style) == 4", "len(style) == 6", "else"] and isinstance(ch[2][1][-1], ast.Raise) and "ValueError" in norm(ch[2][1][-1])
        b4 = " | ".join(norm(s) for s in ch[0][1])
        ok = ok and "s0, s1, s2, s3 = style" in b4 and "s4 = s2" in b4 and "s5 = s3" in b4
        ok = ok and "s0, s1, s2, s3, s4, s5 = style" in " | ".join(norm(s) for s in ch[1][1])
    obs.append(ctx.ob("RENDER", ["C16"], f, "_get_prefix accepts 4- and 6-segment styles (4: s4=s2, s5=s3) and rejects others", None, ok, "" if ok else "custom 4- and 6-tuples must work in every style"))
    il = [g for g in f.nested if g.name == "_is_last"]
    ok = False
    if il:
        p = il[0].positional_params()[0]
        r = [n for n in iter_own(il[0].node) if isinstance(n, ast.Return)]
        ok = len(r) == 1 and norm(r[0].value) == f"{p} is {p}._parent._children[-1]"
    obs.append(ctx.ob("RENDER", ["C16"], f, "_is_last: identity comparison with the parent's last child (not a kind-aware override)", None, ok,
                      "" if ok else "is-last must refer to the full sibling list, by identity"))
    lps = [n for n in iter_own(f.node) if isinstance(n, ast.For)]
    ok = len(lps) == 1 and norm(lps[0].iter) == "self.get_parent_list()"
    if ok:
        lp = lps[0]
        t = [norm(s) for s in lp.body]
        ok = t[0] == "depth += 1" and isinstance(lp.body[1], ast.If) and norm(lp.body[1].test) == "depth <= lstrip" and isinstance(lp.body[1].body[0], ast.Continue)
        last = lp.body[-1]
        ok = ok and isinstance(last, ast.If) and norm(last.test) == f"_is_last({norm(lp.target)})" and norm(last.body[0]) == "parts.append(s0)" and norm(last.orelse[0]) == "parts.append(s1)"
    obs.append(ctx.ob("RENDER", ["C16"], f, "one indent segment per ancestor beyond lstrip: s0 below a last sibling, s1 otherwise", None, ok,
                      "" if ok else "the prefix must encode for every ancestor whether it is a last sibling"))
    own = [n for n in f.body if isinstance(n, ast.If) and norm(n.test) == "depth >= lstrip"]
    ok = False
    if own:
        inner = [n for n in own[0].body if isinstance(n, ast.If)]
        if len(inner) == 1 and norm(inner[0].test) == "self._children":
            def pick(branch):
                st = branch[0]
                return (norm(st.test), norm(st.body[0]), norm(st.orelse[0])) if isinstance(st, ast.If) and st.orelse else None
            ok = pick(inner[0].body) == ("_is_last(self)", "parts.append(s4)", "parts.append(s5)") and \
                pick(inner[0].orelse) == ("_is_last(self)", "parts.append(s2)", "parts.append(s3)")
    obs.append(ctx.ob("RENDER", ["C16"], f, "own connector: (has children, last) -> s4/s5, (leaf, last) -> s2/s3", None, ok,
                      "" if ok else "the connector must encode is-last and (compact styles) has-children"))
    rl = m.func("Node._render_lines")
    lps = [n for n in iter_own(rl.node) if isinstance(n, ast.For)]
    ok = len(lps) == 1 and norm(lps[0].iter) == "self.iterator(add_self=add_self)"
    if ok:
        ys = [x for st in lps[0].body for x in ast.walk(st) if isinstance(x, ast.Yield)]
        ok = len(ys) == 1 and norm(ys[0].value) == "prefix + s" and not any(isinstance(x, (ast.Continue, ast.Break)) for st in lps[0].body for x in ast.walk(st))
        pf = [st for st in lps[0].body if isinstance(st, ast.Assign) and norm(st.targets[0]) == "prefix"]
        ok = ok and len(pf) == 1 and norm(pf[0].value) == f"{norm(lps[0].target)}._get_prefix(style, lstrip)"
    obs.append(ctx.ob("RENDER", ["C16"], rl, "_render_lines yields prefix + rendering exactly once per node of the default (pre-order) walk", None, ok, "" if ok else "one line per node, in pre-order"))
    t = " | ".join(norm(s) for s in rl.body)
    ok = "lstrip = self.depth()" in t and "if not add_self: lstrip += 1" in t.replace("\n", " ") and "if not self._parent: add_self = False" in t.replace("\n", " ")
    obs.append(ctx.ob("RENDER", ["C16"], rl, "left-strip: own depth (+1 without add_self); the system root is never rendered", None, ok, "" if ok else "branches must be rendered relative to the start node"))
    fi = m.func("Node.format_iter")
    lst = [n for n in fi.body if isinstance(n, ast.If) and norm(n.test) == "style == 'list'"]
    ok = len(lst) == 1
    if ok:
        lps = [n for n in lst[0].body if isinstance(n, ast.For)]
        ok = len(lps) == 1 and norm(lps[0].iter) == "self.iterator(add_self=add_self)" and sum(isinstance(x, ast.Yield) for st in lps[0].body for x in ast.walk(st)) == 2 \
            and isinstance(lst[0].body[-1], ast.Return)
    obs.append(ctx.ob("RENDER", ["C16"], fi, "list style emits the renderings only, once per node", None, ok, "" if ok else "style='list' has no prefixes"))
    # render path calls no kind-sensitive override
    seen: Set[Func] = set()
    stack = [m.func("Node._render_lines"), m.func("Node._get_prefix")]
    offenders = []
    while stack:
        g = stack.pop()
        if g in seen:
            continue
        seen.add(g)
        for c in ctx.env.calls_in[g]:
            for h, _ in ctx.env.callees(g, c):
                if h.cls and h.cls.startswith("Typed") and ({"kind", "any_kind"} & set(h.param_names())):
                    offenders.append((g, c, h))
                if h.module in ("node", "typed_tree") and h.name in ("get_parent_list", "depth", "calc_depth", "iterator", "_iter_pre"):
                    stack.append(h)
        stack.extend(g.nested)
    obs.append(ctx.ob("RENDER", ["C16"], "node:Node._get_prefix", "the prefix computation calls no kind-sensitive method of TypedNode", None, not offenders,
                      "" if not offenders else f"{offenders[0][0].qualname} calls {norm(offenders[0][1])} -> {offenders[0][2].qualname}: in a typed tree "
                      "is-last/first would be judged per kind and the connectors would lie about the shape"))
    # Tree.format_iter title plumbing
    tf = m.func("Tree.format_iter")
    t = [norm(s) for s in tf.body]
    ok = any(s.startswith("if title is None:") and "title = False if style == 'list' else True" in s for s in t)
    ok = ok and any(s.startswith("if title:") and "f'{self}' if title is True else f'{title}'" in s for s in t)
    ok = ok and "has_title = title is not False" in t and any("self._root.format_iter(repr=repr, style=style, add_self=has_title)" in s for s in t)
    obs.append(ctx.ob("RENDER", ["C16"], tf, "Tree.format_iter: title line first iff title is set; root walk with add_self = (title is not False)", None, ok,
                      "" if ok else "title default/False/text must keep the prefixes consistent"))
    fm = m.func("Node.format")
    ok = any(isinstance(n, ast.Return) and norm(n.value) == "join.join(iter_lines)" for n in fm.body)
    obs.append(ctx.ob("RENDER", ["C16"], fm, "format joins the lines with the caller's join string", None, ok, ""))
    return obs


# ------------------------------------------------------------------- C11
@rule("DIFF", ["C11"], floor=12, section="3.13")
def diff(ctx: Ctx) -> List[Ob]:
    """diff: every classification is written and formatted, REMOVED is set on copies of first-tree children and ADDED on copies of second-tree children, moves only re-label members of those sets, reduce filters on the same meta key, order marks only under `ordered`"""
    obs: List[Ob] = []
    m = ctx.model
    env = ctx.env
    dc = {k for k in m.classes["DiffClassification"].consts}
    f = m.func("diff_tree")
    fm = m.func("diff_node_formatter")
    written = {}
    for g in [f] + list(f.nested) + [m.func("_copy_children")]:
        for c in env.calls_in[g]:
            if isinstance(c.func, ast.Attribute) and c.func.attr == "set_meta" and c.args and norm(c.args[0]) == "'dc'" and len(c.args) > 1:
                v = norm(c.args[1])
                if v.startswith("DC.") or v.startswith("DiffClassification."):
                    written.setdefault(v.split(".", 1)[1], []).append((g, c))
        for n in ast.walk(g.node):
            if isinstance(n, ast.Tuple) and len(n.elts) == 2 and norm(n.elts[0]) == "'dc'" and norm(n.elts[1]).startswith("DC."):
                written.setdefault(norm(n.elts[1]).split(".", 1)[1], []).append((g, n))
    handled = {norm(n.comparators[0]).split(".", 1)[1] for n in iter_own(fm.node)
               if isinstance(n, ast.Compare) and norm(n.left) == "dc" and norm(n.comparators[0]).startswith("DC.")}
    for member in sorted(dc):
        ok = member in written
        obs.append(ctx.ob("DIFF", ["C11"], f, f"DiffClassification.{member} is assigned by diff_tree", None, ok, "" if ok else "a classification that is never set"))
        ok = member in handled
        obs.append(ctx.ob("DIFF", ["C11"], fm, f"DiffClassification.{member} is rendered by diff_node_formatter", None, ok, "" if ok else "unhandled mark"))
    cmp_ = [g for g in f.nested if g.name == "compare"]
    if not cmp_:
        raise AnalysisError("diff_tree.compare not found")
    cmp_ = cmp_[0]
    call = [c for c in env.calls_in[f] if isinstance(c.func, ast.Name) and c.func.id == "compare"]
    ok = len(call) == 1 and [norm(a) for a in call[0].args] == ["t0._root", "t1._root", "t2._root"]
    obs.append(ctx.ob("DIFF", ["C11"], f, "compare(t0 root, t1 root, result root)", None, ok, "" if ok else "argument order decides which side is 'removed' and which 'added'"))
    p0, p1, p2 = cmp_.positional_params()[:3]
    # provenance of the marks
    for member, src in (("REMOVED", p0), ("ADDED", p1)):
        sites = [(g, c) for g, c in written.get(member, []) if g is cmp_ and isinstance(c, ast.Call)]
        ok = bool(sites)
        for g, c in sites:
            recv = c.func.value
            vals = env.reaching(g, c, recv.id)[0] if isinstance(recv, ast.Name) and env.reaching(g, c, recv.id) else []
            good = False
            for v in vals:
                if isinstance(v, ast.Call) and isinstance(v.func, ast.Attribute) and v.func.attr in ("add", "add_child", "append_child") \
                        and norm(v.func.value) == p2 and v.args and isinstance(v.args[0], ast.Name):
                    # the copied node comes from a loop over <src>.children
                    a = v.args[0].id
                    for b in env.scope(g).resolve(a)[1]:
                        if b.kind in ("elem", "elempart") and f"{src}.children" in norm(b.expr):
                            good = True
            ok = ok and good
        obs.append(ctx.ob("DIFF", ["C11"], cmp_, f"DC.{member} marks copies of children of the {'first' if src == p0 else 'second'} tree's node", None, ok,
                          "" if ok else f"the mark must sit on result nodes copied from `{src}.children`"))
    # one-sided children by data_id
    t = " | ".join(norm(s) for s in cmp_.body)
    lp1 = [n for n in iter_own(cmp_.node) if isinstance(n, ast.For) and norm(n.iter) == f"{p1}.children"]
    ok = len(lp1) == 1 and isinstance(lp1[0].body[0], ast.If) and norm(lp1[0].body[0].test) == f"{norm(lp1[0].target)}._data_id not in p0_data_ids"
    ids = [c for c in ast.walk(cmp_.node) if isinstance(c, ast.Call) and norm(c.func) == "p0_data_ids.add"]
    ok = ok and len(ids) == 1 and norm(ids[0].args[0]).endswith("._data_id")
    obs.append(ctx.ob("DIFF", ["C11"], cmp_, "children only in the second node are found by data_id against the first node's children", None, ok, "" if ok else "added children are those whose data_id the first side lacks"))
    # removed: not found in p1
    fc = [c for c in ast.walk(cmp_.node) if isinstance(c, ast.Call) and norm(c.func) == "_find_child"]
    ok = len(fc) == 1 and norm(fc[0].args[0]) == f"{p1}.children"
    obs.append(ctx.ob("DIFF", ["C11"], cmp_, "peers of first-tree children are searched among the second node's children", None, ok, ""))
    # order marks only under `ordered`
    om = [c for c in ast.walk(cmp_.node) if isinstance(c, ast.Call) and isinstance(c.func, ast.Attribute) and c.func.attr == "set_meta"
          and len(c.args) > 1 and isinstance(c.args[1], ast.Tuple)]
    ok = len(om) == 1 and norm(om[0].args[1]) == "(i0, i1)"
    if ok:
        p = m.parent_of(m.parent_of(om[0]))
        ok = isinstance(p, ast.If) and norm(p.test) == "ordered"
    obs.append(ctx.ob("DIFF", ["C11"], cmp_, "order marks carry (old index, new index) and are written only when ordered=True", None, ok, "" if ok else "order marks carry the true old and new index"))
    # move re-classification
    lps = [n for n in iter_own(f.node) if isinstance(n, ast.For) and norm(n.iter) == "added_nodes"]
    ok = len(lps) == 1
    if ok:
        t = " | ".join(norm(s) for s in lps[0].body)
        ok = "other_clones = added_node.get_clones()" in t and "n.get_meta('dc') == DC.REMOVED" in t and "added_node.set_meta('dc', DC.MOVED_HERE)" in t \
            and "n.set_meta('dc', DC.MOVED_TO)" in t
    obs.append(ctx.ob("DIFF", ["C11"], f, "a moved-here node is an added node with a removed clone, which becomes moved-away", None, ok, "" if ok else "moves only re-label members of the added/removed sets"))
    # reduce
    red = [n for n in f.body if isinstance(n, ast.If) and norm(n.test) == "reduce"]
    ok = len(red) == 1
    if ok:
        pr = [g for g in f.nested if g.name == "pred"]
        ok = bool(pr) and any(isinstance(n, ast.Return) and norm(n.value) == "bool(node.get_meta('dc'))" for n in iter_own(pr[0].node))
        ok = ok and any(isinstance(c, ast.Call) and norm(c.func) == "t2.filter" for c in ast.walk(red[0]))
    obs.append(ctx.ob("DIFF", ["C11", "C08"], f, "reduce filters the result on the 'dc' mark", None, ok, "" if ok else "reduce keeps exactly the marked nodes and their ancestors"))
    ok = any(isinstance(n, ast.Return) and norm(n.value) == "t2" for n in f.body)
    obs.append(ctx.ob("DIFF", ["C11"], f, "the result tree is returned", None, ok, ""))
    return obs
