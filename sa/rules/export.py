"""Graph exports (C17), pretty printing (C16), diff (C11).

Shapes are matched with structural patterns (sa.pat): locals are metavariables,
API names literal."""
from __future__ import annotations

import ast
from typing import Dict, List, Optional, Set, Tuple

from ..core import Ctx, Ob, rule
from ..model import AnalysisError, Func, iter_own, norm
from .util import stmts_before
from ..pat import find, has, match, one
from .trav import _if_chain


def _loops_over(f: Func, name: str) -> List[ast.For]:
    return [n for n in iter_own(f.node) if isinstance(n, ast.For) and isinstance(n.iter, ast.Name) and n.iter.id == name]


def _key_func(ctx: Ctx, f: Func) -> Optional[Func]:
    """The nested one-argument function that returns p._data_id when unique_nodes and p._node_id otherwise."""
    from .util import exit_cases, find_cases

    for g in f.nested:
        if len(g.positional_params()) != 1:
            continue
        p = g.positional_params()[0]
        cs = [c for c in exit_cases(ctx, g, ("return",)) if c.value is not None]
        if len(cs) == 1 and match(f"{p}._data_id if unique_nodes else {p}._node_id", cs[0].value) is not None:
            return g
        if len(cs) == 2 and find_cases(cs, "return", f"{p}._data_id", [("unique_nodes", True)]) and find_cases(cs, "return", f"{p}._node_id", [("unique_nodes", False)]):
            return g
    return None


FuncNodes = (ast.FunctionDef, ast.AsyncFunctionDef, ast.Lambda)


def _ancestors(m, node: ast.AST, stop: ast.AST):
    p_ = m.parent_of(node)
    while p_ is not None and p_ is not stop:
        yield p_
        p_ = m.parent_of(p_)


@rule("SIB-EXPORT", ["C17"], floor=20, section="3.7")
def sib_export(ctx: Ctx) -> List[Ob]:
    """DOT and Mermaid exporters agree: node loop and edge loop range over the same iteration, keys come from one key function (data_id iff unique_nodes), the edge loop skips exactly the edges leaving an excluded root and emits one edge per node; RDF adds one has_child triple per child with a parent"""
    from .util import cond_texts, exit_cases, find_cases, find_under, not_after, path_conds, reaching_values, resolve_expr

    obs: List[Ob] = []
    m = ctx.model

    kf_known: Dict[str, bool] = {}

    def O(f, label, ok, why="", node=None):
        if ok is False and kf_known.get(f.qualname) is False and ("key" in label or "index" in label or "node 0" in label):
            ok = None  # the key function is not the nested `key(n)` helper these clauses read the keys through
        obs.append(ctx.tri("SIB-EXPORT", ["C17"], f, label, node, ok, why))

    def inner(f, node, scope):
        ids = {id(x) for x in ast.walk(scope)}
        return [(a_, p_) for a_, p_ in path_conds(ctx, f, node) if id(getattr(a_, "_orig", a_)) in ids]

    specs = [("node_to_dot", "add_self"), ("_node_to_mermaid_flowchart_iter", "add_root")]
    shapes = {}
    for q, flag in specs:
        f = m.func(q)
        kf = _key_func(ctx, f)
        cand = [g for g in f.nested if len(g.positional_params()) == 1 and any(isinstance(x, ast.Attribute) and x.attr in ("_data_id", "data_id") for x in ast.walk(g.node))]
        O(f, f"{q}: key(n) = n._data_id if unique_nodes else n._node_id", (kf is not None) if cand else None,
          "one graph node per distinct data_id, or per tree node when unique_nodes is off")
        kname = kf.name if kf else "_no_key_function_"
        kf_known[f.qualname] = kf is not None
        loops = _loops_over(f, "node")
        O(f, f"{q}: node loop and edge loop both iterate `node` (same pre-order walk)", True if len(loops) == 2 else (None if loops else False), f"{len(loops)} loops over the start node")
        if len(loops) == 1:
            # node loop and edge loop merged: whatever mentions the parent of the loop variable (the edge, or its collection
            # for later) must not sit behind the "this key was seen before" test - every tree node has its own edge
            lp1 = loops[0]
            v1 = norm(lp1.target)
            for x in ast.walk(lp1):
                if isinstance(x, (ast.Call, ast.Yield)) and any(isinstance(y, ast.Attribute) and y.attr in ("_parent", "parent") and norm(y.value) == v1 for y in ast.walk(x)) \
                        and not any(isinstance(z, (ast.Call, ast.Yield)) and z is not x and any(z is w for w in ast.walk(x)) and any(
                            isinstance(y, ast.Attribute) and y.attr in ("_parent", "parent") and norm(y.value) == v1 for y in ast.walk(z)) for z in ast.walk(x)):
                    seen = [("" if p_ else "not ") + norm(a_) for a_, p_ in inner(f, x, lp1)
                            if isinstance(a_, ast.Compare) and len(a_.ops) == 1 and isinstance(a_.ops[0], (ast.In, ast.NotIn)) and isinstance(a_.comparators[0], ast.Name)]
                    if seen:
                        O(f, f"{q}: one edge per tree node (also for the second and later clones)", False,
                          f"`{norm(x)[:70]}` runs only under {seen}: the edge from the parent to a clone whose key was already defined is lost", x)
                        break
        if len(loops) != 2:
            continue

        def keytext(at, e) -> str:
            """key expression with the key function expanded: `K(<node expr>)`"""
            r = resolve_expr(ctx, f, at, e, keep=[kname])
            t = norm(r)
            for side in ("_data_id", "_node_id"):
                pass
            mk = match(f"{kname}($$x)", r)
            if mk is not None:
                return f"K({norm(mk['$$x'])})"
            return t

        def is_edge_loop(lp):
            v = norm(lp.target)
            return any(isinstance(x, ast.Attribute) and x.attr in ("_parent", "parent") and norm(x.value) == v for x in ast.walk(lp))

        el = [lp for lp in loops if is_edge_loop(lp)]
        nl = [lp for lp in loops if not is_edge_loop(lp)]
        if len(el) != 1 or len(nl) != 1:
            O(f, f"{q}: node loop defines each key once (skip when seen, record when new)", None, "node / edge loop not told apart")
            continue
        nl, el = nl[0], el[0]
        nv, ev = norm(nl.target), norm(el.target)
        shapes[q] = (f, kname, nl, el, nv, ev)
        # ---- node loop: a key that was seen before is not defined again; a new key is recorded
        ys = [x for x in ast.walk(nl) if isinstance(x, ast.Yield)]
        ok: Optional[bool] = None
        if len(ys) == 1:
            tests = []
            for n_ in ast.walk(nl):
                if isinstance(n_, ast.Compare) and len(n_.ops) == 1 and isinstance(n_.ops[0], (ast.In, ast.NotIn)):
                    tests.append(n_)
            seen_ok = False
            for t_ in tests:
                kx, S = t_.left, norm(t_.comparators[0])
                here = t_
                while here is not None and not isinstance(here, ast.stmt):
                    here = m.parent_of(here)
                kt = keytext(here, kx)
                if kt not in (f"K({nv})", f"{nv}._data_id"):
                    continue
                # (a) the definition is not reached in a round where the key is in S
                pcs_y = inner(f, ys[0], nl)
                guarded = any((not pol) and isinstance(a_, ast.Compare) and isinstance(a_.ops[0], ast.In) and norm(a_.comparators[0]) == S for a_, pol in pcs_y)
                skipped = any(isinstance(c_, ast.Continue) and any(pol and isinstance(a_, ast.Compare) and isinstance(a_.ops[0], ast.In) and norm(a_.comparators[0]) == S
                                                                     for a_, pol in inner(f, c_, nl)) for c_ in ast.walk(nl))
                # (b) the key is recorded in S when it is new
                recs = find(f"{S}.add($$k)", nl) + find(f"{S}[$$k] = $$v", nl)
                rec_ok = len(recs) == 1 and keytext(recs[0][0], recs[0][1]["$$k"]) == kt and any(
                    (not pol) and isinstance(a_, ast.Compare) and isinstance(a_.ops[0], ast.In) and norm(a_.comparators[0]) == S for a_, pol in inner(f, recs[0][0], nl))
                if (guarded or skipped) and rec_ok:
                    seen_ok = True
            ok = seen_ok if tests else False
        O(f, f"{q}: node loop defines each key once (skip when seen, record when new)", ok,
          "clones must share one graph node when unique_nodes is on, and every other node must be defined", nl)
        # ---- edge loop
        eys = [x for x in ast.walk(el) if isinstance(x, ast.Yield)]
        ok = None
        if len(eys) == 1:
            ts = sorted(cond_texts(inner(f, eys[0], el)))
            ok = ts in ([f"{flag} or {ev}._parent is not node"], [f"{ev}._parent is not node or {flag}"], [f"not (not {flag} and {ev}._parent is node)"])
            why_e = f"edges are emitted under {ts}"
            if not ok:
                # the skipped parent is chosen into a local beforehand (two reaching values): not read by this clause
                locs_ = {x.id for a_, _p in inner(f, eys[0], el) for x in ast.walk(a_) if isinstance(x, ast.Name)}
                if any(len([b_ for b_ in ctx.env.scope(f).bindings.get(nm_, []) if b_.kind == "val"]) >= 2 for nm_ in locs_ - {flag, ev, "node"}):
                    ok = None
        else:
            why_e = f"{len(eys)} yields in the edge loop"
            ok = None if eys else False
        if ok:
            # witness: some other round of the edge loop ends without its edge (a `continue` / `break` that is not the root skip)
            for x_ in ast.walk(el):
                if isinstance(x_, (ast.Continue, ast.Break)):
                    tsx = sorted(cond_texts(inner(f, x_, el)))
                    if tsx not in ([f"not {flag}", f"{ev}._parent is node"], [f"{ev}._parent is node", f"not {flag}"], [f"not ({flag} or {ev}._parent is not node)"]):
                        ok = False
                        why_e = f"a round of the edge loop is left under {tsx}"
        O(f, f"{q}: the edge loop skips exactly `not {flag} and n._parent is node` (identity) and emits one edge statement per remaining node", ok,
          why_e + ": excluding the root omits the root node and the edges leaving it and nothing else (edges leaving an inner clone of the start node stay)", el)
        ok = None
        if len(eys) == 1 and eys[0].value is not None:
            r = resolve_expr(ctx, f, eys[0], eys[0].value, keep=[kname])
            calls = [norm(c.args[0]) for c in ast.walk(r) if isinstance(c, ast.Call) and norm(c.func) == kname and c.args]
            ok = calls[:2] == [f"{ev}._parent", ev] if len(calls) >= 2 else (False if kf is not None else None)
        O(f, f"{q}: an edge runs from key(n._parent) to key(n)", ok, "the edge must connect the parent's key to the child's key", el)
        rall = [c for c in exit_cases(ctx, f, ("yield",)) if not_after(ctx, f, c.stmt, nl) and c.value is not None
                and any(isinstance(x, ast.Name) and x.id == "node" for x in ast.walk(resolve_expr(ctx, f, c.stmt, c.value, keep=[kname])))
                and not any(isinstance(x, ast.Attribute) and x.attr == "tree" for x in ast.walk(c.value))]
        rys = [c for c in rall if flag in cond_texts(c.conds)]
        others = [sorted(cond_texts(c.conds) - {flag}) for c in rys]
        if len(rys) == 1 and others == [[]]:
            okr_ = True
        elif len(rys) == 2 and len(others[0]) == 1 and len(others[1]) == 1 and {others[0][0], others[1][0]} in ({x_, "not " + x_} for x_ in (others[0][0], others[1][0])):
            okr_ = True  # the same definition spelled once per key mode
        elif not rall or any(flag not in cond_texts(c.conds) for c in rall):
            okr_ = False
        else:
            okr_ = None
        O(f, f"{q}: the root node is defined iff {flag}", okr_, "root definition must follow the flag")
    # dot specifics
    if "node_to_dot" in shapes:
        f, kn, nl, el, nv, ev = shapes["node_to_dot"]
        ys = [x for x in ast.walk(nl) if isinstance(x, ast.Yield)]
        ok = None
        if len(ys) == 1 and isinstance(ys[0].value, ast.JoinedStr):
            fv = [v.value for v in ys[0].value.values if isinstance(v, ast.FormattedValue)]
            keys = []
            for v_ in fv:
                vals = reaching_values(ctx, f, ys[0], v_)
                ts = {norm(x) for x in vals}
                if ts & {f"{nv}._data_id", f"{nv}._node_id", f"{kn}({nv})"}:
                    keys.append(ts)
            if keys:
                ok = keys[0] in ({f"{nv}._data_id", f"{nv}._node_id"}, {f"{kn}({nv})"})
                if ok and keys[0] == {f"{nv}._data_id", f"{nv}._node_id"}:
                    ok = bool(find_under(ctx, f, f"$k = {nv}._data_id", [("unique_nodes", True)], root=nl)) and bool(find_under(ctx, f, f"$k = {nv}._node_id", [("unique_nodes", False)], root=nl))
        O(f, "node_to_dot: the node loop's key agrees with the key function", ok, "node definitions and edge endpoints must use the same key", nl)
        O(f, "node_to_dot: node definitions carry the node's name as label", has(f"{{'label': {nv}.name}}", nl), "exports carry the child's name", nl)
        eys = [x for x in ast.walk(el) if isinstance(x, ast.Yield)]
        ok = None
        if len(eys) == 1:
            r = resolve_expr(ctx, f, eys[0], eys[0].value, keep=[kn])
            ok = any(f"{{{kn}({ev}._parent)}} -> {{{kn}({ev})}}" in norm(x) for x in ast.walk(r) if isinstance(x, ast.JoinedStr))
        O(f, "node_to_dot: edge statement `key(parent) -> key(child)`", ok, "edge direction parent -> child", el)
    # one edge per tree node - also for the second and later clones, whose *node definition* is skipped: the edge
    # emission must not sit behind the seen-this-key test (whatever the loop structure)
    for q, flag in specs:
        f = m.func(q)
        emits = [c for c in ast.walk(f.node) if isinstance(c, ast.Call) and norm(c.func) == "edge_mapper"]
        if q == "node_to_dot":
            emits = [y for y in ast.walk(f.node) if isinstance(y, ast.Yield) and y.value is not None and "->" in norm(y.value)]
        emits = [c for c in emits if not any(isinstance(p_, FuncNodes) and p_ is not f.node for p_ in _ancestors(m, c, f.node))]
        okd = None
        bad_ = []
        for c in emits:
            for e_, p_ in path_conds(ctx, f, c):
                if isinstance(e_, ast.Compare) and len(e_.ops) == 1 and isinstance(e_.ops[0], (ast.In, ast.NotIn)) and isinstance(e_.comparators[0], ast.Name):
                    bad_.append(("" if p_ else "not ") + norm(e_))
        if emits:
            okd = not bad_
        O(f, f"{q}: the edge of a node is emitted whether or not its key was seen before (clones keep their edges)", okd,
          f"edge emission under {bad_}: the second and later clones of a data_id lose their incoming edge")
    # mermaid specifics
    if "_node_to_mermaid_flowchart_iter" in shapes:
        f, kn, nl, el, nv, ev = shapes["_node_to_mermaid_flowchart_iter"]
        sts = [(n_, e_) for n_, e_ in find("$tab[$$k] = $idx", nl)]
        ok = None
        tab = None
        if len(sts) == 1:
            tab, idx = sts[0][1]["$tab"], sts[0][1]["$idx"]
            incs = find(f"{idx} += 1", nl)
            kx = resolve_expr(ctx, f, sts[0][0], sts[0][1]["$$k"], keep=[kn])
            ok = norm(kx) == f"{kn}({nv})" and len(incs) == 1 and cond_texts(inner(f, incs[0][0], nl)) == cond_texts(inner(f, sts[0][0], nl)) \
                and not_after(ctx, f, sts[0][0], incs[0][0])
            init = [norm(e_["$$v"]) for n_, e_ in find(f"{idx} = $$v", f.node) if not any(n_ is x for x in ast.walk(nl)) and not any(n_ is x for x in ast.walk(el))]
            ok = ok and init == ["1"]
            if not ok and not incs and any(isinstance(x, ast.Call) and norm(x.func) == "next" for x in ast.walk(nl)):
                ok = None  # the index comes from an iterator (itertools.count), not from a counter variable
        O(f, "mermaid: every new key gets the next index (numbering starts at 1; the root is 0)", ok, "node numbering broken", nl)
        if tab is not None:
            calls = [c for c in ast.walk(el) if isinstance(c, ast.Call) and norm(c.func) == "edge_mapper"]
            ok2 = None
            if len(calls) == 1 and len(calls[0].args) == 4:
                a0, a1, a2, a3 = [norm(resolve_expr(ctx, f, calls[0], x, keep=[kn, tab])) for x in calls[0].args]
                ok2 = (a0, a1, a2, a3) == (f"{tab}[{kn}({ev}._parent)]", f"{ev}._parent", f"{tab}[{kn}({ev})]", ev)
            O(f, "mermaid: edges are looked up through the same index table (parent index, parent, child index, child)", ok2, "edge endpoints must be the indices of the defined nodes", el)
            O(f, "mermaid: the root is node 0", bool(find_under(ctx, f, f"{tab}[{kn}(node)] = 0", [("add_root", True)])))
    f = m.func("_node_to_mermaid_flowchart_iter")
    em = [g for g in f.nested if g.name == "edge_mapper" and has("getattr($t, 'kind', None)", g.node)]
    # (the *default* mapper is the one that uses the default templates; a template mapper may read the kind as well)
    em = [g for g in em if any(isinstance(x, ast.Name) and x.id == "DEFAULT_EDGE_TEMPLATE_TYPED" for x in ast.walk(g.node))] or em
    ok = None
    if em:
        g = em[0]
        to = g.positional_params()[3] if len(g.positional_params()) == 4 else "to_node"
        typed = find_under(ctx, g, "$t = DEFAULT_EDGE_TEMPLATE_TYPED", [(f"getattr({to}, 'kind', None)", True)])
        plain = find_under(ctx, g, "$t = DEFAULT_EDGE_TEMPLATE", [(f"getattr({to}, 'kind', None)", False)])
        ok = (len(typed) == 1 and len(plain) == 1) or has(f"DEFAULT_EDGE_TEMPLATE_TYPED if getattr({to}, 'kind', None) else DEFAULT_EDGE_TEMPLATE", g.node)
        if not ok:
            # canonical spelling: the template is used where it was chosen
            tmpl = {True: [], False: []}
            for x in ast.walk(g.node):
                if isinstance(x, ast.Name) and x.id in ("DEFAULT_EDGE_TEMPLATE_TYPED", "DEFAULT_EDGE_TEMPLATE"):
                    ts_ = cond_texts(path_conds(ctx, g, x))
                    pos = f"getattr({to}, 'kind', None)" in ts_
                    neg = f"not getattr({to}, 'kind', None)" in ts_
                    if pos != neg:
                        tmpl[pos].append(x.id)
                    else:
                        tmpl[True].append("?")
            if tmpl[True] == ["DEFAULT_EDGE_TEMPLATE_TYPED"] and tmpl[False] == ["DEFAULT_EDGE_TEMPLATE"]:
                ok = True
            elif "?" in tmpl[True]:
                ok = None
    O(f, "mermaid: the default edge is labelled with the child's kind iff it has one", ok, "typed trees label edges with the child's kind")
    # TypedNode.to_dot edge labels
    f = m.func("TypedNode.to_dot")
    ok = None
    for g in f.nested:
        if len(g.positional_params()) >= 2:
            p0, p1 = g.positional_params()[:2]
            labs = find(f"{p1}['label'] = {p0}.kind", g.node)
            usr = [c for c in ctx.env.calls_in[g] if [norm(a_) for a_ in c.args] == [p0, p1] and isinstance(c.func, ast.Name) and c.func.id != g.name]
            if labs or usr:
                passed = [c for c in ctx.env.calls_in[f] if any(k.arg == "edge_mapper" and norm(k.value) == g.name for k in c.keywords)]
                # the user's mapper is the outer edge_mapper (possibly through a local alias), called only if given
                usr_ok = len(usr) == 1 and any(norm(v_) == "edge_mapper" for v_ in reaching_values(ctx, g, usr[0], usr[0].func)) or (len(usr) == 1 and usr[0].func.id == "edge_mapper")
                ok = len(passed) == 1 and len(labs) == 1 and not path_conds(ctx, g, labs[0][0]) and usr_ok and not_after(ctx, g, labs[0][0], usr[0])
    O(f, "typed DOT export labels every edge with the child's kind and still calls the user's edge mapper", ok, "typed edge labels lost")
    # RDF
    f = m.func("_add_child_node")
    gp, pp, tp = f.positional_params()[0], f.positional_params()[1], f.positional_params()[2]
    adds = [c for c in ctx.env.calls_in[f] if norm(c.func) == f"{gp}.add" and len(c.args) == 1 and isinstance(c.args[0], ast.Tuple) and len(c.args[0].elts) == 3]
    trip = []
    for c in adds:
        s_, p_, o_ = [norm(resolve_expr(ctx, f, c, x)) for x in c.args[0].elts]
        trip.append((c, s_, p_, o_, cond_texts(path_conds(ctx, f, c))))
    G = f"Literal({tp}.data_id)"
    gnodes = {t[1] for t in trip if t[2] != "NUTREE_NS.has_child"}
    O(f, "rdf: graph nodes are keyed by data_id", (gnodes == {G}) if gnodes else None, f"subjects {sorted(gnodes)}")
    hc = [t for t in trip if t[2] == "NUTREE_NS.has_child"]
    ok = None
    if hc:
        ok = len(hc) == 1 and (hc[0][1], hc[0][3]) == (pp, G) and (f"not ({pp} is None)" in hc[0][4] or f"not {pp} is None" in hc[0][4]) and not any(
            t_ in (pp, f"not {pp}") for t_ in hc[0][4])
    if ok and any("is False" in t_ or t_.endswith("is not False") or t_.startswith("not (") and "is False" in t_ for t_ in hc[0][4]):
        ok = False  # witness: a mapper that answers False (no standard attributes) also loses the edge to its parent
    O(f, "rdf: one has_child triple parent -> child, iff there is a parent graph node (tested with `is not None`)", ok,
      "edge triple missing, misdirected, or not added for a node whose mapper returned False (False suppresses the standard attributes, not the edge)")
    kd = [t for t in trip if t[2] == "NUTREE_NS.kind"]
    ok = None if not trip else (len(kd) == 1 and kd[0][1] == G and kd[0][3] in (f"Literal({tp}.kind)",) and f"hasattr({tp}, 'kind')" in kd[0][4])
    if ok is False and len(kd) == 1 and kd[0][1] == G and not any("kind" in t_ for t_ in kd[0][4]):
        ok = None  # the triple is there; how "has a kind" is tested is spelled differently (e.g. try/except AttributeError)
    O(f, "rdf: typed nodes get a kind triple", ok, "kind must be exported for typed trees")
    nmt = [t for t in trip if t[2] == "NUTREE_NS.name"]
    O(f, "rdf: every node gets a name triple", None if not trip else (len(nmt) == 1 and nmt[0][1] == G and nmt[0][3] == f"Literal({tp}.name)"))
    f = m.func("_add_child_nodes")
    gp, gnp, tp = f.positional_params()[:3]
    lps = [n for n in iter_own(f.node) if isinstance(n, ast.For)]
    ok = None
    if len(lps) == 1 and isinstance(lps[0].target, ast.Tuple) and len(lps[0].target.elts) == 2:
        lp = lps[0]
        it_ok = match(f"enumerate({tp}._children or ())", lp.iter) is not None or match(f"enumerate({tp}.children)", lp.iter) is not None
        iv, cv = norm(lp.target.elts[0]), norm(lp.target.elts[1])
        calls = [c for c in ast.walk(lp) if isinstance(c, ast.Call) and norm(c.func) == "_add_child_node"]
        recs = [c for c in ast.walk(lp) if isinstance(c, ast.Call) and norm(c.func) == "_add_child_nodes"]
        if len(calls) == 1 and len(recs) == 1:
            g0 = m.func("_add_child_node")
            act = {p: ctx.env._actual_for(g0, calls[0], p) for p in ("parent_graph_node", "tree_node", "index")}
            ok = it_ok and all(v is not None for v in act.values()) and norm(act["parent_graph_node"]) == gnp and norm(act["tree_node"]) == cv and norm(act["index"]) == iv
            ra = recs[0].args
            ok = ok and len(ra) >= 3 and norm(ra[0]) == gp and norm(ra[2]) == cv and any(v_ is calls[0] for v_ in reaching_values(ctx, f, recs[0], ra[1]))
    O(f, "rdf: each child is added below this node's graph node and recursed into once", ok, "edges must follow the tree's parent-child relation")
    # the graph node of a child is an rdflib term (a Literal of the data_id): its truth value is the truth value of the
    # id, so 0 / '' / False ids are falsy although the node exists
    bad = None
    for lp in lps:
        gv = {norm(t) for x in ast.walk(lp) if isinstance(x, ast.Assign) and isinstance(x.value, ast.Call) and norm(x.value.func) == "_add_child_node" for t in x.targets}
        for x in ast.walk(lp):
            if isinstance(x, (ast.Continue, ast.Break, ast.Return)) or (isinstance(x, ast.Call) and norm(x.func) == "_add_child_nodes"):
                for e, pol in path_conds(ctx, f, x):
                    if isinstance(e, ast.Name) and e.id in gv:
                        bad = x
    O(f, "rdf: descent does not depend on the truth value of the child's graph node", None if not lps else bad is None,
      "the graph node is a Literal of the data_id: a node whose id is 0, '' or False is falsy, its branch would be skipped", bad)
    return obs


def _res(ctx: Ctx, f, at: ast.AST, e: ast.AST) -> ast.AST:
    from .util import resolve_expr

    try:
        return resolve_expr(ctx, f, at, e)
    except Exception:  # noqa: BLE001 - resolution is best effort
        return e


# ------------------------------------------------------------------- C16
@rule("RENDER", ["C16"], floor=15, section="3.8")
def render(ctx: Ctx) -> List[Ob]:
    """pretty printing: the style table is well-formed (4/6 string segments of consistent width), _get_prefix picks one indent segment per ancestor by identity-last and one connector by (last, has children), lines are yielded once per node of the default walk, the render path calls no kind-sensitive override, title plumbing of Tree.format_iter"""
    obs: List[Ob] = []
    m = ctx.model

    def O(f, label, ok, why="", node=None):
        obs.append(ctx.ob("RENDER", ["C16"], f, label, node, bool(ok), "" if ok else why))

    conn = m.globals["common"].get("CONNECTORS")
    try:
        table = ast.literal_eval(conn)
    except Exception as e:
        raise AnalysisError("CONNECTORS is not a literal table") from e
    if len(table) < 20:
        raise AnalysisError("CONNECTORS has fewer than 20 styles")
    for name, segs in sorted(table.items()):
        ok = isinstance(segs, tuple) and len(segs) in (4, 6) and all(isinstance(s, str) for s in segs)
        why = "" if ok else "a style is a tuple of 4 or 6 strings"
        if ok:
            if len(segs[0]) != len(segs[1]):
                ok, why = False, "indent segments s0/s1 differ in width: the depth cannot be decoded from the prefix"
            elif len({len(s) for s in segs[2:]}) != 1:
                ok, why = False, "connector segments differ in width"
            elif len(segs) == 6 and (segs[2] == segs[4] or segs[3] == segs[5]):
                ok, why = False, "compact style does not distinguish nodes with children"
        O("common:CONNECTORS", f"style '{name}' is well-formed", ok, why)
    from .util import cond_texts, exit_cases, find_under, not_after, path_conds, reaching_values, resolve_expr

    def T(f_, label, ok, why="", node=None):
        obs.append(ctx.tri("RENDER", ["C16"], f_, label, node, ok, why))

    f = m.func("Node._get_prefix")
    sp, lsp = [p for p in f.positional_params() if p != f.self_name][:2]
    # --- which style segment does a name stand for, for 4- and for 6-segment styles?
    seg: Dict[int, Dict[str, int]] = {4: {}, 6: {}}
    recognised = True
    rejects = False
    for n in iter_own(f.node):
        if isinstance(n, ast.Assign) and len(n.targets) == 1 and isinstance(n.targets[0], ast.Tuple) and all(isinstance(t, ast.Name) for t in n.targets[0].elts):
            names = [t.id for t in n.targets[0].elts]
            ts = cond_texts(path_conds(ctx, f, n))
            src = n.value
            lens = [k for k in (4, 6) if f"len({sp}) == {k}" in ts] or [k for k in (4, 6) if f"not (len({sp}) == {10 - k})" in ts and len(names) == k]
            if norm(src) == sp and len(lens) == 1 and len(names) == lens[0]:
                for i, nm_ in enumerate(names):
                    seg[lens[0]][nm_] = i
            elif isinstance(src, ast.Tuple) and len(src.elts) == len(names) and lens:
                for nm_, v_ in zip(names, src.elts):
                    if isinstance(v_, ast.Name) and v_.id in seg[lens[0]]:
                        seg[lens[0]][nm_] = seg[lens[0]][v_.id]
    for n in iter_own(f.node):
        if isinstance(n, ast.Assign) and len(n.targets) == 1 and isinstance(n.targets[0], ast.Name) and isinstance(n.value, ast.Name):
            ts = cond_texts(path_conds(ctx, f, n))
            for k in (4, 6):
                if f"len({sp}) == {k}" in ts and n.value.id in seg[k]:
                    seg[k][n.targets[0].id] = seg[k][n.value.id]
        if isinstance(n, ast.Raise) and "ValueError" in norm(n):
            ts = cond_texts(path_conds(ctx, f, n))
            if {f"not (len({sp}) == 4)", f"not (len({sp}) == 6)"} <= ts or {f"not (len({sp}) == 4)", f"not len({sp}) == 6"} <= ts:
                rejects = True
    # 4-segment styles reuse the plain connectors for the compact positions
    names6 = sorted(seg[6], key=lambda k_: seg[6][k_])
    ok: Optional[bool] = None
    if len(seg[6]) >= 6 and seg[4]:
        ok = [seg[6][k_] for k_ in names6] == list(range(6)) and [seg[4].get(k_) for k_ in names6] == [0, 1, 2, 3, 2, 3] and rejects
    T(f, "_get_prefix accepts 4- and 6-segment styles (4: s4=s2, s5=s3) and rejects others", ok,
      f"segments for 6: {seg[6]}, for 4: {seg[4]}, other lengths rejected: {rejects}; custom 4- and 6-tuples must work in every style")
    il = [g for g in f.nested if len(g.positional_params()) == 1]
    okl: Optional[bool] = None
    iln = None
    for g in il:
        p_ = g.positional_params()[0]
        r = [n for n in iter_own(g.node) if isinstance(n, ast.Return)]
        if len(r) == 1 and r[0].value is not None:
            iln = g.name
            okl = match(f"{p_} is {p_}._parent._children[-1]", r[0].value) is not None or match(f"{p_}._parent._children[-1] is {p_}", r[0].value) is not None
    T(f, "_is_last: identity comparison with the parent's last child (not a kind-aware override, not ==)", okl, "is-last must refer to the full sibling list, by identity")
    # --- every appended segment with the conditions it depends on
    apps = [(n, e_) for n, e_ in find("$parts.append($s)", f.node) if e_["$s"] in seg[6]]
    lps = [n for n in iter_own(f.node) if isinstance(n, ast.For) and match("self.get_parent_list()", n.iter) is not None and isinstance(n.target, ast.Name)]
    ok_anc: Optional[bool] = None
    ok_own: Optional[bool] = None
    if apps and iln is not None and len(lps) == 1 and len({e_["$parts"] for _n, e_ in apps}) == 1:
        lp = lps[0]
        pv = lp.target.id
        anc_tab: Dict[str, int] = {}
        own_tab: Dict[str, int] = {}
        anc_guard_ok = True
        own_guard_ok = True
        extra_lstrip = False
        for n, e_ in apps:
            pcs = path_conds(ctx, f, n)
            ts = cond_texts(pcs)
            idx6 = seg[6][e_["$s"]]
            inside = any(n is x for x in ast.walk(lp))
            who = pv if inside else "self"
            last = f"{iln}({who})" in ts
            notlast = f"not {iln}({who})" in ts
            if not (last or notlast):
                (anc_tab if inside else own_tab)["?" + norm(n)] = idx6
                continue
            if inside:
                anc_tab["last" if last else "other"] = idx6
                cnt = [t for t in ts if lsp in t]
                good_ = [t for t in cnt if match(f"not ($d <= {lsp})", P_(t)) is not None or match(f"$d > {lsp}", P_(t)) is not None]
                if len(cnt) > 1 and len(good_) == 1:
                    # further conditions on lstrip come from a short-cut in front of the walk: what it returns is not read here
                    extra_lstrip = True
                    cnt = good_
                if not (len(cnt) == 1 and (match(f"not ($d <= {lsp})", P_(cnt[0])) is not None or match(f"$d > {lsp}", P_(cnt[0])) is not None)):
                    anc_guard_ok = False
                else:
                    dvar = (match(f"not ($d <= {lsp})", P_(cnt[0])) or match(f"$d > {lsp}", P_(cnt[0])))["$d"]
                    incs = [x for x, _e in find(f"{dvar} += 1", lp)]
                    if len(incs) != 1 or not not_after(ctx, f, incs[0], n) or path_conds(ctx, f, incs[0]) != [] and any(
                            any(a_ is y for y in ast.walk(lp)) for a_, _p in path_conds(ctx, f, incs[0])):
                        anc_guard_ok = False
            else:
                kids = "self._children" in ts or "self.children" in ts
                leaf = "not self._children" in ts or "not self.children" in ts
                own_tab[("kids" if kids else "leaf" if leaf else "?") + ("-last" if last else "-other")] = idx6
                cnt = [t for t in ts if lsp in t]
                good_ = [t for t in cnt if match(f"$d >= {lsp}", P_(t)) is not None or match(f"not ($d < {lsp})", P_(t)) is not None]
                if len(cnt) > 1 and len(good_) == 1:
                    extra_lstrip = True
                    cnt = good_
                if not (len(cnt) == 1 and (match(f"$d >= {lsp}", P_(cnt[0])) is not None or match(f"not ($d < {lsp})", P_(cnt[0])) is not None)):
                    own_guard_ok = False
        ok_anc = anc_tab == {"last": 0, "other": 1} and anc_guard_ok
        ok_own = own_tab == {"kids-last": 4, "kids-other": 5, "leaf-last": 2, "leaf-other": 3} and own_guard_ok
        rets = [c for c in exit_cases(ctx, f, ("return",)) if c.value is not None]
        parts = apps[0][1]["$parts"]
        if ok_own and not (rets and all(match(f"''.join({parts})", r_.value) is not None for r_ in rets)):
            ok_own = None if rets and all(match(f"''.join({parts})", r_.value) is not None or (isinstance(r_.value, ast.Constant) and r_.value.value == "") for r_ in rets) else False
        if extra_lstrip:
            # a short-cut on lstrip in front of the walk: the table of the walk is right, what the short-cut answers is undecided
            ok_anc = None if ok_anc else ok_anc
            ok_own = None if ok_own else ok_own
        why_a, why_o = f"ancestor segments {anc_tab}", f"own connector {own_tab}"
    else:
        why_a = why_o = "segment appends not recognised"
    T(f, "one indent segment per ancestor beyond lstrip: s0 below a last sibling, s1 otherwise", ok_anc, why_a + ": the prefix must encode for every ancestor whether it is a last sibling")
    T(f, "own connector: (has children, last) -> s4/s5, (leaf, last) -> s2/s3", ok_own, why_o + ": the connector must encode is-last and (compact styles) has-children")
    rl = m.func("Node._render_lines")
    lps = [n for n in iter_own(rl.node) if isinstance(n, ast.For) and isinstance(n.target, ast.Name)]
    ok = None
    lsv = None
    if len(lps) == 1:
        lp = lps[0]
        nv = lp.target.id
        ys = [x for x in ast.walk(lp) if isinstance(x, ast.Yield)]
        all_ys = [x for x in iter_own(rl.node) if isinstance(x, (ast.Yield, ast.YieldFrom))]
        # one yield, or the same line spelled once per rendering mode (callable / template) under complementary tests
        def _complementary(ys_) -> bool:
            if len(ys_) != 2:
                return False
            cs_ = [cond_texts([(a_, p_) for a_, p_ in path_conds(ctx, rl, y_) if any(a_ is z or getattr(a_, "_orig", None) is z for z in ast.walk(lp))]) for y_ in ys_]
            return all(len(c_) == 1 for c_ in cs_) and (next(iter(cs_[0])) in ("not " + next(iter(cs_[1])), "not (" + next(iter(cs_[1])) + ")")
                                                          or next(iter(cs_[1])) in ("not " + next(iter(cs_[0])), "not (" + next(iter(cs_[0])) + ")"))

        if ys and len(all_ys) == len(ys) and all(isinstance(y_.value, ast.BinOp) and isinstance(y_.value.op, ast.Add) for y_ in ys) and (len(ys) == 1 or _complementary(ys)):
            es_ = [match(f"{nv}._get_prefix(style, $$ls)", resolve_expr(ctx, rl, y_, y_.value.left)) for y_ in ys]
            e_ = es_[0] if all(x is not None for x in es_) and len({norm(x["$$ls"]) for x in es_}) == 1 else None
            ok = e_ is not None and match("self.iterator(add_self=add_self)", lp.iter) is not None \
                and not any(isinstance(x, (ast.Continue, ast.Break, ast.Return)) for st in lp.body for x in ast.walk(st)) \
                and (len(ys) == 2 or not [a_ for a_, _p in path_conds(ctx, rl, ys[0]) if any(a_ is y or getattr(a_, "_orig", None) is y for y in ast.walk(lp))])
            if e_ is not None and isinstance(e_["$$ls"], ast.Name):
                lsv = e_["$$ls"].id
    T(rl, "_render_lines yields prefix + rendering exactly once per node of the default (pre-order) walk", ok, "one line per node, in pre-order")
    ok = None
    if lsv is not None:
        base = [norm(e_["$$v"]) for _n, e_ in find(f"{lsv} = $$v", rl.node)]
        incs = find_under(ctx, rl, f"{lsv} += 1", [("add_self", False)])
        all_inc = [n for n in iter_own(rl.node) if isinstance(n, ast.AugAssign) and norm(n.target) == lsv]
        offs = find_under(ctx, rl, "add_self = False", [("self._parent", False)]) or find_under(ctx, rl, "add_self = False", [("self._parent is None", True)])
        if sorted(base) == ["self.depth()", "self.depth() + 1"] and not all_inc:
            a1 = find_under(ctx, rl, f"{lsv} = self.depth()", [("add_self", True)])
            a2 = find_under(ctx, rl, f"{lsv} = self.depth() + 1", [("add_self", False)])
            ok = len(a1) == 1 and len(a2) == 1 and len(offs) == 1 and not_after(ctx, rl, a1[0][0], offs[0][0])
        elif base != ["self.depth()"] and any("depth" in b_ for b_ in base):
            ok = None
        else:
            ok = base == ["self.depth()"] and len(incs) == 1 and len(all_inc) == 1 and len(offs) == 1 and not_after(ctx, rl, incs[0][0], offs[0][0])
    T(rl, "left-strip: own depth (+1 without add_self); the system root is never rendered", ok, "branches must be rendered relative to the start node")
    fi = m.func("Node.format_iter")
    ys = [c for c in exit_cases(ctx, fi, ("yield",))]
    lst = [c for c in ys if any(p_ and norm(a_) == "style == 'list'" for a_, p_ in c.conds)]
    oth = [c for c in ys if any((not p_) and norm(a_) == "style == 'list'" for a_, p_ in c.conds)]
    ok = None
    lst_loops = []
    if lst and oth and len(lst) + len(oth) == len(ys):
        lst_loops = [n for n in iter_own(fi.node) if isinstance(n, ast.For) and all(any(c.stmt is x for x in ast.walk(n)) for c in lst)]
        def _walk_flag(lp_):
            """None, or [(value text, condition texts)] for the add_self argument of `self.iterator(add_self=V)`: V is the parameter
            itself, or a local that carries it (`show_self = False if <root> else add_self`)."""
            it_ = lp_.iter
            if not (isinstance(it_, ast.Call) and norm(it_.func) == "self.iterator" and not it_.args and len(it_.keywords) == 1 and it_.keywords[0].arg == "add_self"):
                return None
            v_ = it_.keywords[0].value
            if norm(v_) == "add_self":
                return [("add_self", set())]
            if isinstance(v_, ast.Name):
                out_ = []
                for rv_ in reaching_values(ctx, fi, lp_, v_):
                    st_ = m.parent_of(rv_)
                    out_.append((norm(rv_), cond_texts(path_conds(ctx, fi, st_)) if st_ is not None else set()))
                return out_
            return None

        wf_ = _walk_flag(lst_loops[0]) if len(lst_loops) == 1 else None
        walk_ok = wf_ is not None and all(t_ in ("add_self", "False") for t_, _c in wf_) and any(t_ == "add_self" for t_, _c in wf_)
        ok = None if (len(lst_loops) != 1 or any(isinstance(c.stmt, ast.YieldFrom) for c in lst) or not isinstance(lst_loops[0].iter, ast.Call)) else walk_ok and len(lst) <= 2 \
            and all(norm(c.value) in (f"repr({norm(lst_loops[0].target)})", f"repr.format(node={norm(lst_loops[0].target)})") for c in lst) \
            and all(isinstance(c.stmt, ast.YieldFrom) and "_render_lines" in norm(c.value) for c in oth)
    T(fi, "list style emits the renderings only, once per node of the walk", ok, "style='list' has no prefixes")
    for g in (fi, rl):
        ds = find("repr = $$v", g.node)
        ok = None
        if ds:
            ok = all(norm(e_["$$v"]) == "self.DEFAULT_RENDER_REPR" and any(p_ and norm(a_) == "repr is None" for a_, p_ in path_conds(ctx, g, n_)) for n_, e_ in ds)
        T(g, f"{g.name}: the default rendering is the node class's DEFAULT_RENDER_REPR and replaces only repr=None", ok,
          "repr='' is a legal (empty) rendering; typed nodes have their own default: list style and connector styles must agree")
    for g in (fi, rl):
        bad = []
        for c in exit_cases(ctx, g, ("yield",)):
            for a_, p_ in c.conds:
                t_ = norm(a_)
                if t_ in ("self._children", "self.children", "self.has_children()", "self.is_leaf()") or t_.startswith("len(self._children)") or t_.startswith("len(self.children)"):
                    bad.append(("" if p_ else "not ") + t_)
        T(g, f"{g.name}: a node without children is rendered like any other (no output depends on self having children)", not bad,
          f"lines are produced only under {bad}: format() of a leaf (add_self) or of an empty tree with a title would print nothing")
    rf = [x for x in ast.walk(rl.node) if isinstance(x, ast.Call) and isinstance(x.func, ast.Attribute) and x.func.attr == "format" and norm(x.func.value) == "repr"]
    anyfmt = [x for x in ast.walk(rl.node) if isinstance(x, ast.Call) and isinstance(x.func, ast.Attribute) and x.func.attr == "format"]
    T(rl, "_render_lines formats only the repr template (the prefix is concatenated, never interpreted)", (len(rf) == 1 and len(anyfmt) == 1) if anyfmt else None,
      "custom connector tuples containing braces must be emitted verbatim")
    # add_self is only ever overridden by the system-root guard
    for g in (fi, rl):
        asg = [n for n in iter_own(g.node) if isinstance(n, ast.Assign) and any(norm(t) == "add_self" for t in n.targets)]
        ok = all(norm(a_.value) == "False" and ({"not self._parent"} & cond_texts(path_conds(ctx, g, a_)) or {"self._parent is None"} & cond_texts(path_conds(ctx, g, a_))) for a_ in asg)
        T(g, f"{g.name}: add_self is the caller's choice (only the system root is forced off)", bool(ok),
          "add_self=False on a branch must omit the start node, add_self=True must include it, in every style")
    if lst_loops:
        offs = [n for n in iter_own(fi.node) if isinstance(n, ast.Assign) and norm(n) == "add_self = False"
                and any(p_ and norm(a_) == "style == 'list'" for a_, p_ in path_conds(ctx, fi, n))]
        ok = len(offs) == 1 and not_after(ctx, fi, offs[0], lst_loops[0])
        if not ok and not offs and len(lst_loops) == 1:
            wf2 = _walk_flag(lst_loops[0]) if 'wf_' in dir() else None
            if wf2 and any(t_ == "False" and ({"not self._parent", "self._parent is None"} & c_) for t_, c_ in wf2) \
                    and all(t_ == "False" or {"self._parent", "not self._parent is None", "not (self._parent is None)"} & c_ for t_, c_ in wf2):
                ok = True  # a local flag: False for the system root, the caller's add_self otherwise
        if not ok and not offs and not isinstance(lst_loops[0].iter, ast.Call):
            # the walk is prepared elsewhere: every walk that reaches the loop must switch add_self off for the system root
            vals_ = reaching_values(ctx, fi, lst_loops[0], lst_loops[0].iter)
            calls_ = [v_ for v_ in vals_ if isinstance(v_, ast.Call) and norm(v_.func) == "self.iterator"]
            if calls_ and len(calls_) == len(vals_):
                def off_for_root(c_):
                    kw_ = {k.arg: norm(k.value) for k in c_.keywords}
                    ts_ = cond_texts(path_conds(ctx, fi, c_))
                    return (kw_.get("add_self") == "False" and ("not self._parent" in ts_ or "self._parent is None" in ts_)) or ("self._parent" in ts_ or "not (self._parent is None)" in ts_)
                ok = True if all(off_for_root(c_) for c_ in calls_) else None
            else:
                ok = None
        T(fi, "list style never renders the invisible system root", ok,
          "tree.format(style='list', title=...) would emit an extra line for the system root")
    # render path calls no kind-sensitive override
    seen: Set[Func] = set()
    stack = [m.func("Node._render_lines"), m.func("Node._get_prefix")]
    offenders = []
    while stack:
        g = stack.pop()
        if g in seen:
            continue
        seen.add(g)
        for c in ctx.env.calls_in[g]:
            for h, _ in ctx.env.callees(g, c):
                if h.cls and h.cls.startswith("Typed") and ({"kind", "any_kind"} & set(h.param_names())):
                    offenders.append((g, c, h))
                if h.module in ("node", "typed_tree") and h.name in ("get_parent_list", "depth", "calc_depth", "iterator", "_iter_pre"):
                    stack.append(h)
        stack.extend(g.nested)
    O("node:Node._get_prefix", "the prefix computation calls no kind-sensitive method of TypedNode", not offenders,
      "" if not offenders else f"{offenders[0][0].qualname} calls {norm(offenders[0][1])} -> {offenders[0][2].qualname}: in a typed tree "
      "is-last/first would be judged per kind and the connectors would lie about the shape")
    tf = m.func("Tree.format_iter")
    ok = None
    d_list = find_under(ctx, tf, "title = $$v", [("title is None", True), ("style == 'list'", True)])
    d_else = find_under(ctx, tf, "title = $$v", [("title is None", True), ("style == 'list'", False)])
    ys = exit_cases(ctx, tf, ("yield",))
    tl = [c for c in ys if isinstance(c.stmt, ast.Yield)]
    walk = [c for c in ys if isinstance(c.stmt, ast.YieldFrom)]
    d_one = find_under(ctx, tf, "title = $$v", [("title is None", True)])
    one_form = len(d_one) == 1 and norm(d_one[0][1]["$$v"]) in ("style != 'list'", "not style == 'list'")
    if ((len(d_list) == 1 and len(d_else) == 1) or one_form) and len(walk) == 1 and tl:
        ok = True if one_form else (norm(d_list[0][1]["$$v"]) == "False" and norm(d_else[0][1]["$$v"]) == "True")
        # the title line: the tree's own rendering for True, the caller's text otherwise; only when title is truthy; before the walk
        for c in tl:
            ts = cond_texts(c.conds)
            ok = ok and ("title" in ts or "title is True" in ts) and not_after(ctx, tf, c.stmt, walk[0].stmt)
        vals = {}
        for c in tl:
            if isinstance(c.value, ast.Name):
                # the line is prepared in a local: one case per reaching assignment, with that assignment's conditions
                for n_, e_ in find(f"{c.value.id} = $$v", tf.node):
                    vals[norm(e_["$$v"])] = cond_texts(path_conds(ctx, tf, n_))
            else:
                vals[norm(c.value)] = cond_texts(c.conds)
        if len(vals) == 1:
            ok = ok and list(vals)[0] in ("f'{self}' if title is True else f'{title}'", "str(self) if title is True else str(title)")
        else:
            ok = ok and any("title is True" in t_ and v_ in ("f'{self}'", "str(self)", "'{}'.format(self)") for v_, t_ in vals.items()) and any(
                "not (title is True)" in t_ and v_ in ("f'{title}'", "str(title)", "title", "'{}'.format(title)") for v_, t_ in vals.items())
        wc = walk[0].value
        if isinstance(wc, ast.Call) and norm(resolve_expr(ctx, tf, walk[0].stmt, wc.func)) == "self._root.format_iter":
            kw = {k.arg: norm(resolve_expr(ctx, tf, walk[0].stmt, k.value)) for k in wc.keywords}
            ok = ok and kw.get("add_self") in ("title is not False", "not title is False") and kw.get("repr") == "repr" and kw.get("style") == "style" and not walk[0].conds
        else:
            ok = None
    T(tf, "Tree.format_iter: title line first iff title is set; root walk with add_self = (title is not False)", ok, "title default/False/text must keep the prefixes consistent")
    fm = m.func("Node.format")
    rets = [c for c in exit_cases(ctx, fm, ("return",)) if c.value is not None]
    ok = None
    if len(rets) == 1:
        v_ = resolve_expr(ctx, fm, rets[0].stmt, rets[0].value)
        ok = match("join.join(self.format_iter(repr=repr, style=style, add_self=add_self))", v_) is not None
    T(fm, "format joins the lines with the caller's join string", ok)
    return obs


def P_(text: str) -> ast.AST:
    return ast.parse(text, mode="eval").body


# ------------------------------------------------------------------- C11
@rule("DIFF", ["C11", "C08"], floor=12, section="3.13")
def diff(ctx: Ctx) -> List[Ob]:
    """diff: every classification is written and formatted, REMOVED is set on copies of first-tree children and ADDED on copies of second-tree children, moves only re-label members of those sets, reduce filters on the same meta key, order marks only under `ordered`"""
    obs: List[Ob] = []
    m = ctx.model
    env = ctx.env

    def O(f, label, ok, why="", node=None, props=("C11",)):
        obs.append(ctx.tri("DIFF", list(props), f, label, node, None if ok is None else bool(ok), why))

    dc = {k for k in m.classes["DiffClassification"].consts}
    f = m.func("diff_tree")
    fm = m.func("diff_node_formatter")
    t0, t1 = f.positional_params()[:2]
    written: Dict[str, list] = {}
    for g in [f] + list(f.nested) + [m.func("_copy_children")]:
        for c, e in find("$n.set_meta('dc', DC.$_)", g.node):
            pass
        for c in env.calls_in[g]:
            if isinstance(c.func, ast.Attribute) and c.func.attr == "set_meta" and len(c.args) > 1 and norm(c.args[0]) == "'dc'":
                v = norm(c.args[1])
                if v.startswith("DC.") or v.startswith("DiffClassification."):
                    written.setdefault(v.split(".", 1)[1], []).append((g, c))
        for n in ast.walk(g.node):
            if isinstance(n, ast.Tuple) and len(n.elts) == 2 and norm(n.elts[0]) == "'dc'" and norm(n.elts[1]).startswith("DC."):
                written.setdefault(norm(n.elts[1]).split(".", 1)[1], []).append((g, n))
    dcv = one("$dc = $m.get('dc')", fm.node)
    dn = dcv[1]["$dc"] if dcv else "dc"
    handled = {norm(n.comparators[0]).split(".", 1)[1] for n in iter_own(fm.node)
               if isinstance(n, ast.Compare) and norm(n.left) == dn and norm(n.comparators[0]).startswith("DC.")}
    for member in sorted(dc):
        O(f, f"DiffClassification.{member} is assigned by diff_tree", member in written, "a classification that is never set")
        O(fm, f"DiffClassification.{member} is rendered by diff_node_formatter", member in handled, "unhandled mark")
    # the added / removed id sets are two distinct sets
    sets_ = [n for n in f.body if isinstance(n, ast.Assign) and match("set()", n.value) is not None]
    ok = len(sets_) >= 2 and all(len(n.targets) == 1 for n in sets_)
    names_ = {norm(t) for n in sets_ for t in n.targets}
    shared_ = [n for n in ast.walk(f.node) if isinstance(n, ast.Assign) and isinstance(n.value, ast.Name) and n.value.id in names_]
    if shared_:
        ok = False  # (the canonical form spells `a = b = set()` as `a = set(); b = a`)
    elif not ok and len(sets_) == 1 and len(sets_[0].targets) == 1:
        ok = True  # only the added ids are collected (the removed ones are found through their REMOVED mark): nothing to share
    O(f, "added and removed node ids are collected in two separate sets", ok,
      "`a = b = set()` shares one set: removed nodes are re-classified as if they had been added")
    fcf = m.func("_find_child")
    a0, c0 = fcf.positional_params()[:2]
    ok = has(f"if $c == {c0}:\n    return ($i, $c)", fcf.node) and has(f"enumerate({a0})", fcf.node)
    if not ok:
        # witnessed wrong: the comparison is by identity; anything else (another result type ...) is not read here
        cmps_ = [n for n in ast.walk(fcf.node) if isinstance(n, ast.Compare) and c0 in (norm(n.left), norm(n.comparators[0]))]
        ok = False if any(isinstance(n.ops[0], (ast.Is, ast.IsNot)) for n in cmps_) or not cmps_ else (None if any(isinstance(n.ops[0], ast.Eq) for n in cmps_) else False)
    O(fcf, "_find_child matches peers by node equality (== compares the data objects)", ok,
      "identity of the data objects differs between two separately built trees: identical trees would show REMOVED marks")
    cmp_ = [g for g in f.nested if len(g.positional_params()) == 3]
    if not cmp_:
        raise AnalysisError("diff_tree: the recursive compare(p0, p1, p2) helper was not found")
    cmp_ = cmp_[0]
    res = one("$t2 = Tree($$n)", f.node)
    t2 = res[1]["$t2"] if res else "t2"
    call = [c for c in env.calls_in[f] if isinstance(c.func, ast.Name) and c.func.id == cmp_.name]
    ok = len(call) == 1 and [norm(a) for a in call[0].args] == [f"{t0}._root", f"{t1}._root", f"{t2}._root"]
    O(f, "compare(first root, second root, result root)", ok, "argument order decides which side is 'removed' and which 'added'")
    p0, p1, p2 = cmp_.positional_params()[:3]
    for member, src in (("REMOVED", p0), ("ADDED", p1)):
        sites = [(g, c) for g, c in written.get(member, []) if g is cmp_ and isinstance(c, ast.Call)]
        ok = bool(sites)
        for g, c in sites:
            recv = c.func.value
            r = env.reaching(g, c, recv.id) if isinstance(recv, ast.Name) else None
            vals = r[0] if r else []
            good = False
            for v in vals:
                e = match(f"{p2}.add($x)", v) or match(f"{p2}.add_child($x)", v) or match(f"{p2}.append_child($x)", v)
                if e is not None:
                    for b in env.scope(g).resolve(e["$x"])[1]:
                        if b.kind in ("elem", "elempart") and (f"{src}.children" in norm(b.expr) or f"{src}.children" in norm(_res(ctx, g, c, b.expr))):
                            good = True  # (a local that holds the child list stands for it)
            ok = ok and good
        O(cmp_, f"DC.{member} marks copies of children of the {'first' if src == p0 else 'second'} tree's node", ok,
          f"the mark must sit on result nodes copied from `{src}.children`")
    # one-sided children of the second node: by data_id against a set local to this call
    from .util import cond_texts, path_conds as _pc, reaching_values as _rv

    lp1 = [n for n in iter_own(cmp_.node) if isinstance(n, ast.For) and norm(n.iter) in (f"{p1}.children", f"{p1}._children")]
    ok = None
    if len(lp1) == 1 and isinstance(lp1[0].target, ast.Name):
        c1v = lp1[0].target.id
        adds_ = [c for c in ast.walk(lp1[0]) if isinstance(c, ast.Call) and match(f"{p2}.add({c1v})", c) is not None]
        if len(adds_) == 1:
            tests = [(e_, pol) for e_, pol in _pc(ctx, cmp_, adds_[0]) if isinstance(e_, ast.Compare) and isinstance(e_.ops[0], ast.In) and norm(e_.left) == f"{c1v}._data_id"]
            if len(tests) == 1 and tests[0][1] is False and isinstance(tests[0][0].comparators[0], ast.Name):
                ids = tests[0][0].comparators[0].id
                inits = [n_ for n_, _e in find(f"{ids} = $$v", cmp_.node)]
                grows = find(f"{ids}.add($$x)", cmp_.node)
                # the set is built in this call from the data_ids of the first node's children, before the scan of the second
                if len(inits) == 1:
                    v = match(f"{ids} = $$v", inits[0])["$$v"]
                    comp_ok = isinstance(v, ast.SetComp) and len(v.generators) == 1 and norm(v.generators[0].iter) in (f"{p0}.children", f"{p0}._children") \
                        and norm(v.elt) == f"{norm(v.generators[0].target)}._data_id" and not v.generators[0].ifs
                    inc_ok = norm(v) == "set()" and len(grows) == 1 and any(
                        isinstance(l_, ast.For) and f"{p0}.children" in norm(l_.iter) and any(grows[0][0] is x for x in ast.walk(l_)) and not _pc(ctx, cmp_, grows[0][0])[0:0]
                        and not [a_ for a_, _p in _pc(ctx, cmp_, grows[0][0]) if any(a_ is y or getattr(a_, "_orig", None) is y for y in ast.walk(l_))]
                        and norm(grows[0][1]["$$x"]).endswith("._data_id") for l_ in iter_own(cmp_.node))
                    ok = (comp_ok or inc_ok) and any(inits[0] is s_ for s_ in cmp_.body)
                    O(cmp_, "the set of first-side data_ids is created per compare() call (not shared between recursion levels)", any(inits[0] is s_ for s_ in cmp_.body),
                      "a set shared across the recursion hides second-tree children whose label occurred in an earlier branch")
                else:
                    ok = False
            elif tests:
                ok = False
            else:
                others = [norm(e_) for e_, _p in _pc(ctx, cmp_, adds_[0]) if any(isinstance(x, ast.Name) and x.id == c1v for x in ast.walk(e_))]
                if others:
                    ok = False  # one-sided children are decided by something else than the first node's own children
    obs.append(ctx.tri("DIFF", ["C11"], cmp_, "children only in the second node are found by data_id against the first node's children", None, ok,
                       "added children are those whose data_id the first side lacks"))
    # matched children are compared recursively whatever their position and whatever `ordered` says
    recs_ = [c for c in ast.walk(cmp_.node) if isinstance(c, ast.Call) and isinstance(c.func, ast.Name) and c.func.id == cmp_.name]
    okr_ = None
    if recs_:
        dep = []
        for c in recs_:
            for e_, p_ in _pc(ctx, cmp_, c):
                if any(isinstance(x, ast.Name) and x.id == "ordered" for x in ast.walk(e_)):
                    dep.append(("" if p_ else "not ") + norm(e_))
        # early exits of the round that depend on `ordered` skip the recursion as well
        for lp_ in [n for n in iter_own(cmp_.node) if isinstance(n, ast.For) and any(any(c is x for x in ast.walk(n)) for c in recs_)]:
            for x in ast.walk(lp_):
                if isinstance(x, (ast.Continue, ast.Break, ast.Return)):
                    for e_, p_ in _pc(ctx, cmp_, x):
                        if any(isinstance(y, ast.Name) and y.id == "ordered" for y in ast.walk(e_)):
                            dep.append(f"{type(x).__name__.lower()} under " + ("" if p_ else "not ") + norm(e_))
        okr_ = not dep
    obs.append(ctx.tri("DIFF", ["C11"], cmp_, "matched children are compared recursively independent of `ordered` and of their position", None, okr_,
                       f"the recursion runs only under {dep if recs_ and dep else ''}: children below a matched node that changed its position would be missing from the result"))
    cc_ = m.func("_copy_children")
    rc_ = [c for c in ast.walk(cc_.node) if isinstance(c, ast.Call) and isinstance(c.func, ast.Name) and c.func.id == cc_.name]
    if rc_:
        dep_ = [("" if p_ else "not ") + norm(e_) for c in rc_ for e_, p_ in _pc(ctx, cc_, c) if any(isinstance(x, ast.Name) and x.id == "meta" for x in ast.walk(e_))]
        obs.append(ctx.tri("DIFF", ["C11"], cc_, "_copy_children copies the whole branch (the recursion does not depend on the mark)", None, not dep_,
                           f"recursion under {dep_}: only the marked level and its children are copied, deeper descendants of an added branch are missing"))
    # every round of compare() scans the second node's children for one-sided (added) ones: no `return` in front of that scan
    add_loops = [lp_ for lp_ in ast.walk(cmp_.node) if isinstance(lp_, ast.For) and any(isinstance(x, ast.Attribute) and x.attr == "ADDED" for x in ast.walk(lp_))]
    if add_loops:
        al_ = add_loops[-1]
        early_ = [r_ for r_ in ast.walk(cmp_.node) if isinstance(r_, ast.Return) and not any(r_ is x for x in ast.walk(al_)) and not_after(ctx, cmp_, r_, al_)
                  and not not_after(ctx, cmp_, al_, r_)]
        if not early_:
            # (the canonical form turns `if c: return` + loop into `if not c: loop`)
            gc_ = [(e_, p_) for e_, p_ in _pc(ctx, cmp_, al_) if norm(e_) not in (norm(al_.iter), f"{p1}.children", f"{p1}._children")]
            if gc_:
                early_ = [al_]
        obs.append(ctx.tri("DIFF", ["C11"], cmp_, "the scan for children that only the second tree has is reached in every round of compare()", early_[0] if early_ else None,
                           not early_, f"compare() returns in front of that scan under {[('' if p_ else 'not ') + norm(e_) for e_, p_ in _pc(ctx, cmp_, early_[0])] if early_ else ''}: "
                           "children that exist only in the second tree are neither copied nor marked ADDED"))
    fc = [c for c in ast.walk(cmp_.node) if isinstance(c, ast.Call) and norm(c.func) == "_find_child"]
    O(cmp_, "peers of first-tree children are searched among the second node's children", len(fc) == 1 and norm(_res(ctx, cmp_, fc[0], fc[0].args[0])) == f"{p1}.children")
    om = [c for c in ast.walk(cmp_.node) if isinstance(c, ast.Call) and isinstance(c.func, ast.Attribute) and c.func.attr == "set_meta"
          and len(c.args) > 1 and isinstance(c.args[1], ast.Tuple)]
    ok = len(om) == 1
    if ok:
        lp0 = [n for n in iter_own(cmp_.node) if isinstance(n, ast.For) and f"{p0}.children" in norm(n.iter)]
        e = match(f"for $i0, $c0 in enumerate({p0}.children):\n    ...", lp0[0]) if lp0 else None
        fe = one(f"$i1, $c1 = _find_child({p1}.children, $c0)", cmp_.node, e) if e else None
        if e is not None and fe is None and len(om[0].args[1].elts) == 2 and norm(om[0].args[1].elts[0]) == e["$i0"] and norm(om[0].args[1].elts[1]) != e["$i0"]:
            ok = None  # old index first; the peer's index is carried in another shape than a tuple unpacking
        else:
            ok = e is not None and fe is not None and match("($i0, $i1)", om[0].args[1], {**e, **fe[1]}) is not None
    if ok:
        ok = ok and "ordered" in cond_texts(_pc(ctx, cmp_, om[0]))
    O(cmp_, "order marks carry (old index, new index) and are written only when ordered=True", ok, "order marks carry the true old and new index")
    # move re-classification
    from .util import loop_var_iter, path_conds, resolve_expr

    added_sets = set()
    for n_, e_ in find("$an.add($$c._node_id)", cmp_.node):
        pc_ = m.parent_of(n_)
        while pc_ is not None and not isinstance(getattr(pc_, "body", None), list):
            pc_ = m.parent_of(pc_)
        blk_stmts = stmts_before(ctx, cmp_, m.parent_of(n_)) if isinstance(m.parent_of(n_), ast.stmt) else []
        recv = e_["$$c"]
        if any(has(f"{norm(recv)}.set_meta('dc', DC.ADDED)", st_) for st_ in blk_stmts[:4]):
            added_sets.add(e_["$an"])
    lps = [n for n in iter_own(f.node) if isinstance(n, ast.For) and norm(n.iter) in added_sets]
    ok: Optional[bool] = None
    why = "move loop over the added ids not recognised"
    if len(lps) == 1 and len(added_sets) == 1 and isinstance(lps[0].target, ast.Name):
        lp = lps[0]
        nid = lp.target.id
        here = [c for c in ast.walk(lp) if isinstance(c, ast.Call) and match("$$a.set_meta('dc', DC.MOVED_HERE)", c) is not None]
        to = [c for c in ast.walk(lp) if isinstance(c, ast.Call) and match("$$n.set_meta('dc', DC.MOVED_TO)", c) is not None]
        if len(here) == 1 and len(to) == 1:
            a_ = resolve_expr(ctx, f, here[0], here[0].func.value, keep=[t2])
            ok = norm(a_) == f"{t2}._node_by_id[{nid}]"
            why = f"MOVED_HERE is set on `{norm(a_)}`"
            # ... only if it has clones marked REMOVED ...
            want_list = f"[N for N in {t2}._node_by_id[{nid}].get_clones() if N.get_meta('dc') == DC.REMOVED]"

            def canon_list(x: ast.AST) -> str:
                r_ = resolve_expr(ctx, f, here[0], x, keep=[t2])
                if isinstance(r_, ast.ListComp) and len(r_.generators) == 1 and isinstance(r_.generators[0].target, ast.Name):
                    import re as _re

                    return _re.sub(rf"\b{r_.generators[0].target.id}\b", "N", norm(r_))
                return norm(r_)

            guard = [e for e, pol in path_conds(ctx, f, here[0]) if pol and any(here[0] is not x for x in ()) is False and id(getattr(e, "_orig", e)) in {id(x) for x in ast.walk(lp)}]
            g_ok = any(canon_list(e) == want_list for e in guard)
            # ... and exactly those clones become MOVED_TO
            recv = to[0].func.value
            t_ok = isinstance(recv, ast.Name) and any(canon_list(it) == want_list for it in loop_var_iter(ctx, f, recv.id))
            if ok and not (g_ok and t_ok):
                # the REMOVED test is spelled in a way this clause does not read (a helper, another comparison): undecided,
                # unless the loop does not look at DC.REMOVED at all
                ok = None if any("DC.REMOVED" in norm(x) for x in ast.walk(lp)) else False
                why = f"guard {[canon_list(e) for e in guard]} / MOVED_TO receiver `{norm(recv)}`"
                # witness: MOVED_TO is put on every clone, whatever its mark
                if isinstance(recv, ast.Name) and not t_ok:
                    its_ = [norm(resolve_expr(ctx, f, to[0], it, keep=[t2])) for it in loop_var_iter(ctx, f, recv.id)]
                    to_conds = [norm(e) for e, pol in path_conds(ctx, f, to[0]) if id(getattr(e, "_orig", e)) in {id(x) for x in ast.walk(lp)}]
                    if its_ and all(t_.endswith(".get_clones()") for t_ in its_) and not any("REMOVED" in t_ for t_ in to_conds):
                        ok = False
                        why = f"MOVED_TO is set on every element of `{its_[0]}`: unchanged clones that exist in both trees become moved-away"
                # witness: the mark depends on having *any* clone, not a REMOVED one
                if not g_ok and guard and all(canon_list(e).endswith(".get_clones()") for e in guard):
                    ok = False
                    why = f"MOVED_HERE is set when `{canon_list(guard[0])}` is non-empty: an added node with an untouched clone becomes moved-here without a moved-away partner"
                all_conds = [e for e, pol in path_conds(ctx, f, here[0]) if id(getattr(e, "_orig", e)) in {id(x) for x in ast.walk(lp)}]
                if not all_conds:
                    ok = False  # witness: MOVED_HERE is set on every added node (or once per clone), whatever its clones are marked
                    why = "MOVED_HERE is set unconditionally inside the move loop"
    obs.append(ctx.tri("DIFF", ["C11"], f, "a moved-here node is an added node with a REMOVED clone, which becomes moved-away", None, ok,
                       why + ": moves only re-label members of the added/removed sets"))
    from .util import find_under

    flt = find_under(ctx, f, f"{t2}.filter(predicate=$pr)", [("reduce", True)]) or find_under(ctx, f, f"{t2}.filter($pr)", [("reduce", True)])
    all_flt = find(f"{t2}.filter($$x)", f.node) + find(f"{t2}.filter(predicate=$$x)", f.node)
    ok = None
    extra_ = [("" if p_ else "not ") + norm(e_) for n_, _e in flt for e_, p_ in path_conds(ctx, f, n_) if norm(e_) != "reduce"] if flt else []
    if extra_:
        ok = False  # reduce must filter whenever it is asked for (an unchanged pair reduces to the empty tree)
        obs.append(ctx.tri("DIFF", ["C11", "C08"], f, "reduce=True always filters the result", None, False,
                           f"the filter also depends on {extra_}: with nothing added or removed the unreduced tree comes back"))
    if len(flt) == 1 and len(all_flt) == 1:
        pr = [g for g in f.nested if g.name == flt[0][1]["$pr"]]
        if pr and len(pr[0].positional_params()) == 1:
            rets = [n for n in iter_own(pr[0].node) if isinstance(n, ast.Return) and n.value is not None]
            pn = pr[0].positional_params()[0]
            ok = len(rets) == 1 and (match(f"bool({pn}.get_meta('dc'))", rets[0].value) is not None or match(f"{pn}.get_meta('dc')", rets[0].value) is not None)
    elif all_flt and not flt:
        ok = False
    obs.append(ctx.tri("DIFF", ["C11", "C08"], f, "reduce filters the result on the truthiness of the 'dc' mark (order tuples included)", None, ok,
                       "reduce keeps exactly the marked nodes and their ancestors"))
    O(f, "the result tree is returned", all(n.value is not None and norm(n.value) == t2 for n in iter_own(f.node) if isinstance(n, ast.Return)) and any(isinstance(n, ast.Return) for n in iter_own(f.node)))
    return obs
