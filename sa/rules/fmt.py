"""File-format rules: writer/reader key agreement, index base, maps, clone
references, header validation, dict form (DESIGN 3.11; C05, C12, C14, C19)."""
from __future__ import annotations

import ast
import re
from typing import Dict, List, Optional, Set, Tuple

from ..core import Ctx, Ob, rule
from ..model import AnalysisError, Func, iter_own, norm


def _str_keys_written(f: Func) -> Set[str]:
    """Constant string keys stored into dicts: d["k"] = .., {"k": ..}, d.update({"k": ..})"""
    out: Set[str] = set()
    for n in iter_own(f.node):
        if isinstance(n, ast.Assign):
            for t in n.targets:
                if isinstance(t, ast.Subscript) and isinstance(t.slice, ast.Constant) and isinstance(t.slice.value, str):
                    out.add(t.slice.value)
        if isinstance(n, ast.Dict):
            for k in n.keys:
                if isinstance(k, ast.Constant) and isinstance(k.value, str):
                    out.add(k.value)
    return out


def _str_keys_read(f: Func) -> Set[str]:
    """Constant string keys read: d["k"] (load), d.get("k"), "k" in d"""
    out: Set[str] = set()
    for n in iter_own(f.node):
        if isinstance(n, ast.Subscript) and isinstance(n.ctx, ast.Load) and isinstance(n.slice, ast.Constant) and isinstance(n.slice.value, str):
            out.add(n.slice.value)
        if isinstance(n, ast.Call) and isinstance(n.func, ast.Attribute) and n.func.attr in ("get", "pop") and n.args \
                and isinstance(n.args[0], ast.Constant) and isinstance(n.args[0].value, str):
            out.add(n.args[0].value)
        if isinstance(n, ast.Compare) and isinstance(n.left, ast.Constant) and isinstance(n.left.value, str) \
                and any(isinstance(o, (ast.In, ast.NotIn)) for o in n.ops):
            out.add(n.left.value)
    return out


def _const_dict(e: Optional[ast.AST]) -> Optional[dict]:
    try:
        v = ast.literal_eval(e) if e is not None else None
    except Exception:
        return None
    return v if isinstance(v, dict) else None


@rule("KEYS", ["C05", "C12", "C14", "C19"], floor=12, section="3.11")
def keys(ctx: Ctx) -> List[Ob]:
    """every key the writers emit is consumed by the matching reader (entry keys str/data_id/kind, mapper keys of the in-package mappers, structural keys meta/nodes/$key_map/$value_map, dict-form keys) and the header keys are the documented ones"""
    obs: List[Ob] = []
    m = ctx.model
    # --- entry keys of the native format
    pairs = [
        ("Node._make_list_entry", ["Tree._from_list", "Tree.deserialize_mapper"], ["C05", "C12"], "plain Tree"),
        ("TypedNode._make_list_entry", ["TypedTree._from_list", "TypedTree.deserialize_mapper"], ["C05", "C12"], "TypedTree"),
    ]
    for wq, rqs, props, what in pairs:
        w = m.func(wq)
        wk = _str_keys_written(w)
        rk: Set[str] = set()
        for rq in rqs:
            rk |= _str_keys_read(m.func(rq))
        if not wk:
            raise AnalysisError(f"{wq}: no entry keys found")
        for k in sorted(wk):
            ok = k in rk
            obs.append(ctx.ob("KEYS", props, w, f"entry key '{k}' written by {wq} is read by the {what} loader", None, ok,
                              "" if ok else f"'{k}' is emitted but neither {' nor '.join(rqs)} consumes it: such an entry cannot be loaded "
                              f"by a {what} without a user mapper (NotImplementedError)"))
    # --- FileSystemTree mappers
    ws, rs = m.func("FileSystemTree.serialize_mapper"), m.func("FileSystemTree.deserialize_mapper")
    wk, rk = _str_keys_written(ws), _str_keys_read(rs)
    for k in sorted(wk | rk):
        ok = k in wk and k in rk
        obs.append(ctx.ob("KEYS", ["C19", "C05"], ws, f"file-system entry key '{k}' is written and read", None, ok,
                          "" if ok else f"'{k}' is {'written but not read' if k in wk else 'read but never written'} by the FileSystemTree mappers"))
    # --- DictWrapper mappers are inverse by construction (dict copy / cls(**data)): nothing keyed
    # --- structural keys of the document
    sv, ld = m.func("Tree.save"), m.func("Tree.load")
    wk, rk = _str_keys_written(sv), _str_keys_read(ld)
    for k in ("meta", "nodes", "$generator", "$key_map", "$value_map"):
        ok = k in wk and k in rk
        obs.append(ctx.ob("KEYS", ["C05", "C12"], sv, f"document key '{k}' is written by save and read by load", None, ok,
                          "" if ok else f"'{k}': {'written' if k in wk else 'not written'} / {'read' if k in rk else 'not read'}"))
    ok = "$format_version" in wk
    obs.append(ctx.ob("KEYS", ["C12"], sv, "header carries '$format_version'", None, ok, "" if ok else "the documented header names generator and format version"))
    extra = {k for k in wk if k.startswith("$")} - {"$generator", "$format_version", "$key_map", "$value_map"}
    obs.append(ctx.ob("KEYS", ["C12"], sv, "no undocumented '$' header key", None, not extra, "" if not extra else f"{sorted(extra)}"))
    # documentation oracle
    doc = ctx.doc_text("ug_serialize.rst")
    doc_keys = set(re.findall(r'"(\$[a-z_]+)"', doc)) | ({"meta"} if '"meta"' in doc else set()) | ({"nodes"} if '"nodes"' in doc else set())
    for k in sorted(doc_keys):
        ok = k in wk
        obs.append(ctx.ob("KEYS", ["C12"], "docs:ug_serialize.rst", f"documented key '{k}' is what save() writes", None, ok,
                          "" if ok else f"the user guide's examples use '{k}', save() does not write it (a consistent rename of writer and reader still breaks documented files)"))
    for k in sorted(doc_keys):
        if k in ("$format_version",):
            continue
        ok = k in rk
        obs.append(ctx.ob("KEYS", ["C12"], "docs:ug_serialize.rst", f"documented key '{k}' is what load() reads", None, ok,
                          "" if ok else f"documents written to the documented layout use '{k}', load() does not read it"))
    # value of $format_version / generator
    hdr = None
    for n in iter_own(sv.node):
        if isinstance(n, ast.Dict) and any(isinstance(k, ast.Constant) and k.value == "$generator" for k in n.keys):
            hdr = n
    if hdr is None:
        raise AnalysisError("Tree.save: header literal not found")
    hv = {k.value: v for k, v in zip(hdr.keys, hdr.values) if isinstance(k, ast.Constant)}
    ok = norm(hv.get("$format_version")) == "FILE_FORMAT_VERSION" and "nutree/" in norm(hv.get("$generator")) and "get_version()" in norm(hv.get("$generator"))
    obs.append(ctx.ob("KEYS", ["C12"], sv, "header values: generator 'nutree/<version>', format version constant", hdr, ok,
                      "" if ok else "load() recognises files by the 'nutree/' generator tag"))
    # --- dict form
    td, fd = m.func("Node.to_dict"), m.func("Node.from_dict")
    wk, rk = _str_keys_written(td), _str_keys_read(fd)
    for k in sorted(wk):
        ok = k in rk
        obs.append(ctx.ob("KEYS", ["C14"], td, f"dict-form key '{k}' written by to_dict is read by from_dict", None, ok,
                          "" if ok else f"'{k}' would be lost on the way back"))
    for k in ("data", "data_id", "children"):
        ok = k in wk
        obs.append(ctx.ob("KEYS", ["C14"], td, f"to_dict emits '{k}'", None, ok, "" if ok else f"the documented dict form has '{k}'"))
    return obs


@rule("FMT", ["C05", "C12", "C14"], floor=20, section="3.11")
def fmt(ctx: Ctx) -> List[Ob]:
    """layout: 1-based entry indices with 0 for the root in writer and both readers; the maps written to the header are the ones applied; clone references only under equal kind and keyed like is_clone(); key/value compression mirrored; load() validates the header; save zips unless compression is False and flushes the text wrapper"""
    obs: List[Ob] = []
    m = ctx.model
    env = ctx.env
    # ---- FMT-IDX
    w = m.func("Node.to_list_iter")
    en = [n for n in iter_own(w.node) if isinstance(n, ast.For) and isinstance(n.iter, ast.Call) and norm(n.iter.func) == "enumerate"]
    ok = len(en) == 1 and len(en[0].iter.args) == 2 and norm(en[0].iter.args[1]) == "1" and norm(en[0].iter.args[0]) == "self"
    obs.append(ctx.ob("FMT", ["C12", "C05"], w, "writer numbers entries with enumerate(self, 1) in pre-order", en[0] if en else None, ok,
                      "" if ok else "entries are numbered from 1 in the default (pre-order) iteration; 0 is reserved for the root"))
    roots = [n for n in iter_own(w.node) if isinstance(n, ast.Assign) and isinstance(n.value, ast.Dict) and len(n.value.keys) == 1
             and norm(n.value.keys[0]) == "self._node_id"]
    ok = len(roots) == 1 and norm(roots[0].value.values[0]) == "0"
    obs.append(ctx.ob("FMT", ["C12", "C05"], w, "writer maps the start node to parent index 0", roots[0] if roots else None, ok,
                      "" if ok else "top-level entries must name parent 0"))
    if en:
        lp = en[0]
        idx_var = norm(lp.target.elts[0]) if isinstance(lp.target, ast.Tuple) else "?"
        node_var = norm(lp.target.elts[1]) if isinstance(lp.target, ast.Tuple) else "?"
        stores = [st for st in ast.walk(lp) if isinstance(st, ast.Assign) and norm(st.targets[0]).startswith("parent_id_map[")]
        ok = len(stores) == 1 and norm(stores[0].value) == idx_var and norm(stores[0].targets[0]) in (f"parent_id_map[{node_var}._node_id]", "parent_id_map[node_id]")
        obs.append(ctx.ob("FMT", ["C12", "C05"], w, "a parent's own entry index is recorded under its node_id", None, ok,
                          "" if ok else "children look their parent up by node_id and must find the parent's entry position"))
        look = [st for st in ast.walk(lp) if isinstance(st, ast.Assign) and isinstance(st.value, ast.Subscript) and norm(st.value.value) == "parent_id_map"]
        ok2 = len(look) == 1 and norm(look[0].value.slice) in (f"{node_var}._parent._node_id", "parent_id")
        if ok2 and norm(look[0].value.slice) == "parent_id":
            src = [st for st in ast.walk(lp) if isinstance(st, ast.Assign) and norm(st.targets[0]) == "parent_id"]
            ok2 = len(src) == 1 and norm(src[0].value) == f"{node_var}._parent._node_id"
        obs.append(ctx.ob("FMT", ["C12", "C05"], w, "each entry names its parent's recorded index", None, ok2,
                          "" if ok2 else "the parent reference must be the index recorded for node._parent"))
        if stores and look:
            ok3 = stores[0].lineno < look[0].lineno
            obs.append(ctx.ob("FMT", ["C12"], w, "the index is recorded before it can be looked up (pre-order: parents first)", None, ok3, ""))
        # clone reference only under kind equality, and yields the first occurrence's index
        ys = [x for x in ast.walk(lp) if isinstance(x, ast.Yield)]
        ref = [y for y in ys if isinstance(y.value, ast.Tuple) and norm(y.value.elts[1]) in ("clone_idx",)]
        okc = len(ref) == 1
        if okc:
            p = m.parent_of(m.parent_of(ref[0]))
            okc = isinstance(p, ast.If) and norm(p.test) in ("node_kind == clone_kind", "clone_kind == node_kind")
        obs.append(ctx.ob("FMT", ["C12", "C05"], w, "a clone is stored as a bare index only when its kind equals the first occurrence's", None, okc,
                          "" if okc else "clones of differing kind must be written out in full"))
        okc2 = len(ref) == 1 and any(isinstance(st, ast.Continue) for st in ast.walk(m.parent_of(m.parent_of(ref[0]))))
        obs.append(ctx.ob("FMT", ["C12"], w, "after a clone reference the entry is not written a second time", None, okc2, "" if okc2 else "missing `continue`"))
        note = [st for st in ast.walk(lp) if isinstance(st, ast.Assign) and norm(st.targets[0]).startswith("clone_idx_and_kind_map[")]
        okn = len(note) == 1 and norm(note[0].value) == f"({idx_var}, node_kind)"
        obs.append(ctx.ob("FMT", ["C12", "C05"], w, "the first occurrence of a clone records (its index, its kind)", None, okn, "" if okn else "later occurrences refer to this index"))
        # FMT-CLONEKEY: the clone map is keyed like is_clone(): by node._data_id
        keyname = None
        if note:
            keyname = norm(note[0].targets[0].slice)
        okk = False
        if keyname:
            vals = [st for st in ast.walk(lp) if isinstance(st, ast.Assign) and norm(st.targets[0]) == keyname]
            okk = keyname in (f"{node_var}._data_id", f"{node_var}.data_id") or (len(vals) == 1 and norm(vals[0].value) in (f"{node_var}._data_id", f"{node_var}.data_id"))
        obs.append(ctx.ob("FMT", ["C05", "C12"], w, "clone references are keyed by node._data_id (like is_clone())", None, okk,
                          "" if okk else f"the clone map is keyed by `{keyname}` = a data_id recomputed from the data: nodes that share data "
                          "but carry different explicit data_ids are merged into one clone group on reload (and is_clone() groups by _data_id)"))
        # mapper only for dict entries; compression after mapper
        mp = [x for x in ast.walk(lp) if isinstance(x, ast.Call) and norm(x.func) == "call_mapper"]
        cp = [x for x in ast.walk(lp) if isinstance(x, ast.Call) and norm(x.func).endswith("_compress_entry")]
        okm = len(mp) == 1 and len(cp) == 1 and mp[0].lineno < cp[0].lineno and [norm(a) for a in cp[0].args][1:] == ["key_map", "value_dict_map"]
        obs.append(ctx.ob("FMT", ["C05", "C12"], w, "mapper first, then key/value compression with the caller's maps", None, okm,
                          "" if okm else "keys are shortened exactly as the header's maps declare, after the mapper produced them"))
    for q in ("Tree._from_list", "TypedTree._from_list"):
        r = m.func(q)
        en = [n for n in iter_own(r.node) if isinstance(n, ast.For) and isinstance(n.iter, ast.Call) and norm(n.iter.func) == "enumerate"]
        ok = len(en) == 1 and len(en[0].iter.args) == 2 and norm(en[0].iter.args[1]) == "1"
        obs.append(ctx.ob("FMT", ["C12", "C05"], r, "reader numbers entries from 1", en[0] if en else None, ok, "" if ok else "reader and writer must count alike"))
        roots = [n for n in iter_own(r.node) if isinstance(n, (ast.Assign, ast.AnnAssign)) and isinstance(n.value, ast.Dict) and len(n.value.keys) == 1
                 and norm(n.value.keys[0]) == "0"]
        ok = len(roots) == 1 and norm(roots[0].value.values[0]) in ("tree._root", "tree.system_root")
        obs.append(ctx.ob("FMT", ["C12", "C05"], r, "reader maps index 0 to the root", None, ok, "" if ok else "parent index 0 is the (invisible) root"))
        if en:
            lp = en[0]
            iv = norm(lp.target.elts[0]) if isinstance(lp.target, ast.Tuple) else "?"
            st = [s for s in lp.body if isinstance(s, ast.Assign) and norm(s.targets[0]) == f"node_idx_map[{iv}]"]
            ok = len(st) == 1 and lp.body[-1] is st[0]
            obs.append(ctx.ob("FMT", ["C12", "C05"], r, "every created node is recorded under its entry index", None, ok, "" if ok else "later entries refer to earlier ones by position"))
            kinds = {"str": False, "int": False, "dict": False}
            for s in ast.walk(lp):
                if isinstance(s, ast.If):
                    t = norm(s.test)
                    if t == "isinstance(data, str)":
                        kinds["str"] = True
                    if t == "isinstance(data, int)":
                        kinds["int"] = True
                        refadd = [x for x in ast.walk(s) if isinstance(x, ast.Call) and isinstance(x.func, ast.Attribute) and x.func.attr in ("add", "add_child")]
                        okr = bool(refadd) and norm(refadd[0].args[0]) == "first_clone" and any(k.arg == "data_id" and "first_clone" in norm(k.value) for k in refadd[0].keywords)
                        src = [x for x in s.body if isinstance(x, ast.Assign) and norm(x.targets[0]) == "first_clone"]
                        okr = okr and len(src) == 1 and norm(src[0].value) == "node_idx_map[data]"
                        obs.append(ctx.ob("FMT", ["C12", "C05"], r, "a bare index re-creates a clone of the node at that position, under its data_id", s, okr,
                                          "" if okr else "clone references must resolve through node_idx_map and keep the data_id"))
                        if q.startswith("Typed"):
                            okk = bool(refadd) and any(k.arg == "kind" and "first_clone.kind" in norm(k.value) for k in refadd[0].keywords)
                            obs.append(ctx.ob("FMT", ["C05"], r, "a typed clone reference keeps the first occurrence's kind", s, okk, "" if okk else "kind lost on reload"))
            last_else = True
            for k, v in kinds.items():
                if k == "dict":
                    continue
                obs.append(ctx.ob("FMT", ["C12"], r, f"reader handles {k} entries", None, v, "" if v else f"{k} entries of the documented layout are not handled"))
    # ---- FMT-MAP (save)
    sv = m.func("Tree.save")
    for key, var in (("$key_map", "key_map"), ("$value_map", "value_map")):
        st = [n for n in iter_own(sv.node) if isinstance(n, ast.Assign) and norm(n.targets[0]) == f"header['{key}']"]
        ok = len(st) == 1 and norm(st[0].value) == var
        calls = [c for c in env.calls_in[sv] if isinstance(c.func, ast.Attribute) and c.func.attr == "to_list_iter"]
        ok = ok and len(calls) == 1 and any(k.arg == var and norm(k.value) == var for k in calls[0].keywords)
        obs.append(ctx.ob("FMT", ["C12", "C05"], sv, f"the {var} written to the header is the one applied to the entries", None, ok,
                          "" if ok else "a header map that differs from the applied one makes the file unreadable"))
        p = m.parent_of(st[0]) if st else None
        okc = isinstance(p, ast.If) and norm(p.test) == var
        obs.append(ctx.ob("FMT", ["C12"], sv, f"header['{key}'] only when the map is in use", None, okc, "" if okc else ""))
    for var, dflt in (("key_map", "self.DEFAULT_KEY_MAP"), ("value_map", "self.DEFAULT_VALUE_MAP")):
        ifs = [n for n in iter_own(sv.node) if isinstance(n, ast.If) and norm(n.test) == f"{var} is True"]
        ok = len(ifs) == 1 and norm(ifs[0].body[0]) == f"{var} = {dflt}" and len(ifs[0].orelse) == 1 and isinstance(ifs[0].orelse[0], ast.If) \
            and norm(ifs[0].orelse[0].test) == f"{var} is False" and norm(ifs[0].orelse[0].body[0]) == f"{var} = {{}}"
        obs.append(ctx.ob("FMT", ["C05"], sv, f"{var}: True -> class default, False -> off, dict -> as given", None, ok, "" if ok else "option normalisation changed"))
    # meta is handed back
    upd = [n for n in iter_own(sv.node) if isinstance(n, ast.Call) and norm(n.func) == "header.update" and norm(n.args[0]) == "meta"]
    obs.append(ctx.ob("FMT", ["C05", "C12"], sv, "user metadata goes into the header", None, len(upd) == 1, "" if upd else "save(meta=) must be stored"))
    dump = [c for c in env.calls_in[sv] if norm(c.func) == "json.dump"]
    ok = len(dump) == 1 and norm(dump[0].args[0]) == "res" and norm(dump[0].args[1]) == "target"
    obs.append(ctx.ob("FMT", ["C05"], sv, "the document is dumped to the target stream", None, ok, ""))
    # ---- load: header validation + handing back meta + uncompress before _from_list
    ld = m.func("Tree.load")
    rz = [n for n in iter_own(ld.node) if isinstance(n, ast.If) and any(isinstance(x, ast.Raise) for x in n.body)]
    ok = False
    if rz:
        t = norm(rz[0].test)
        need = ["isinstance(obj, dict)", "'meta' not in obj", "'nodes' not in obj", "'$generator' not in obj['meta']", "'nutree/' not in"]
        ok = all(x in t for x in need) and isinstance(rz[0].test, ast.BoolOp) and isinstance(rz[0].test.op, ast.Or)
    obs.append(ctx.ob("FMT", ["C12"], ld, "load() rejects JSON without the nutree header", rz[0] if rz else None, ok,
                      "" if ok else "non-dict documents, missing meta/nodes/$generator or a foreign generator must be refused"))
    fm = [c for c in env.calls_in[ld] if norm(c.func) == "file_meta.update"]
    ok = len(fm) == 1 and norm(fm[0].args[0]) == "obj['meta']"
    obs.append(ctx.ob("FMT", ["C05", "C12"], ld, "load() hands the stored header back through file_meta", None, ok, "" if ok else "file metadata must be returned"))
    inv = [n for n in iter_own(ld.node) if isinstance(n, ast.Assign) and isinstance(n.value, ast.DictComp)]
    ok = len(inv) == 1 and norm(inv[0].value.key) == "v" and norm(inv[0].value.value) == "k" and "key_map.items()" in norm(inv[0].value)
    obs.append(ctx.ob("FMT", ["C05", "C12"], ld, "the key map is inverted for reading", None, ok, "" if ok else "short keys must be mapped back to long keys"))
    un = [c for c in env.calls_in[ld] if norm(c.func).endswith("_uncompress_entry")]
    fl = [c for c in env.calls_in[ld] if norm(c.func).endswith("_from_list")]
    ok = len(un) == 1 and len(fl) == 1 and un[0].lineno < fl[0].lineno and [norm(a) for a in un[0].args] == ["data", "inverse_key_map", "value_map"]
    obs.append(ctx.ob("FMT", ["C05", "C12"], ld, "entries are expanded (keys, values) before nodes are built", None, ok, "" if ok else "compressed entries would reach the mapper unexpanded"))
    # ---- compress / uncompress mirrored
    for q, mapname, vm_key_is_mapped in (("Node._compress_entry", "key_map", False), ("Tree._uncompress_entry", "inverse_key_map", True)):
        f = m.func(q)
        lps = [n for n in iter_own(f.node) if isinstance(n, ast.For) and isinstance(n.target, ast.Tuple) and len(n.target.elts) == 2]
        if len(lps) != 1:
            raise AnalysisError(f"{q}: item loop not recognised")
        lp = lps[0]
        kv, vv = norm(lp.target.elts[0]), norm(lp.target.elts[1])
        okcopy = isinstance(lp.iter, ast.Call) and norm(lp.iter.func) in ("list", "tuple") and norm(lp.iter.args[0]).endswith(".items()")
        obs.append(ctx.ob("FMT", ["C05", "C12"], f, f"{q}: iterates a copy of the items while renaming keys", lp, okcopy,
                          "" if okcopy else "renaming keys changes the dict during iteration"))
        mapped = [st for st in ast.walk(lp) if isinstance(st, ast.Assign) and isinstance(st.value, ast.Subscript)
                  and norm(st.value.value) == mapname and norm(st.value.slice) == kv]
        ok = len(mapped) == 1
        mv = norm(mapped[0].targets[0]) if ok else "?"
        ren = [st for st in ast.walk(lp) if isinstance(st, ast.Assign) and norm(st.value) == f"data.pop({kv})"]
        ok = ok and len(ren) == 1 and norm(ren[0].targets[0]) == f"data[{mv}]"
        ident = [st for st in ast.walk(lp) if isinstance(st, ast.Assign) and norm(st.targets[0]) == mv and norm(st.value) == kv]
        ok = ok and len(ident) == 1
        obs.append(ctx.ob("FMT", ["C05", "C12"], f, f"{q}: a mapped key replaces the entry (data[new] = data.pop(old)); unmapped keys stay", lp, ok,
                          "" if ok else "keys must be renamed exactly as the map declares"))
        vms = [st for st in ast.walk(lp) if isinstance(st, ast.Assign) and isinstance(st.value, ast.Subscript)
               and isinstance(st.value.value, ast.Subscript) and norm(st.value.value.value) == "value_map"]
        want_key = mv if vm_key_is_mapped else kv
        ok = len(vms) == 1 and norm(vms[0].value.value.slice) == want_key and norm(vms[0].value.slice) == vv and norm(vms[0].targets[0]) == f"data[{mv}]"
        if ok:
            p = m.parent_of(vms[0])
            ok = isinstance(p, ast.If) and f"{want_key} in value_map" in norm(p.test)
        obs.append(ctx.ob("FMT", ["C05", "C12"], f, f"{q}: values are translated through value_map under the long key `{want_key}`", lp, ok,
                          "" if ok else "value_map is keyed by the unmapped (long) key name on both sides (as documented); writer and reader must mirror"))
    # ---- zip streams
    oc = m.func("open_as_compressed_output_stream")
    ifs = [n for n in oc.body if isinstance(n, ast.If)]
    ok = len(ifs) == 1 and norm(ifs[0].test) == "compression is False"
    obs.append(ctx.ob("FMT", ["C05"], oc, "only `compression is False` writes plain JSON (0 == ZIP_STORED still zips)", None, ok,
                      "" if ok else "a truthiness test would treat zipfile.ZIP_STORED (0) as 'no compression'"))
    ys = [n for n in iter_own(oc.node) if isinstance(n, ast.Expr) and isinstance(n.value, ast.Yield) and norm(n.value.value) == "wrapper"]
    ok = False
    if ys:
        blk = m.parent_of(ys[0])
        body = getattr(blk, "body", [])
        i = body.index(ys[0]) if ys[0] in body else -1
        ok = i >= 0 and i + 1 < len(body) and norm(body[i + 1]) == "wrapper.flush()"
    obs.append(ctx.ob("FMT", ["C05"], oc, "the text wrapper is flushed before the zip member closes", None, ok, "" if ok else "buffered JSON would be lost: truncated file"))
    zf = [c for c in env.calls_in[oc] if norm(c.func) == "zipfile.ZipFile"]
    ok = len(zf) == 1 and any(k.arg == "compression" and norm(k.value) == "compression" for k in zf[0].keywords)
    obs.append(ctx.ob("FMT", ["C05"], oc, "the requested zip method is passed to ZipFile", None, ok, "" if ok else "compression option ignored"))
    sv_open = [c for c in env.calls_in[sv] if norm(c.func) == "open_as_compressed_output_stream"]
    ok = len(sv_open) == 1 and any(k.arg == "compression" and norm(k.value) == "compression" for k in sv_open[0].keywords)
    obs.append(ctx.ob("FMT", ["C05"], sv, "save(path) opens the target with the caller's compression", None, ok, "" if ok else "compression option ignored"))
    ld_open = [c for c in env.calls_in[ld] if norm(c.func) == "open_as_uncompressed_input_stream"]
    ok = len(ld_open) == 1 and any(k.arg == "auto_uncompress" and norm(k.value) == "auto_uncompress" for k in ld_open[0].keywords)
    obs.append(ctx.ob("FMT", ["C05"], ld, "load(path) opens the source with the caller's auto_uncompress", None, ok, ""))
    # ---- KEYMAP-INJ
    for cn in m.subclasses("Tree"):
        km = _const_dict(m.class_const(cn, "DEFAULT_KEY_MAP"))
        if km is None:
            raise AnalysisError(f"{cn}.DEFAULT_KEY_MAP is not a literal dict")
        inj = len(set(km.values())) == len(km)
        obs.append(ctx.ob("FMT", ["C05", "C12"], f"{m.module_of_cls(cn)}:{cn}", f"{cn}.DEFAULT_KEY_MAP is injective", None, inj,
                          "" if inj else "two long keys share a short key: the inverse map loses one"))
        sm = m.lookup(cn, "serialize_mapper")
        emitted = _str_keys_written(sm) if sm is not None else set()
        clash = set(km.values()) & (emitted - set(km.keys()))
        obs.append(ctx.ob("FMT", ["C05", "C19"], f"{m.module_of_cls(cn)}:{cn}", f"{cn}: default short keys do not collide with keys of its serialize_mapper", None, not clash,
                          "" if not clash else f"short key(s) {sorted(clash)} are also emitted by the mapper: on load they are renamed to the long key"))
    ok = _const_dict(m.class_const("Tree", "DEFAULT_KEY_MAP")) == {"data_id": "i", "str": "s"} and \
        _const_dict(m.class_const("TypedTree", "DEFAULT_KEY_MAP")) == {"data_id": "i", "str": "s", "kind": "k"}
    obs.append(ctx.ob("FMT", ["C12"], "tree:Tree", "default key maps equal the documented ones", None, ok, "" if ok else "the user guide documents the default maps"))
    # ---- TypedTree.save: kind value map
    ts = m.func("TypedTree.save")
    ups = [c for c in ast.walk(ts.node) if isinstance(c, ast.Call) and isinstance(c.func, ast.Attribute) and c.func.attr == "update"
           and c.args and isinstance(c.args[0], ast.Dict) and any(isinstance(k, ast.Constant) and k.value == "kind" for k in c.args[0].keys)]
    sets = [st for st in ast.walk(ts.node) if isinstance(st, ast.Assign) and isinstance(st.targets[0], ast.Subscript)
            and isinstance(st.targets[0].slice, ast.Constant) and st.targets[0].slice.value == "kind"]
    ok = len(ups) + len(sets) == 1
    if ok:
        node_ = ups[0] if ups else sets[0]
        p = m.parent_of(node_)
        while p is not None and not isinstance(p, ast.If):
            p = m.parent_of(p)
        ok = isinstance(p, ast.If) and "'kind' not in" in norm(p.test)
    obs.append(ctx.ob("FMT", ["C05"], ts, "typed save adds the list of kinds to the value map unless the caller supplied one", None, ok,
                      "" if ok else "kind indices written to the entries must refer to a list stored in the header"))
    loads = [x for x in ast.walk(ts.node) if isinstance(x, ast.Attribute) and x.attr in ("DEFAULT_VALUE_MAP", "DEFAULT_KEY_MAP")]
    ok = all(isinstance(m.parent_of(x), ast.Attribute) and m.parent_of(x).attr == "copy" for x in loads) and bool(loads)
    obs.append(ctx.ob("FMT", ["C05"], ts, "the class default map is copied before the kind list is added", None, ok,
                      "" if ok else "updating the class attribute leaks one tree's kinds into every later save"))
    cnt = [lp for lp in ast.walk(ts.node) if isinstance(lp, ast.For) and any(".kind" in norm(st) for st in lp.body)]
    ok = len(cnt) == 1 and norm(cnt[0].iter) in ("self", "self.iterator()", "self._root", "self.system_root")
    obs.append(ctx.ob("FMT", ["C05"], ts, "the kind list is collected from all nodes of the tree", None, ok, "" if ok else "a kind missing from the list cannot be encoded"))
    # ---- dict form: recursion in order
    td, fd = m.func("Node.to_dict"), m.func("Node.from_dict")
    lps = [n for n in iter_own(td.node) if isinstance(n, ast.For) and norm(n.iter) in ("self._children", "self.children")]
    ok = len(lps) == 1 and len(lps[0].body) == 1 and norm(lps[0].body[0]).endswith(f".append({norm(lps[0].target)}.to_dict(mapper=mapper))")
    if ok:
        acc = norm(lps[0].body[0]).split(".append(")[0]
        ok = any(isinstance(st, ast.Assign) and "res['children']" in [norm(t) for t in st.targets] and acc in [norm(t) for t in st.targets] for st in ast.walk(td.node))
    obs.append(ctx.ob("FMT", ["C14"], td, "to_dict nests the children's dicts in child order", None, ok, "" if ok else "the nested form mirrors the tree"))
    cid = [n for n in iter_own(td.node) if isinstance(n, ast.If) and "_data_id" in norm(n.test) and "hash(" in norm(n.test)]
    ok = len(cid) == 1 and norm(cid[0].body[0]) == "res['data_id'] = self._data_id"
    obs.append(ctx.ob("FMT", ["C14"], td, "to_dict stores data_id when it is not the default", None, ok, "" if ok else "custom ids must survive"))
    lps = [n for n in iter_own(fd.node) if isinstance(n, ast.For) and norm(n.iter) == "obj" and isinstance(n.target, ast.Name)]
    ok = len(lps) == 1
    if ok:
        lp = lps[0]
        iv = lp.target.id
        adds = [c for c in ast.walk(lp) if isinstance(c, ast.Call) and isinstance(c.func, ast.Attribute) and c.func.attr in ("append_child", "add_child", "add")
                and norm(c.func.value) == "self"]
        recs = [c for c in ast.walk(lp) if isinstance(c, ast.Call) and isinstance(c.func, ast.Attribute) and c.func.attr == "from_dict"]
        ok = len(adds) == 1 and len(recs) == 1 and any(k.arg == "data_id" and norm(k.value) == f"{iv}.get('data_id')" for k in adds[0].keywords)
        ok = ok and not any(k.arg == "before" for k in adds[0].keywords) and any(k.arg == "mapper" and norm(k.value) == "mapper" for k in recs[0].keywords)
        if ok:
            tgt = [st for st in ast.walk(lp) if isinstance(st, ast.Assign) and st.value is adds[0]]
            ok = len(tgt) == 1 and norm(recs[0].func.value) == norm(tgt[0].targets[0])
            src = [st for st in ast.walk(lp) if isinstance(st, ast.Assign) and norm(st.targets[0]) == norm(recs[0].args[0])]
            ok = ok and len(src) == 1 and norm(src[0].value) == f"{iv}.get('children')"
    obs.append(ctx.ob("FMT", ["C14"], fd, "from_dict appends one child per item in order, passing its data_id, and recurses into its 'children' on that child", None, ok,
                      "" if ok else "shape, order, custom ids and nesting must be rebuilt"))
    tl = m.func("Tree.to_dict_list")
    lps = [n for n in ast.walk(tl.node) if isinstance(n, ast.For)]
    ok = len(lps) == 1 and "._root" in norm(lps[0].iter) and len(lps[0].body) == 1 and norm(lps[0].body[0]).endswith(f".append({norm(lps[0].target)}.to_dict(mapper=mapper))")
    obs.append(ctx.ob("FMT", ["C14"], tl, "to_dict_list collects one dict per top-level node", None, ok, ""))
    return obs
