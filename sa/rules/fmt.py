"""File-format rules: writer/reader key agreement, index base, maps, clone
references, header validation, dict form (DESIGN 3.11; C05, C12, C14, C19)."""
from __future__ import annotations

import ast
import re
from typing import Dict, List, Optional, Set, Tuple

from ..core import Ctx, Ob, rule
from ..model import AnalysisError, Func, iter_own, norm
from ..pat import find, has, match, one


def _str_keys_written(f: Func) -> Set[str]:
    """Constant string keys stored into dicts: d["k"] = .., {"k": ..}, d.update({"k": ..})"""
    out: Set[str] = set()
    for n in iter_own(f.node):
        if isinstance(n, ast.Assign):
            for t in n.targets:
                if isinstance(t, ast.Subscript) and isinstance(t.slice, ast.Constant) and isinstance(t.slice.value, str):
                    out.add(t.slice.value)
        if isinstance(n, ast.Dict):
            for k in n.keys:
                if isinstance(k, ast.Constant) and isinstance(k.value, str):
                    out.add(k.value)
    return out


def _str_keys_read(f: Func) -> Set[str]:
    """Constant string keys read: d["k"] (load), d.get("k"), "k" in d"""
    out: Set[str] = set()
    for n in iter_own(f.node):
        if isinstance(n, ast.Subscript) and isinstance(n.ctx, ast.Load) and isinstance(n.slice, ast.Constant) and isinstance(n.slice.value, str):
            out.add(n.slice.value)
        if isinstance(n, ast.Call) and isinstance(n.func, ast.Attribute) and n.func.attr in ("get", "pop") and n.args \
                and isinstance(n.args[0], ast.Constant) and isinstance(n.args[0].value, str):
            out.add(n.args[0].value)
        if isinstance(n, ast.Compare) and isinstance(n.left, ast.Constant) and isinstance(n.left.value, str) \
                and any(isinstance(o, (ast.In, ast.NotIn)) for o in n.ops):
            out.add(n.left.value)
    return out


def _const_dict(e: Optional[ast.AST]) -> Optional[dict]:
    try:
        v = ast.literal_eval(e) if e is not None else None
    except Exception:
        return None
    return v if isinstance(v, dict) else None


@rule("KEYS", ["C05", "C12", "C14", "C19"], floor=12, section="3.11")
def keys(ctx: Ctx) -> List[Ob]:
    """every key the writers emit is consumed by the matching reader (entry keys str/data_id/kind, mapper keys of the in-package mappers, structural keys meta/nodes/$key_map/$value_map, dict-form keys) and the header keys are the documented ones"""
    obs: List[Ob] = []
    m = ctx.model
    # --- entry keys of the native format
    pairs = [
        ("Node._make_list_entry", ["Tree._from_list", "Tree.deserialize_mapper"], ["C05", "C12"], "plain Tree"),
        ("TypedNode._make_list_entry", ["TypedTree._from_list", "TypedTree.deserialize_mapper"], ["C05", "C12"], "TypedTree"),
    ]
    for wq, rqs, props, what in pairs:
        w = m.func(wq)
        wk = _str_keys_written(w)
        rk: Set[str] = set()
        for rq in rqs:
            rk |= _str_keys_read(m.func(rq))
        if not wk:
            raise AnalysisError(f"{wq}: no entry keys found")
        for k in sorted(wk):
            ok = k in rk
            obs.append(ctx.ob("KEYS", props, w, f"entry key '{k}' written by {wq} is read by the {what} loader", None, ok,
                              "" if ok else f"'{k}' is emitted but neither {' nor '.join(rqs)} consumes it: such an entry cannot be loaded "
                              f"by a {what} without a user mapper (NotImplementedError)"))
    # --- FileSystemTree mappers
    ws, rs = m.func("FileSystemTree.serialize_mapper"), m.func("FileSystemTree.deserialize_mapper")
    wk, rk = _str_keys_written(ws), _str_keys_read(rs)
    for k in sorted(wk | rk):
        ok = k in wk and k in rk
        obs.append(ctx.ob("KEYS", ["C19", "C05"], ws, f"file-system entry key '{k}' is written and read", None, ok,
                          "" if ok else f"'{k}' is {'written but not read' if k in wk else 'read but never written'} by the FileSystemTree mappers"))
    # --- DictWrapper mappers are inverse by construction (dict copy / cls(**data)): nothing keyed
    # --- structural keys of the document
    sv, ld = m.func("Tree.save"), m.func("Tree.load")
    wk, rk = _str_keys_written(sv), _str_keys_read(ld)
    for k in ("meta", "nodes", "$generator", "$key_map", "$value_map"):
        ok = k in wk and k in rk
        obs.append(ctx.ob("KEYS", ["C05", "C12"], sv, f"document key '{k}' is written by save and read by load", None, ok,
                          "" if ok else f"'{k}': {'written' if k in wk else 'not written'} / {'read' if k in rk else 'not read'}"))
    ok = "$format_version" in wk
    obs.append(ctx.ob("KEYS", ["C12"], sv, "header carries '$format_version'", None, ok, "" if ok else "the documented header names generator and format version"))
    extra = {k for k in wk if k.startswith("$")} - {"$generator", "$format_version", "$key_map", "$value_map"}
    obs.append(ctx.ob("KEYS", ["C12"], sv, "no undocumented '$' header key", None, not extra, "" if not extra else f"{sorted(extra)}"))
    # documentation oracle
    doc = ctx.doc_text("ug_serialize.rst")
    doc_keys = set(re.findall(r'"(\$[a-z_]+)"', doc)) | ({"meta"} if '"meta"' in doc else set()) | ({"nodes"} if '"nodes"' in doc else set())
    for k in sorted(doc_keys):
        ok = k in wk
        obs.append(ctx.ob("KEYS", ["C12"], "docs:ug_serialize.rst", f"documented key '{k}' is what save() writes", None, ok,
                          "" if ok else f"the user guide's examples use '{k}', save() does not write it (a consistent rename of writer and reader still breaks documented files)"))
    for k in sorted(doc_keys):
        if k in ("$format_version",):
            continue
        ok = k in rk
        obs.append(ctx.ob("KEYS", ["C12"], "docs:ug_serialize.rst", f"documented key '{k}' is what load() reads", None, ok,
                          "" if ok else f"documents written to the documented layout use '{k}', load() does not read it"))
    # value of $format_version / generator
    hdr = None
    for n in iter_own(sv.node):
        if isinstance(n, ast.Dict) and any(isinstance(k, ast.Constant) and isinstance(k.value, str) and k.value.startswith("$") for k in n.keys):
            hdr = n
    if hdr is None:
        raise AnalysisError("Tree.save: header literal not found")
    hv = {k.value: v for k, v in zip(hdr.keys, hdr.values) if isinstance(k, ast.Constant)}
    ok = "$format_version" in hv and "$generator" in hv and norm(hv.get("$format_version")) == "FILE_FORMAT_VERSION" \
        and "nutree/" in norm(hv.get("$generator")) and "get_version()" in norm(hv.get("$generator"))
    obs.append(ctx.ob("KEYS", ["C12"], sv, "header values: generator 'nutree/<version>', format version constant", hdr, ok,
                      "" if ok else "load() recognises files by the 'nutree/' generator tag"))
    # --- dict form
    td, fd = m.func("Node.to_dict"), m.func("Node.from_dict")
    wk, rk = _str_keys_written(td), _str_keys_read(fd)
    for k in sorted(wk):
        ok = k in rk
        obs.append(ctx.ob("KEYS", ["C14"], td, f"dict-form key '{k}' written by to_dict is read by from_dict", None, ok,
                          "" if ok else f"'{k}' would be lost on the way back"))
    for k in ("data", "data_id", "children"):
        ok = k in wk
        obs.append(ctx.ob("KEYS", ["C14"], td, f"to_dict emits '{k}'", None, ok, "" if ok else f"the documented dict form has '{k}'"))
    return obs


@rule("FMT", ["C05", "C12", "C14", "C17", "C19"], floor=20, section="3.11")
def fmt(ctx: Ctx) -> List[Ob]:
    """layout: 1-based entry indices with 0 for the root in writer and both readers; the maps written to the header are the ones applied; clone references only under equal kind and keyed like is_clone(); key/value compression mirrored; load() validates the header; save zips unless compression is False and flushes the text wrapper"""
    obs: List[Ob] = []
    m = ctx.model
    env = ctx.env

    def O(props, f, label, ok, why="", node=None):
        obs.append(ctx.ob("FMT", props, f, label, node, bool(ok), "" if ok else why))

    # ---------------------------------------------------------------- writer
    w = m.func("Node.to_list_iter")
    en = [n for n in iter_own(w.node) if isinstance(n, ast.For) and match("enumerate($$x, $$s)", n.iter) is not None or
          (isinstance(n, ast.For) and match("enumerate($$x)", n.iter) is not None)]
    e = match("for $i, $n in enumerate(self, 1):\n    ...", en[0]) if len(en) == 1 else None
    O(["C12", "C05"], w, "writer numbers entries with enumerate(self, 1) in pre-order", e is not None,
      "entries are numbered from 1 in the default (pre-order) iteration; 0 is reserved for the root", en[0] if en else None)
    pm = one("$pm = {self._node_id: $$z}", w.node)
    O(["C12", "C05"], w, "writer maps the start node to parent index 0", pm is not None and norm(pm[1]["$$z"]) == "0", "top-level entries must name parent 0")
    if e is not None and pm is not None:
        lp = en[0]
        iv, nv, pmv = e["$i"], e["$n"], pm[1]["$pm"]
        B = {"$i": iv, "$n": nv, "$pm": pmv}
        # parent index recorded under the node's id, for nodes with children
        st = one("$pm[$$k] = $i", lp, B)
        okk = st is not None
        if okk:
            k = st[1]["$$k"]
            okk = norm(k) == f"{nv}._node_id" or (isinstance(k, ast.Name) and has(f"{k.id} = {nv}._node_id", lp))
        O(["C12", "C05"], w, "a parent's own entry index is recorded under its node_id", okk,
          "children look their parent up by node_id and must find the parent's entry position")
        # ... on every iteration path: the recording statement comes before any `continue`
        if st is not None:
            top = [s_ for s_ in lp.body if any(x is st[0] for x in ast.walk(s_))]
            conts = [i for i, s_ in enumerate(lp.body) if any(isinstance(x, ast.Continue) for x in ast.walk(s_))]
            okp = bool(top) and (not conts or lp.body.index(top[0]) < min(conts))
            O(["C12", "C05"], w, "the index of a parent is recorded before any early `continue` (also for clones that have children)", okp,
              "a later occurrence of a clone that has children of its own would never record its index: save() fails with KeyError / children get a wrong parent")
        lk = one("$x = $pm[$$k]", lp, B)
        okl = lk is not None
        if okl:
            k = lk[1]["$$k"]
            okl = norm(k) == f"{nv}._parent._node_id" or (isinstance(k, ast.Name) and has(f"{k.id} = {nv}._parent._node_id", lp))
        O(["C12", "C05"], w, "each entry names its parent's recorded index", okl, "the parent reference must be the index recorded for node._parent")
        if st is not None and lk is not None:
            O(["C12"], w, "the index is recorded before it can be looked up (pre-order: parents first)", st[0].lineno < lk[0].lineno)
        # clone references
        cm = one("$ci, $ck = $cm.get($$key, (None, None))", lp)
        okc = cm is not None
        if okc:
            C = {**B, "$ci": cm[1]["$ci"], "$ck": cm[1]["$ck"], "$cm": cm[1]["$cm"]}
            ref = find("yield ($x, $ci)", lp, C)
            okc = len(ref) == 1
            blk = m.parent_of(m.parent_of(ref[0][0])) if okc else None
            okc = okc and isinstance(blk, ast.If) and (match("$nk == $ck", blk.test, C) is not None or match("$ck == $nk", blk.test, C) is not None)
            O(["C12", "C05"], w, "a clone is stored as a bare index only when its kind equals (==) the first occurrence's", okc,
              "clones of differing kind must be written out in full; kinds are compared by value")
            okc2 = isinstance(blk, ast.If) and any(isinstance(x, ast.Continue) for x in blk.body)
            O(["C12"], w, "after a clone reference the entry is not written a second time", okc2, "missing `continue`")
            note = one("$cm[$$key2] = ($i, $nk)", lp, C)
            O(["C12", "C05"], w, "the first occurrence of a clone records (its index, its kind)", note is not None, "later occurrences refer to this index")
            if note is not None:
                pblk = m.parent_of(note[0])
                O(["C12", "C05"], w, "only clones are noted (elif node.is_clone())", isinstance(pblk, ast.If) and has(f"{nv}.is_clone()", pblk.test), "")
            key = cm[1]["$$key"]
            okk = norm(key) in (f"{nv}._data_id", f"{nv}.data_id")
            if not okk and isinstance(key, ast.Name):
                vals = find(f"{key.id} = $$v", lp)
                okk = len(vals) == 1 and norm(vals[0][1]["$$v"]) in (f"{nv}._data_id", f"{nv}.data_id")
            O(["C05", "C12"], w, "clone references are keyed by node._data_id (like is_clone())", okk,
              f"the clone map is keyed by `{norm(key)}`, not by the node's data_id: nodes that share data but carry different explicit data_ids are "
              "merged into one clone group on reload (and is_clone() groups by _data_id)")
        else:
            O(["C12", "C05"], w, "clone map lookup found", False, "clone reference shape not recognised")
        mp = find("call_mapper($$a, $$b, $$c)", lp)
        cp = [x for x in ast.walk(lp) if isinstance(x, ast.Call) and norm(x.func).endswith("_compress_entry")]
        okm = len(mp) == 1 and len(cp) == 1 and mp[0][0].lineno < cp[0].lineno and norm(cp[0].args[1]) == "key_map"
        O(["C05", "C12"], w, "mapper first, then key/value compression with the caller's maps", okm,
          "keys are shortened exactly as the header's maps declare, after the mapper produced them")
        if cp:
            g = m.parent_of(m.parent_of(cp[0]))
            okg = not isinstance(g, ast.If) or ({"key_map", "value_map"} <= {x.id for x in ast.walk(g.test) if isinstance(x, ast.Name)}
                                                  and isinstance(g.test, ast.BoolOp) and isinstance(g.test.op, ast.Or))
            O(["C05", "C12"], w, "entries are compressed when a key map OR a value map is in use", okg,
              "with key_map off and a value map on, the header declares $value_map but the entries keep the long values")
            vd = one("{$k: {$v: $j for $j, $v in enumerate($a)} for $k, $a in value_map.items()}", w.node)
            tgt = None
            if vd is not None:
                pa_ = m.parent_of(vd[0])
                if isinstance(pa_, ast.AnnAssign):
                    tgt = norm(pa_.target)
                elif isinstance(pa_, ast.Assign):
                    tgt = norm(pa_.targets[0])
            O(["C05", "C12"], w, "value lists are turned into value->index dicts (index = position in the header's list)",
              tgt is not None and norm(cp[0].args[2]) == tgt, "value indices must be positions in the list written to the header")
    # --------------------------------------------------------------- readers
    for q in ("Tree._from_list", "TypedTree._from_list"):
        r = m.func(q)
        en = [n for n in iter_own(r.node) if isinstance(n, ast.For) and isinstance(n.iter, ast.Call) and norm(n.iter.func) == "enumerate"]
        e = match("for $i, ($p, $d) in enumerate(obj, 1):\n    ...", en[0]) if len(en) == 1 else None
        O(["C12", "C05"], r, "reader numbers entries from 1", e is not None, "reader and writer must count alike", en[0] if en else None)
        nm = None
        for n in iter_own(r.node):
            if isinstance(n, (ast.Assign, ast.AnnAssign)) and n.value is not None:
                e2 = match("{0: $t._root}", n.value) or match("{0: $t.system_root}", n.value)
                if e2 is not None:
                    nm = norm(n.target if isinstance(n, ast.AnnAssign) else n.targets[0])
        O(["C12", "C05"], r, "reader maps index 0 to the root", nm is not None, "parent index 0 is the (invisible) root")
        if e is None or nm is None:
            continue
        lp = en[0]
        iv, pv, dv = e["$i"], e["$p"], e["$d"]
        last = lp.body[-1]
        el = match(f"{nm}[{iv}] = $n", last)
        O(["C12", "C05"], r, "every created node is recorded under its entry index", el is not None, "later entries refer to earlier ones by position")
        if el is not None:
            # in every branch the node that was just created is what gets recorded
            adds_ = [c for c in ast.walk(lp) if isinstance(c, ast.Call) and isinstance(c.func, ast.Attribute) and c.func.attr in ("add", "add_child")]
            bound = [c for c in adds_ if isinstance(m.parent_of(c), ast.Assign) and norm(m.parent_of(c).targets[0]) == el["$n"]]
            O(["C12", "C05"], r, "the node recorded under the entry index is the one created for this entry (str, clone reference and dict entries)",
              len(adds_) == 3 and len(bound) == 3, "children of a repeated occurrence would be attached below the first occurrence")
        par = one(f"$par = {nm}[{pv}]", lp)
        O(["C12", "C05"], r, "the parent is looked up by the entry's parent index", par is not None, "")
        if par is None:
            continue
        pa = par[1]["$par"]
        chain = [s_ for s_ in lp.body if isinstance(s_, ast.If)]
        tests = {}
        if chain:
            from .trav import _if_chain
            tests = {(norm(t) if t is not None else "else"): b for t, b in _if_chain(chain[0])}
        O(["C12"], r, "reader handles str, int (clone reference) and dict entries", {f"isinstance({dv}, str)", f"isinstance({dv}, int)", "else"} <= set(tests),
          "entries of the documented layout are not handled")
        ib = tests.get(f"isinstance({dv}, int)")
        if ib is not None:
            fc = one(f"$fc = {nm}[{dv}]", ib)
            okr = fc is not None
            if okr:
                adds = [c for c in ast.walk(ast.Module(body=ib, type_ignores=[])) if isinstance(c, ast.Call) and isinstance(c.func, ast.Attribute)
                        and c.func.attr in ("add", "add_child") and norm(c.func.value) == pa]
                okr = len(adds) == 1 and norm(adds[0].args[0]) == fc[1]["$fc"] and any(k.arg == "data_id" and norm(k.value) in (f"{fc[1]['$fc']}.data_id", f"{fc[1]['$fc']}._data_id") for k in adds[0].keywords)
                O(["C12", "C05"], r, "a bare index re-creates a clone of the node at that position, under its data_id", okr,
                  "clone references must resolve through the index map and keep the data_id")
                if q.startswith("Typed"):
                    okk = len(adds) == 1 and any(k.arg == "kind" and norm(k.value) in (f"{fc[1]['$fc']}.kind", f"{fc[1]['$fc']}._kind") for k in adds[0].keywords)
                    O(["C05"], r, "a typed clone reference keeps the first occurrence's kind", okk, "kind lost on reload")
        eb = tests.get("else")
        if eb is not None:
            mod = ast.Module(body=eb, type_ignores=[])
            cm = [c for c in ast.walk(mod) if isinstance(c, ast.Call) and norm(c.func) == "call_mapper"]
            reads = [c for c in ast.walk(mod) if isinstance(c, ast.Call) and isinstance(c.func, ast.Attribute) and c.func.attr == "get"
                     and norm(c.func.value) == dv and c.args and isinstance(c.args[0], ast.Constant)]
            okm = len(cm) == 1 and bool(reads) and all(x.lineno < cm[0].lineno for x in reads)
            O(["C12", "C05"], r, "data_id (and kind) are read from the entry before the mapper gets the dict", okm,
              "a mapper may consume (pop) keys of the entry: ids and kinds read afterwards fall back to the defaults")
            want = {"data_id"} | ({"kind"} if q.startswith("Typed") else set())
            got = {c.args[0].value for c in reads}
            O(["C12", "C05"], r, f"reader takes {sorted(want)} from dict entries", want <= got, "stored ids/kinds ignored")
            adds = [c for c in ast.walk(mod) if isinstance(c, ast.Call) and isinstance(c.func, ast.Attribute) and c.func.attr in ("add", "add_child") and norm(c.func.value) == pa]
            okd = len(adds) == 1 and any(k.arg == "data_id" for k in adds[0].keywords) and (not q.startswith("Typed") or any(k.arg == "kind" for k in adds[0].keywords))
            O(["C12", "C05"], r, "the node is added below the looked-up parent with the stored data_id (and kind)", okd, "")
    # ------------------------------------------------------------------ save
    sv = m.func("Tree.save")
    hd = None
    for n in iter_own(sv.node):
        if isinstance(n, (ast.Assign, ast.AnnAssign)) and isinstance(n.value, ast.Dict) and any(
                isinstance(k, ast.Constant) and isinstance(k.value, str) and k.value.startswith("$") for k in n.value.keys):
            hd = norm(n.target if isinstance(n, ast.AnnAssign) else n.targets[0])
    if hd is None:
        raise AnalysisError("Tree.save: header dict not found")
    calls = [c for c in env.calls_in[sv] if isinstance(c.func, ast.Attribute) and c.func.attr == "to_list_iter"]
    for key, var in (("$key_map", "key_map"), ("$value_map", "value_map")):
        st = find(f"{hd}['{key}'] = $$v", sv.node)
        ok = len(st) == 1 and norm(st[0][1]["$$v"]) == var
        ok = ok and len(calls) == 1 and any(k.arg == var and norm(k.value) == var for k in calls[0].keywords)
        O(["C12", "C05"], sv, f"the {var} written to the header is the one applied to the entries", ok, "a header map that differs from the applied one makes the file unreadable")
        p_ = m.parent_of(st[0][0]) if st else None
        O(["C12"], sv, f"header['{key}'] only when the map is in use", isinstance(p_, ast.If) and norm(p_.test) == var)
    for var, dflt in (("key_map", "self.DEFAULT_KEY_MAP"), ("value_map", "self.DEFAULT_VALUE_MAP")):
        ok = has(f"if {var} is True:\n    {var} = {dflt}\nelif {var} is False:\n    {var} = {{}}", sv.node)
        O(["C05"], sv, f"{var}: True -> class default, False -> off, dict -> as given", ok, "option normalisation changed")
    O(["C05", "C12"], sv, "user metadata goes into the header", has(f"{hd}.update(meta)", sv.node), "save(meta=) must be stored")
    doc = one("$doc = {'meta': $$h, 'nodes': $$n}", sv.node)
    ok = doc is not None and norm(doc[1]["$$h"]) == hd and has(f"json.dump({doc[1]['$doc']}, target, indent=$_, separators=$_)", sv.node)
    O(["C05", "C12"], sv, "the document {'meta': header, 'nodes': [...]} is dumped to the target stream", ok)
    dumps = [c for c in env.calls_in[sv] if norm(c.func) == "json.dump"]
    ok = len(dumps) == 1 and {k.arg for k in dumps[0].keywords} <= {"indent", "separators", "ensure_ascii"} and not any(
        k.arg == "ensure_ascii" and norm(k.value) == "False" for k in dumps[0].keywords)
    O(["C05", "C19", "C12"], sv, "json.dump keeps the default ASCII-safe escaping (path and stream targets behave alike)", ok,
      "ensure_ascii=False makes the result depend on the target stream's encoding (lone surrogates from os.fsdecode fail for path targets only)")
    # ------------------------------------------------------------------ load
    ld = m.func("Tree.load")
    rz = [n for n in iter_own(ld.node) if isinstance(n, ast.If) and any(isinstance(x, ast.Raise) for x in n.body)]
    ok = False
    if rz:
        t = norm(rz[0].test)
        o = one("$o = json.load(target)", ld.node)
        ov = o[1]["$o"] if o else "obj"
        need = [f"isinstance({ov}, dict)", f"'meta' not in {ov}", f"'nodes' not in {ov}", f"'$generator' not in {ov}['meta']", "'nutree/' not in"]
        ok = all(x in t for x in need) and isinstance(rz[0].test, ast.BoolOp) and isinstance(rz[0].test.op, ast.Or)
    O(["C12"], ld, "load() rejects JSON without the nutree header", ok, "non-dict documents, missing meta/nodes/$generator or a foreign generator must be refused", rz[0] if rz else None)
    O(["C05", "C12"], ld, "load() hands the stored header back through file_meta", has("file_meta.update($o['meta'])", ld.node), "file metadata must be returned")
    inv = one("$inv = {$v: $k for $k, $v in $km.items()}", ld.node)
    ok = inv is not None and has("$km = $o['meta'].get('$key_map', {})", ld.node, {"$km": inv[1]["$km"]})
    O(["C05", "C12"], ld, "the key map is read from the header and inverted", ok, "short keys must be mapped back to long keys")
    vm = one("$vm = $o['meta'].get('$value_map', {})", ld.node)
    un = [c for c in env.calls_in[ld] if norm(c.func).endswith("_uncompress_entry")]
    fl = [c for c in env.calls_in[ld] if norm(c.func).endswith("_from_list")]
    ok = inv is not None and vm is not None and len(un) == 1 and len(fl) == 1 and un[0].lineno < fl[0].lineno         and [norm(a) for a in un[0].args][1:] == [inv[1]["$inv"], vm[1]["$vm"]]
    O(["C05", "C12"], ld, "entries are expanded with the inverted key map and the header's value map before nodes are built", ok,
      "compressed entries would reach the mapper unexpanded")
    ok = len(fl) == 1 and any(k.arg == "mapper" and norm(k.value) == "mapper" for k in fl[0].keywords) and has("$o['nodes']", ld.node)
    O(["C05", "C12"], ld, "the node list is built with the caller's mapper", ok)
    # ---- compress / uncompress mirrored
    for q, mapname, vm_key_is_mapped in (("Node._compress_entry", "key_map", False), ("Tree._uncompress_entry", "inverse_key_map", True)):
        f = m.func(q)
        mapname = f.positional_params()[2] if len(f.positional_params()) > 2 else mapname
        vmname = f.positional_params()[3] if len(f.positional_params()) > 3 else "value_map"
        dname = f.positional_params()[1]
        lps = [n for n in iter_own(f.node) if isinstance(n, ast.For) and isinstance(n.target, ast.Tuple) and len(n.target.elts) == 2]
        if len(lps) != 1:
            raise AnalysisError(f"{q}: item loop not recognised")
        lp = lps[0]
        kv, vv = norm(lp.target.elts[0]), norm(lp.target.elts[1])
        early = [n for n in iter_own(f.node) if isinstance(n, ast.Return) and n.lineno < lp.lineno]
        ok_e = all(isinstance(m.parent_of(r_), ast.If) and norm(m.parent_of(r_).test) == f"isinstance({dname}, str)" for r_ in early)
        O(["C05", "C12"], f, f"{q}: no early exit that depends on only one of the two maps", ok_e,
          "key map and value map are independent: with key_map off and a value map in use the values must still be translated")
        okcopy = match(f"list({dname}.items())", lp.iter) is not None or match(f"tuple({dname}.items())", lp.iter) is not None
        O(["C05", "C12"], f, f"{q}: iterates a copy of the items while renaming keys", okcopy, "renaming keys changes the dict during iteration", lp)
        mp_ = one(f"$mk = {mapname}[{kv}]", lp)
        ok = mp_ is not None
        mv = mp_[1]["$mk"] if ok else "?"
        ok = ok and has(f"{dname}[{mv}] = {dname}.pop({kv})", lp) and has(f"{mv} = {kv}", lp) and has(f"{kv} in {mapname}", lp)
        O(["C05", "C12"], f, f"{q}: a mapped key replaces the entry (data[new] = data.pop(old)); unmapped keys stay", ok, "keys must be renamed exactly as the map declares", lp)
        want_key = mv if vm_key_is_mapped else kv
        vms = find(f"{dname}[{mv}] = {vmname}[{want_key}][{vv}]", lp)
        ok = len(vms) == 1
        if ok:
            p_ = m.parent_of(vms[0][0])
            ok = isinstance(p_, ast.If) and has(f"{want_key} in {vmname}", p_.test)
        O(["C05", "C12"], f, f"{q}: values are translated through value_map under the long key", ok,
          "value_map is keyed by the unmapped (long) key name on both sides (as documented); writer and reader must mirror", lp)
    # ---- call_mapper: only None means "keep the dict"
    cmf = m.func("call_mapper")
    fn, _nd, dt = cmf.positional_params()[:3]
    r_ = one(f"$r = {fn}($$a, {dt})", cmf.node)
    ok = r_ is not None and has(f"if {fn} is None:\n    return {dt}", cmf.node) and has(f"if $r is None:\n    return {dt}", cmf.node, {"$r": r_[1]["$r"]}) \
        and match("return $r", cmf.body[-1], {"$r": r_[1]["$r"]}) is not None
    O(["C05", "C14", "C17", "C12"], cmf, "call_mapper: the mapper's result replaces the dict unless it is None (falsy results are values)", ok,
      "`res or data` would replace a falsy data object (0, empty container) by the raw entry dict")
    # ---- default mappers accept every key combination the writers emit for plain string entries
    for cn, nkeys in (("Tree", 2), ("TypedTree", 3)):
        dm_ = m.lookup(cn, "deserialize_mapper")
        bound_ = None
        for n_ in iter_own(dm_.node):
            if isinstance(n_, ast.Compare) and len(n_.ops) == 1 and match("len(data)", n_.left) is not None and isinstance(n_.comparators[0], ast.Constant):
                v_ = n_.comparators[0].value
                bound_ = v_ if isinstance(n_.ops[0], ast.LtE) else v_ - 1 if isinstance(n_.ops[0], ast.Lt) else None
        ok = has("'str' in data", dm_.node) and (bound_ is None and not has("len(data)", dm_.node) or (bound_ is not None and bound_ >= nkeys))
        O(["C05", "C12"], dm_, f"{cn}.deserialize_mapper accepts a plain-string entry with all {nkeys} keys its writer can emit", ok,
          f"a string node with a custom data_id is written with {nkeys} keys; the default mapper must not refuse the file the tree wrote itself")
    # ---- zip streams
    oc = m.func("open_as_compressed_output_stream")
    ifs = [n for n in oc.body if isinstance(n, ast.If)]
    ok = len(ifs) == 1 and match("compression is False", ifs[0].test) is not None
    O(["C05"], oc, "only `compression is False` writes plain JSON (0 == ZIP_STORED still zips)", ok, "a truthiness test would treat zipfile.ZIP_STORED (0) as 'no compression'")
    ys = find("yield $w", oc.node)
    ok = False
    for y, e_ in ys:
        st_ = m.parent_of(y)
        blk = m.parent_of(st_)
        body = getattr(blk, "body", [])
        if st_ in body:
            i = body.index(st_)
            if i + 1 < len(body) and match("$w.flush()", body[i + 1], e_) is not None and has("$w = io.TextIOWrapper($$f, encoding=$$e)", oc.node, e_):
                ok = True
    O(["C05"], oc, "the text wrapper is flushed before the zip member closes", ok, "buffered JSON would be lost: truncated file")
    zf = [c for c in env.calls_in[oc] if norm(c.func) == "zipfile.ZipFile"]
    ok = len(zf) == 1 and any(k.arg == "compression" and norm(k.value) == "compression" for k in zf[0].keywords)
    O(["C05"], oc, "the requested zip method is passed to ZipFile", ok, "compression option ignored")
    sv_open = [c for c in env.calls_in[sv] if norm(c.func) == "open_as_compressed_output_stream"]
    ok = len(sv_open) == 1 and any(k.arg == "compression" and norm(k.value) == "compression" for k in sv_open[0].keywords)
    O(["C05"], sv, "save(path) opens the target with the caller's compression", ok, "compression option ignored")
    ld_open = [c for c in env.calls_in[ld] if norm(c.func) == "open_as_uncompressed_input_stream"]
    ok = len(ld_open) == 1 and any(k.arg == "auto_uncompress" and norm(k.value) == "auto_uncompress" for k in ld_open[0].keywords)
    O(["C05"], ld, "load(path) opens the source with the caller's auto_uncompress", ok)
    # ---- KEYMAP-INJ
    for cn in m.subclasses("Tree"):
        km = _const_dict(m.class_const(cn, "DEFAULT_KEY_MAP"))
        if km is None:
            raise AnalysisError(f"{cn}.DEFAULT_KEY_MAP is not a literal dict")
        site = f"{m.module_of_cls(cn)}:{cn}"
        O(["C05", "C12"], site, f"{cn}.DEFAULT_KEY_MAP is injective", len(set(km.values())) == len(km), "two long keys share a short key: the inverse map loses one")
        sm = m.lookup(cn, "serialize_mapper")
        emitted = _str_keys_written(sm) if sm is not None else set()
        clash = set(km.values()) & (emitted - set(km.keys()))
        O(["C05", "C19"], site, f"{cn}: default short keys do not collide with keys of its serialize_mapper", not clash,
          f"short key(s) {sorted(clash)} are also emitted by the mapper: on load they are renamed to the long key")
    ok = _const_dict(m.class_const("Tree", "DEFAULT_KEY_MAP")) == {"data_id": "i", "str": "s"} and \
        _const_dict(m.class_const("TypedTree", "DEFAULT_KEY_MAP")) == {"data_id": "i", "str": "s", "kind": "k"}
    O(["C12"], "tree:Tree", "default key maps equal the documented ones", ok, "the user guide documents the default maps")
    # ---- TypedTree.save: kind value map
    ts = m.func("TypedTree.save")
    ups = find("$vm.update({'kind': $$l})", ts.node) + find("$vm['kind'] = $$l", ts.node)
    ok = len(ups) == 1
    if ok:
        p_ = m.parent_of(ups[0][0])
        while p_ is not None and not isinstance(p_, ast.If):
            p_ = m.parent_of(p_)
        ok = isinstance(p_, ast.If) and has("'kind' not in $vm", p_.test, {"$vm": ups[0][1]["$vm"]})
    O(["C05"], ts, "typed save adds the list of kinds to the value map unless the caller supplied one", ok,
      "kind indices written to the entries must refer to a list stored in the header")
    loads = [x for x in ast.walk(ts.node) if isinstance(x, ast.Attribute) and x.attr in ("DEFAULT_VALUE_MAP", "DEFAULT_KEY_MAP")]
    ok = all(isinstance(m.parent_of(x), ast.Attribute) and m.parent_of(x).attr == "copy" for x in loads) and bool(loads)
    O(["C05"], ts, "the class default map is copied before the kind list is added", ok, "updating the class attribute leaks one tree's kinds into every later save")
    cnt = [lp for lp in ast.walk(ts.node) if isinstance(lp, ast.For) and has("$n.kind", lp.body)]
    ok = len(cnt) == 1 and norm(cnt[0].iter) in ("self", "self.iterator()", "self._root", "self.system_root")
    O(["C05"], ts, "the kind list is collected from all nodes of the tree", ok, "a kind missing from the list cannot be encoded")
    # ---- dict form: recursion in order
    td, fd = m.func("Node.to_dict"), m.func("Node.from_dict")
    lps = [n for n in iter_own(td.node) if isinstance(n, ast.For) and norm(n.iter) in ("self._children", "self.children")]
    ok = len(lps) == 1 and len(lps[0].body) == 1
    if ok:
        e = match("$acc.append($c.to_dict(mapper=mapper))", lps[0].body[0])
        ok = e is not None and e["$c"] == norm(lps[0].target)
        if ok:
            ok = any(isinstance(st_, ast.Assign) and "res['children']" in [norm(t) for t in st_.targets] and e["$acc"] in [norm(t) for t in st_.targets]
                     for st_ in ast.walk(td.node)) or has(f"$r['children'] = {e['$acc']}", td.node)
    O(["C14"], td, "to_dict nests the children's dicts in child order", ok, "the nested form mirrors the tree")
    rr = one("$r = call_mapper(mapper, self, $r)", td.node)
    O(["C14"], td, "to_dict uses the dict returned by the mapper (a mapper may return a new dict)", rr is not None and any(
        isinstance(n, ast.Return) and n.value is not None and norm(n.value) == rr[1]["$r"] for n in iter_own(td.node)) if rr else False,
      "a serialize mapper that returns a new dict instead of patching the passed one would be ignored")
    cid = [n for n in iter_own(td.node) if isinstance(n, ast.If) and match("self._data_id != hash(self._data)", n.test) is not None]
    ok = len(cid) == 1 and match("$r['data_id'] = self._data_id", cid[0].body[0]) is not None
    O(["C14"], td, "to_dict stores data_id whenever it is not hash(data) (falsy ids included)", ok, "custom ids must survive")
    lps = [n for n in iter_own(fd.node) if isinstance(n, ast.For) and norm(n.iter) == fd.positional_params()[1] and isinstance(n.target, ast.Name)]
    ok = len(lps) == 1
    if ok:
        lp = lps[0]
        iv = lp.target.id
        adds = [c for c in ast.walk(lp) if isinstance(c, ast.Call) and isinstance(c.func, ast.Attribute) and c.func.attr in ("append_child", "add_child", "add")
                and norm(c.func.value) == "self"]
        recs = [c for c in ast.walk(lp) if isinstance(c, ast.Call) and isinstance(c.func, ast.Attribute) and c.func.attr == "from_dict"]
        ok = len(adds) == 1 and len(recs) == 1 and any(k.arg == "data_id" and norm(k.value) == f"{iv}.get('data_id')" for k in adds[0].keywords)
        ok = ok and not any(k.arg == "before" for k in adds[0].keywords) and any(k.arg == "mapper" and norm(k.value) == "mapper" for k in recs[0].keywords)
        if ok:
            tgt = [st_ for st_ in ast.walk(lp) if isinstance(st_, ast.Assign) and st_.value is adds[0]]
            ok = len(tgt) == 1 and norm(recs[0].func.value) == norm(tgt[0].targets[0])
            src = [st_ for st_ in ast.walk(lp) if isinstance(st_, ast.Assign) and norm(st_.targets[0]) == norm(recs[0].args[0])]
            ok = ok and len(src) == 1 and norm(src[0].value) == f"{iv}.get('children')"
    pops = [c for c in ast.walk(fd.node) if isinstance(c, ast.Call) and isinstance(c.func, ast.Attribute) and c.func.attr in ("pop", "popitem", "clear", "update", "setdefault")
            and norm(c.func.value) in ([norm(lps[0].target)] if lps else [])]
    O(["C14"], fd, "from_dict only reads the caller's structure (no pop/update on the items)", not pops,
      "" if not pops else f"`{norm(pops[0])}` strips the caller's data: a second from_dict() on the same structure builds a different tree")
    O(["C14"], fd, "from_dict appends one child per item in order, passing its data_id (read after the mapper ran), and recurses into its 'children' on that child", ok,
      "shape, order, custom ids and nesting must be rebuilt; a deserialize mapper may supply item['data_id']")
    tl = m.func("Tree.to_dict_list")
    lps = [n for n in ast.walk(tl.node) if isinstance(n, ast.For)]
    ok = len(lps) == 1 and "._root" in norm(lps[0].iter) and len(lps[0].body) == 1 and match(f"$acc.append({norm(lps[0].target)}.to_dict(mapper=mapper))", lps[0].body[0]) is not None
    O(["C14"], tl, "to_dict_list collects one dict per top-level node", ok)
    return obs
