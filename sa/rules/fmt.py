"""File-format rules: writer/reader key agreement, index base, maps, clone
references, header validation, dict form (DESIGN 3.11; C05, C12, C14, C19)."""
from __future__ import annotations

import ast
import re
from typing import Dict, List, Optional, Set, Tuple

from ..core import Ctx, Ob, rule
from ..model import AnalysisError, Func, iter_own, norm
from ..pat import find, has, match, one


def _str_keys_written(f: Func) -> Set[str]:
    """Constant string keys stored into dicts: d["k"] = .., {"k": ..}, d.update({"k": ..})"""
    out: Set[str] = set()
    # dict displays that are keyword-argument packs (`kwargs = {...}` used only as `f(**kwargs)`, or `f(**{...})`): not entries
    star_names = {k.value.id for c in iter_own(f.node) if isinstance(c, ast.Call) for k in c.keywords if k.arg is None and isinstance(k.value, ast.Name)}
    other_uses = {x.id for x in iter_own(f.node) if isinstance(x, ast.Name) and isinstance(x.ctx, ast.Load)} - star_names
    packs: Set[int] = set()
    for c in iter_own(f.node):
        if isinstance(c, ast.Call):
            for k in c.keywords:
                if k.arg is None:
                    packs.update(id(d) for d in ast.walk(k.value) if isinstance(d, ast.Dict))
        if isinstance(c, ast.Assign) and len(c.targets) == 1 and isinstance(c.targets[0], ast.Name) and c.targets[0].id in star_names:
            uses = [x for x in iter_own(f.node) if isinstance(x, ast.Name) and x.id == c.targets[0].id and isinstance(x.ctx, ast.Load)]
            stars = [k.value for c2 in iter_own(f.node) if isinstance(c2, ast.Call) for k in c2.keywords if k.arg is None]
            if uses and all(any(u is s_ for s_ in stars) for u in uses):
                packs.update(id(d) for d in ast.walk(c.value) if isinstance(d, ast.Dict))
    for n in iter_own(f.node):
        if isinstance(n, ast.Assign):
            for t in n.targets:
                if isinstance(t, ast.Subscript) and isinstance(t.slice, ast.Constant) and isinstance(t.slice.value, str):
                    out.add(t.slice.value)
        if isinstance(n, ast.Dict) and id(n) not in packs:
            for k in n.keys:
                if isinstance(k, ast.Constant) and isinstance(k.value, str):
                    out.add(k.value)
        if isinstance(n, ast.Call) and isinstance(n.func, ast.Attribute) and n.func.attr in ("update", "setdefault"):
            for k in n.keywords:
                if k.arg is not None:
                    out.add(k.arg)
            if n.func.attr == "setdefault" and n.args and isinstance(n.args[0], ast.Constant) and isinstance(n.args[0].value, str):
                out.add(n.args[0].value)
    return out


def _str_keys_read(f: Func, model=None) -> Set[str]:
    """Constant string keys read: d["k"] (load), d.get("k"), "k" in d - also with k running over a constant tuple of
    strings (`for k in ("a", "b")`, or a module-level constant of that form)."""
    out: Set[str] = set()
    # loop / comprehension variables that run over a constant tuple of strings
    over: Dict[str, Set[str]] = {}

    def const_strs(e: ast.AST) -> Optional[Set[str]]:
        if isinstance(e, (ast.Tuple, ast.List)) and e.elts and all(isinstance(x, ast.Constant) and isinstance(x.value, str) for x in e.elts):
            return {x.value for x in e.elts}
        if isinstance(e, ast.Name) and model is not None and f.module in model.modules:
            for st in model.modules[f.module].body:
                if isinstance(st, ast.Assign) and len(st.targets) == 1 and isinstance(st.targets[0], ast.Name) and st.targets[0].id == e.id:
                    return const_strs(st.value)
        return None

    for n in iter_own(f.node):
        if isinstance(n, (ast.For, ast.comprehension)) and isinstance(n.target, ast.Name):
            cs = const_strs(n.iter)
            if cs:
                over.setdefault(n.target.id, set()).update(cs)
    for n in iter_own(f.node):
        key = None
        if isinstance(n, ast.Subscript) and isinstance(n.ctx, ast.Load) and isinstance(n.slice, ast.Name):
            key = n.slice.id
        if isinstance(n, ast.Call) and isinstance(n.func, ast.Attribute) and n.func.attr in ("get", "pop") and n.args and isinstance(n.args[0], ast.Name):
            key = n.args[0].id
        if key in over:
            out |= over[key]
    for n in iter_own(f.node):
        if isinstance(n, ast.Subscript) and isinstance(n.ctx, ast.Load) and isinstance(n.slice, ast.Constant) and isinstance(n.slice.value, str):
            out.add(n.slice.value)
        if isinstance(n, ast.Call) and isinstance(n.func, ast.Attribute) and n.func.attr in ("get", "pop") and n.args \
                and isinstance(n.args[0], ast.Constant) and isinstance(n.args[0].value, str):
            out.add(n.args[0].value)
        if isinstance(n, ast.Compare) and isinstance(n.left, ast.Constant) and isinstance(n.left.value, str) \
                and any(isinstance(o, (ast.In, ast.NotIn)) for o in n.ops):
            out.add(n.left.value)
    return out


def _const_dict(e: Optional[ast.AST]) -> Optional[dict]:
    try:
        v = ast.literal_eval(e) if e is not None else None
    except Exception:
        return None
    return v if isinstance(v, dict) else None


@rule("KEYS", ["C05", "C12", "C14", "C19"], floor=12, section="3.11")
def keys(ctx: Ctx) -> List[Ob]:
    """every key the writers emit is consumed by the matching reader (entry keys str/data_id/kind, mapper keys of the in-package mappers, structural keys meta/nodes/$key_map/$value_map, dict-form keys) and the header keys are the documented ones"""
    obs: List[Ob] = []
    m = ctx.model
    # --- entry keys of the native format
    pairs = [
        ("Node._make_list_entry", ["Tree._from_list", "Tree.deserialize_mapper"], ["C05", "C12"], "plain Tree"),
        ("TypedNode._make_list_entry", ["TypedTree._from_list", "TypedTree.deserialize_mapper"], ["C05", "C12"], "TypedTree"),
    ]
    for wq, rqs, props, what in pairs:
        w = m.func(wq)
        wk = _str_keys_written(w)
        rk: Set[str] = set()
        for rq in rqs:
            rk |= _str_keys_read(m.func(rq))
        # ... and what the loader hands the entries to: new (non-reference) functions of the loader's class family that it reaches
        # (a per-entry builder extracted from the loop and overridden in the typed tree)
        from ..known_funcs import KNOWN_FUNCS as _KF

        fam_cls = "TypedTree" if what == "TypedTree" else "Tree"
        for g_ in m.all_funcs():
            if f"{g_.top.module}:{g_.top.qualname}" in _KF or g_.parent is not None:
                continue
            if g_.cls and (g_.cls == fam_cls or (fam_cls == "Tree" and g_.cls == "Tree")) and any(
                    isinstance(c_.func, ast.Attribute) and c_.func.attr == g_.name for rq in rqs for c_ in ast.walk(m.func(rq).node) if isinstance(c_, ast.Call)) \
                    or (g_.cls == fam_cls and any(isinstance(c_, ast.Call) and isinstance(c_.func, ast.Attribute) and c_.func.attr == g_.name
                                                  for c_ in ast.walk(m.func("Tree._from_list").node))):
                rk |= _str_keys_read(g_)
        if not wk:
            raise AnalysisError(f"{wq}: no entry keys found")
        for k in sorted(wk):
            ok = k in rk
            obs.append(ctx.ob("KEYS", props, w, f"entry key '{k}' written by {wq} is read by the {what} loader", None, ok,
                              "" if ok else f"'{k}' is emitted but neither {' nor '.join(rqs)} consumes it: such an entry cannot be loaded "
                              f"by a {what} without a user mapper (NotImplementedError)"))
    # --- FileSystemTree mappers
    ws, rs = m.func("FileSystemTree.serialize_mapper"), m.func("FileSystemTree.deserialize_mapper")
    wk, rk = _str_keys_written(ws), _str_keys_read(rs)
    for k in sorted(wk | rk):
        ok = k in wk and k in rk
        obs.append(ctx.ob("KEYS", ["C19", "C05"], ws, f"file-system entry key '{k}' is written and read", None, ok,
                          "" if ok else f"'{k}' is {'written but not read' if k in wk else 'read but never written'} by the FileSystemTree mappers"))
    # --- DictWrapper mappers are inverse by construction (dict copy / cls(**data)): nothing keyed
    # --- structural keys of the document
    sv, ld = m.func("Tree.save"), m.func("Tree.load")
    wk, rk = _str_keys_written(sv), _str_keys_read(ld)
    for k in ("meta", "nodes", "$generator", "$key_map", "$value_map"):
        ok = k in wk and k in rk
        obs.append(ctx.ob("KEYS", ["C05", "C12"], sv, f"document key '{k}' is written by save and read by load", None, ok,
                          "" if ok else f"'{k}': {'written' if k in wk else 'not written'} / {'read' if k in rk else 'not read'}"))
    ok = "$format_version" in wk
    obs.append(ctx.ob("KEYS", ["C12"], sv, "header carries '$format_version'", None, ok, "" if ok else "the documented header names generator and format version"))
    extra = {k for k in wk if k.startswith("$")} - {"$generator", "$format_version", "$key_map", "$value_map"}
    obs.append(ctx.ob("KEYS", ["C12"], sv, "no undocumented '$' header key", None, not extra, "" if not extra else f"{sorted(extra)}"))
    # documentation oracle
    doc = ctx.doc_text("ug_serialize.rst")
    doc_keys = set(re.findall(r'"(\$[a-z_]+)"', doc)) | ({"meta"} if '"meta"' in doc else set()) | ({"nodes"} if '"nodes"' in doc else set())
    for k in sorted(doc_keys):
        ok = k in wk
        obs.append(ctx.ob("KEYS", ["C12"], "docs:ug_serialize.rst", f"documented key '{k}' is what save() writes", None, ok,
                          "" if ok else f"the user guide's examples use '{k}', save() does not write it (a consistent rename of writer and reader still breaks documented files)"))
    for k in sorted(doc_keys):
        if k in ("$format_version",):
            continue
        ok = k in rk
        obs.append(ctx.ob("KEYS", ["C12"], "docs:ug_serialize.rst", f"documented key '{k}' is what load() reads", None, ok,
                          "" if ok else f"documents written to the documented layout use '{k}', load() does not read it"))
    # value of $format_version / generator
    hdr = None
    for n in iter_own(sv.node):
        if isinstance(n, ast.Dict) and any(isinstance(k, ast.Constant) and isinstance(k.value, str) and k.value.startswith("$") for k in n.keys):
            hdr = n
    if hdr is None:
        raise AnalysisError("Tree.save: header literal not found")
    hv = {k.value: v for k, v in zip(hdr.keys, hdr.values) if isinstance(k, ast.Constant)}
    ok = "$format_version" in hv and "$generator" in hv and norm(hv.get("$format_version")) == "FILE_FORMAT_VERSION" \
        and "nutree/" in norm(hv.get("$generator")) and "get_version()" in norm(hv.get("$generator"))
    obs.append(ctx.ob("KEYS", ["C12"], sv, "header values: generator 'nutree/<version>', format version constant", hdr, ok,
                      "" if ok else "load() recognises files by the 'nutree/' generator tag"))
    # --- dict form
    td, fd = m.func("Node.to_dict"), m.func("Node.from_dict")
    wk, rk = _str_keys_written(td), _str_keys_read(fd, m)
    for k in sorted(wk):
        ok = k in rk
        obs.append(ctx.ob("KEYS", ["C14"], td, f"dict-form key '{k}' written by to_dict is read by from_dict", None, ok,
                          "" if ok else f"'{k}' would be lost on the way back"))
    for k in ("data", "data_id", "children"):
        ok = k in wk
        obs.append(ctx.ob("KEYS", ["C14"], td, f"to_dict emits '{k}'", None, ok, "" if ok else f"the documented dict form has '{k}'"))
    return obs


def _stmt_of(m, node: ast.AST) -> Optional[ast.stmt]:
    while node is not None and not isinstance(node, ast.stmt):
        node = m.parent_of(node)
    return node


def _in(node: ast.AST, root: ast.AST) -> bool:
    return any(node is x for x in ast.walk(root))


@rule("FMT", ["C05", "C12", "C14", "C17", "C19"], floor=20, section="3.11")
def fmt(ctx: Ctx) -> List[Ob]:
    """layout: 1-based entry indices with 0 for the root in writer and both readers; the maps written to the header are the ones applied; clone references only under equal kind and keyed like is_clone(); key/value compression mirrored; load() validates the header; save zips unless compression is False and flushes the text wrapper"""
    from .util import local_value, always_before, not_after, cond_texts, exit_cases, find_cases, find_under, path_conds, reaching_values, resolve_expr, split_cond, stmts_before

    obs: List[Ob] = []
    m = ctx.model
    env = ctx.env

    def O(props, f, label, ok, why="", node=None):
        """ok: True discharged / False violated / None undecided (anchor shape not recognised)"""
        obs.append(ctx.tri("FMT", props, f, label, node, ok, why))

    def RN(f, at, e, keep=()) -> str:
        return norm(resolve_expr(ctx, f, at, e, keep=keep))

    # ---------------------------------------------------------------- writer
    w = m.func("Node.to_list_iter")
    en = [n for n in iter_own(w.node) if isinstance(n, ast.For) and isinstance(n.iter, ast.Call) and norm(n.iter.func) == "enumerate"]
    e = None
    if len(en) == 1:
        e = match("for $i, $n in enumerate(self, 1):\n    ...", en[0]) or match("for $i, $n in enumerate(self, start=1):\n    ...", en[0])
    O(["C12", "C05"], w, "writer numbers entries with enumerate(self, 1) in pre-order", (e is not None) if len(en) == 1 else None,
      "entries are numbered from 1 in the default (pre-order) iteration; 0 is reserved for the root", en[0] if en else None)
    pm = one("$pm = {self._node_id: $$z}", w.node)
    O(["C12", "C05"], w, "writer maps the start node to parent index 0", None if pm is None else norm(pm[1]["$$z"]) == "0", "top-level entries must name parent 0")
    if e is not None and pm is not None:
        lp = en[0]
        iv, nv, pmv = e["$i"], e["$n"], pm[1]["$pm"]
        B = {"$i": iv, "$n": nv, "$pm": pmv}
        inside = {id(x) for x in ast.walk(lp)}

        def loop_conds(node):
            return [(a_, p_) for a_, p_ in path_conds(ctx, w, node) if id(getattr(a_, "_orig", a_)) in inside]

        # parent index recorded under the node's id, for nodes with children
        recs = [(n_, e_) for n_, e_ in find("$pm[$$k] = $i", lp, B) if RN(w, n_, e_["$$k"]) == f"{nv}._node_id"]
        O(["C12", "C05"], w, "a parent's own entry index is recorded under its node_id", len(recs) == 1 if recs or find("$pm[$$k] = $$v", lp, B) else None,
          "children look their parent up by node_id and must find the parent's entry position")
        st = recs[0] if len(recs) == 1 else None
        if st is not None:
            conts = [x for x in ast.walk(lp) if isinstance(x, ast.Continue)]
            extra = [t for t in cond_texts(loop_conds(st[0])) if t not in (f"{nv}._children", f"{nv}.children", f"{nv}.has_children()")]
            # the statement that holds the recording runs on every path to a `continue` of the same round
            top_st = [s_ for s_ in lp.body if _in(st[0], s_)]
            anchor = (top_st[0].test if isinstance(top_st[0], ast.If) else top_st[0]) if top_st else st[0]
            okp = not extra and all(always_before(ctx, w, anchor, c_) for c_ in conts)
            O(["C12", "C05"], w, "the index of a parent is recorded before any early `continue` (also for clones that have children)", okp,
              "a later occurrence of a clone that has children of its own would never record its index: save() fails with KeyError / children get a wrong parent")
        # every yielded entry names its parent's recorded index
        ys = [x for x in ast.walk(lp) if isinstance(x, ast.Yield) and isinstance(x.value, ast.Tuple) and len(x.value.elts) == 2]
        all_y = [x for x in iter_own(w.node) if isinstance(x, (ast.Yield, ast.YieldFrom))]
        okl = None
        if ys and len(ys) == len(all_y):
            okl = all(RN(w, y, y.value.elts[0], keep=[pmv]) == f"{pmv}[{nv}._parent._node_id]" for y in ys)
        O(["C12", "C05"], w, "each entry names its parent's recorded index", okl, "the parent reference must be the index recorded for node._parent")
        if st is not None and ys:
            lks = [x for x in ast.walk(lp) if isinstance(x, ast.Subscript) and isinstance(x.ctx, ast.Load) and norm(x.value) == pmv]
            O(["C12"], w, "the index is recorded before it can be looked up (pre-order: parents first)", all(not_after(ctx, w, st[0], x) or _stmt_of(m, x) is st[0] for x in lks) if lks else None)
        # clone references
        cm = one("$ci, $ck = $cm.get($$key, (None, None))", lp)
        if cm is not None:
            C = {**B, "$ci": cm[1]["$ci"], "$ck": cm[1]["$ck"], "$cm": cm[1]["$cm"]}
            ci, ck, cmv = cm[1]["$ci"], cm[1]["$ck"], cm[1]["$cm"]
            ref = [y for y in ys if norm(y.value.elts[1]) == ci]
            okc = None
            if len(ref) == 1:
                pcs = loop_conds(ref[0])
                kinds = [a_ for a_, p_ in pcs if p_ and isinstance(a_, ast.Compare) and len(a_.ops) == 1 and ck in (norm(a_.left), norm(a_.comparators[0]))]
                okc = len(kinds) == 1 and isinstance(kinds[0].ops[0], ast.Eq) and any(
                    RN(w, ref[0], side) in (f"getattr({nv}, 'kind', None)", f"{nv}.kind", f"{nv}._kind") for side in (kinds[0].left, kinds[0].comparators[0]))
                okc = okc and any(p_ and norm(a_) == ci for a_, p_ in pcs)
            O(["C12", "C05"], w, "a clone is stored as a bare index only when its kind equals (==) the first occurrence's", okc,
              "clones of differing kind must be written out in full; kinds are compared by value")
            if len(ref) == 1:
                full = [y for y in ys if y is not ref[0]]
                # after a clone reference the same node is not written again: no path from the reference to a full entry in the same round
                cfg = ctx.cfg(w)
                nr = cfg.stmt_node_of(ref[0], m.parent_of)
                hdr = cfg.node_for(lp)
                again = None
                for y in full:
                    ny = cfg.stmt_node_of(y, m.parent_of)
                    if nr is not None and ny is not None and cfg.find_path(nr, ny, avoid=lambda n_, h=hdr: n_ is h, strict=True) is not None:
                        again = y
                O(["C12"], w, "after a clone reference the entry is not written a second time", again is None, "missing `continue`")
            notes = [(n_, e_) for n_, e_ in find("$cm[$$key2] = ($i, $$nk)", lp, C)]
            okn = None
            if len(notes) == 1:
                okn = RN(w, notes[0][0], notes[0][1]["$$nk"]) in (f"getattr({nv}, 'kind', None)", f"{nv}.kind", f"{nv}._kind")
            elif find("$cm[$$key2] = $$v", lp, C):
                okn = False
            O(["C12", "C05"], w, "the first occurrence of a clone records (its index, its kind)", okn, "later occurrences refer to this index")
            if len(notes) == 1:
                pcs = loop_conds(notes[0][0])
                okn2 = any(p_ and norm(a_) == f"{nv}.is_clone()" for a_, p_ in pcs) and any((not p_) and norm(a_) == ci for a_, p_ in pcs)
                O(["C12", "C05"], w, "only clones are noted (elif node.is_clone())", okn2, "")
                k1, k2 = RN(w, cm[0], cm[1]["$$key"]), RN(w, notes[0][0], notes[0][1]["$$key2"])
                okk = k1 in (f"{nv}._data_id", f"{nv}.data_id") and k2 in (f"{nv}._data_id", f"{nv}.data_id")
                O(["C05", "C12"], w, "clone references are keyed by node._data_id (like is_clone())", okk,
                  f"the clone map is keyed by `{k1}` / `{k2}`, not by the node's data_id: nodes that share data but carry different explicit data_ids are "
                  "merged into one clone group on reload (and is_clone() groups by _data_id)")
        else:
            O(["C12", "C05"], w, "clone map lookup found", None, "clone reference shape not recognised")
        mp = [c for c in ast.walk(lp) if isinstance(c, ast.Call) and norm(c.func) == "call_mapper"]
        cp = [x for x in ast.walk(lp) if isinstance(x, ast.Call) and norm(x.func).endswith("_compress_entry")]
        okm = None
        if len(mp) == 1 and len(cp) == 1:
            okm = not_after(ctx, w, mp[0], cp[0]) and norm(cp[0].args[1]) == "key_map"
        O(["C05", "C12"], w, "mapper first, then key/value compression with the caller's maps", okm,
          "keys are shortened exactly as the header's maps declare, after the mapper produced them")
        if len(cp) == 1:
            gates = [a_ for a_, p_ in loop_conds(cp[0]) if any(isinstance(x, ast.Name) and x.id in ("key_map", "value_map") for x in ast.walk(a_))]
            okg = not gates or (len(gates) == 1 and isinstance(gates[0], ast.BoolOp) and isinstance(gates[0].op, ast.Or)
                                and {"key_map", "value_map"} <= {x.id for x in ast.walk(gates[0]) if isinstance(x, ast.Name)})
            O(["C05", "C12"], w, "entries are compressed when a key map OR a value map is in use", okg,
              "with key_map off and a value map on, the header declares $value_map but the entries keep the long values")
            vds = find("{$k: {$v: $j for $j, $v in enumerate($a)} for $k, $a in value_map.items()}", w.node)
            okv = None
            if len(vds) == 1 and len(cp[0].args) >= 3:
                vals = reaching_values(ctx, w, cp[0], cp[0].args[2])
                okv = any(v_ is vds[0][0] for v_ in vals)
            whyv = "value indices must be positions in the list written to the header"
            if okv is None:
                # witnessed wrong: the table is filed under another key than the one the caller (and the header) names
                for dc_ in [x for x in ast.walk(w.node) if isinstance(x, ast.DictComp) and len(x.generators) == 1 and norm(x.generators[0].iter) == "value_map.items()"
                            and isinstance(x.generators[0].target, ast.Tuple) and len(x.generators[0].target.elts) == 2]:
                    if norm(dc_.key) != norm(dc_.generators[0].target.elts[0]):
                        okv = False
                        whyv = (f"the value table of key k is filed under `{norm(dc_.key)}`: the header still declares it under k, which is the name the reader "
                                "(and _compress_entry, for the long key) looks it up by")
            O(["C05", "C12"], w, "value lists are turned into value->index dicts (index = position in the header's list)", okv, whyv)
    # --------------------------------------------------------------- readers
    for q in ("Tree._from_list", "TypedTree._from_list"):
        r = m.func(q)
        en = [n for n in iter_own(r.node) if isinstance(n, ast.For) and isinstance(n.iter, ast.Call) and norm(n.iter.func) == "enumerate"]
        e = None
        if len(en) == 1:
            e = match("for $i, ($p, $d) in enumerate(obj, 1):\n    ...", en[0]) or match("for $i, ($p, $d) in enumerate(obj, start=1):\n    ...", en[0])
        O(["C12", "C05"], r, "reader numbers entries from 1", (e is not None) if len(en) == 1 else None, "reader and writer must count alike", en[0] if en else None)
        nm = None
        for n in iter_own(r.node):
            if isinstance(n, (ast.Assign, ast.AnnAssign)) and n.value is not None:
                e2 = match("{0: $t._root}", n.value) or match("{0: $t.system_root}", n.value)
                if e2 is not None:
                    nm = norm(n.target if isinstance(n, ast.AnnAssign) else n.targets[0])
        O(["C12", "C05"], r, "reader maps index 0 to the root", (nm is not None) if any(isinstance(n, ast.Dict) for n in ast.walk(r.node)) else None, "parent index 0 is the (invisible) root")
        if e is None or nm is None:
            continue
        lp = en[0]
        iv, pv, dv = e["$i"], e["$p"], e["$d"]
        recs = find(f"{nm}[{iv}] = $$n", lp)
        adds_ = [c for c in ast.walk(lp) if isinstance(c, ast.Call) and isinstance(c.func, ast.Attribute) and c.func.attr in ("add", "add_child", "append_child")]
        okr = None
        if recs and adds_:
            # whatever reaches a recording statement was created by an add() of this round, and every add() is recorded
            # (one common recording statement, or one per branch)
            seen_ = []
            okr = True
            for rn_, re_ in recs:
                vals = reaching_values(ctx, r, rn_, re_["$$n"])
                if not vals or not all(any(v_ is c for c in adds_) for v_ in vals):
                    okr = False
                seen_ += [v_ for v_ in vals]
            okr = okr and all(any(v_ is c for v_ in seen_) for c in adds_)
            if len(recs) == 1:
                okr = okr and not [a_ for a_, p_ in path_conds(ctx, r, recs[0][0]) if _in(getattr(a_, "_orig", a_), lp)]
        elif not recs:
            okr = False
        O(["C12", "C05"], r, "every created node is recorded under its entry index: the one created for this entry (str, clone reference and dict entries)", okr,
          "later entries refer to earlier ones by position; children of a repeated occurrence would be attached below the first occurrence")
        # per entry kind: what is added, below which parent
        by_kind: Dict[str, List[ast.Call]] = {}
        for c in adds_:
            ts = cond_texts([(a_, p_) for a_, p_ in path_conds(ctx, r, c) if _in(getattr(a_, "_orig", a_), lp)])
            kind = "str" if f"isinstance({dv}, str)" in ts else ("int" if f"isinstance({dv}, int)" in ts else ("dict" if f"not isinstance({dv}, int)" in ts and f"not isinstance({dv}, str)" in ts else "?" + ",".join(sorted(ts))))
            by_kind.setdefault(kind, []).append(c)
        O(["C12"], r, "reader handles str, int (clone reference) and dict entries", {"str", "int", "dict"} <= set(by_kind) if adds_ else None,
          "entries of the documented layout are not handled")
        okp = None if not adds_ else all(RN(r, c, c.func.value, keep=[nm]) == f"{nm}[{pv}]" for c in adds_)
        O(["C12", "C05"], r, "the parent is looked up by the entry's parent index", okp, "every entry is added below the node recorded for its parent index")
        for c in by_kind.get("int", []):
            src = RN(r, c, c.args[0], keep=[nm]) if c.args else "?"
            kw = {k.arg: RN(r, c, k.value, keep=[nm]) for k in c.keywords}
            okc = src == f"{nm}[{dv}]" and kw.get("data_id") in (f"{nm}[{dv}].data_id", f"{nm}[{dv}]._data_id")
            O(["C12", "C05"], r, "a bare index re-creates a clone of the node at that position, under its data_id", okc,
              "clone references must resolve through the index map and keep the data_id")
            if q.startswith("Typed"):
                O(["C05"], r, "a typed clone reference keeps the first occurrence's kind", kw.get("kind") in (f"{nm}[{dv}].kind", f"{nm}[{dv}]._kind"), "kind lost on reload")
        for c in by_kind.get("dict", []):
            cmc = [x for x in ast.walk(lp) if isinstance(x, ast.Call) and norm(x.func) == "call_mapper"]
            reads = [x for x in ast.walk(lp) if isinstance(x, ast.Call) and isinstance(x.func, ast.Attribute) and x.func.attr == "get"
                     and norm(x.func.value) == dv and x.args and isinstance(x.args[0], ast.Constant)]
            okm = None
            if len(cmc) == 1 and reads:
                okm = all(not_after(ctx, r, x, cmc[0]) for x in reads)
            O(["C12", "C05"], r, "data_id (and kind) are read from the entry before the mapper gets the dict", okm,
              "a mapper may consume (pop) keys of the entry: ids and kinds read afterwards fall back to the defaults")
            want = {"data_id"} | ({"kind"} if q.startswith("Typed") else set())
            got = {x.args[0].value for x in reads}
            O(["C12", "C05"], r, f"reader takes {sorted(want)} from dict entries", want <= got, "stored ids/kinds ignored")
            kw = {k.arg: RN(r, c, k.value, keep=[nm]) for k in c.keywords}
            okd = kw.get("data_id") == f"{dv}.get('data_id')" and (not q.startswith("Typed") or (kw.get("kind") or "").startswith(f"{dv}.get('kind'")) \
                and len(cmc) == 1 and any(cmc[0] is v_ or _in(cmc[0], v_) for v_ in reaching_values(ctx, r, c, c.args[0]) if c.args)
            O(["C12", "C05"], r, "the node is added below the looked-up parent with the mapper's result, the stored data_id (and kind)", okd, "")
    # ------------------------------------------------------------------ save
    sv = m.func("Tree.save")
    hd = None
    for n in iter_own(sv.node):
        if isinstance(n, (ast.Assign, ast.AnnAssign)) and isinstance(n.value, ast.Dict) and any(
                isinstance(k, ast.Constant) and isinstance(k.value, str) and k.value.startswith("$") for k in n.value.keys):
            hd = norm(n.target if isinstance(n, ast.AnnAssign) else n.targets[0])
    if hd is None:
        raise AnalysisError("Tree.save: header dict not found")
    calls = [c for c in env.calls_in[sv] if isinstance(c.func, ast.Attribute) and c.func.attr == "to_list_iter"]
    for key, var in (("$key_map", "key_map"), ("$value_map", "value_map")):
        st = find(f"{hd}['{key}'] = $$v", sv.node)
        ok = None
        if len(st) == 1 and len(calls) == 1:
            ok = norm(st[0][1]["$$v"]) == var and any(k.arg == var and norm(k.value) == var for k in calls[0].keywords)
        O(["C12", "C05"], sv, f"the {var} written to the header is the one applied to the entries", ok, "a header map that differs from the applied one makes the file unreadable")
        if len(st) == 1:
            ts = cond_texts([(a_, p_) for a_, p_ in path_conds(ctx, sv, st[0][0]) if var in norm(a_)])
            O(["C12"], sv, f"header['{key}'] only when the map is in use", ts == {var})
    for var, dflt in (("key_map", "self.DEFAULT_KEY_MAP"), ("value_map", "self.DEFAULT_VALUE_MAP")):
        d1 = find_under(ctx, sv, f"{var} = $$d", [(f"{var} is True", True)])
        d2 = find_under(ctx, sv, f"{var} = $$d", [(f"{var} is False", True)])
        ok = None
        if len(d1) == 1 and len(d2) == 1:
            ok = norm(d1[0][1]["$$d"]) in (dflt, dflt + ".copy()", f"dict({dflt})") and norm(d2[0][1]["$$d"]) in ("{}", "dict()", "None")
            others = [n_ for n_, _e in find(f"{var} = $$d", sv.node) if n_ is not d1[0][0] and n_ is not d2[0][0]]
            ok = ok and not others
        O(["C05"], sv, f"{var}: True -> class default, False -> off, dict -> as given", ok, "option normalisation changed")
    upd = find_under(ctx, sv, f"{hd}.update(meta)", [])
    O(["C05", "C12"], sv, "user metadata goes into the header", len(upd) == 1 and {t_ for t_ in cond_texts(path_conds(ctx, sv, upd[0][0])) if "meta" in t_} <= {"meta", "not meta is None"} if upd else False, "save(meta=) must be stored")
    dumps = [c for c in env.calls_in[sv] if norm(c.func) == "json.dump"]
    ok = None
    if len(dumps) == 1 and len(dumps[0].args) >= 2:
        docv = resolve_expr(ctx, sv, dumps[0], dumps[0].args[0], keep=[hd])
        ok = isinstance(docv, ast.Dict) and {norm(k): norm(v) for k, v in zip(docv.keys, docv.values)}.get("'meta'") == hd and "'nodes'" in [norm(k) for k in docv.keys] \
            and norm(dumps[0].args[1]) == "target"
        if ok:
            nodes_v = [v for k, v in zip(docv.keys, docv.values) if norm(k) == "'nodes'"][0]
            ok = len(calls) == 1 and (norm(nodes_v) == f"list({norm(calls[0])})" or _in(calls[0], nodes_v) or norm(calls[0]) in norm(nodes_v))
    O(["C05", "C12"], sv, "the document {'meta': header, 'nodes': [...]} is dumped to the target stream", ok)
    ok = len(dumps) == 1 and {k.arg for k in dumps[0].keywords} <= {"indent", "separators", "ensure_ascii"} and not any(
        k.arg == "ensure_ascii" and norm(k.value) == "False" for k in dumps[0].keywords)
    O(["C05", "C19", "C12"], sv, "json.dump keeps the default ASCII-safe escaping (path and stream targets behave alike)", ok,
      "ensure_ascii=False makes the result depend on the target stream's encoding (lone surrogates from os.fsdecode fail for path targets only)")
    # ------------------------------------------------------------------ load
    ld = m.func("Tree.load")
    o = one("$o = json.load(target)", ld.node)
    ov = o[1]["$o"] if o else None
    rz = [c for c in exit_cases(ctx, ld, ("raise",))]
    ok = None
    if ov is not None and rz:
        # every way to get past the refusal(s) has checked all five facts
        fl_ = [c for c in env.calls_in[ld] if norm(c.func).endswith("_from_list")]
        if len(fl_) == 1:
            from .util import cond_texts_resolved

            known = cond_texts_resolved(ctx, ld, fl_[0], path_conds(ctx, ld, fl_[0]), keep=[ov])
            need = {f"isinstance({ov}, dict)", f"'meta' in {ov}", f"'nodes' in {ov}", f"'$generator' in {ov}['meta']"}
            gen_ok = any(t.startswith("'nutree/' in") and "$generator" in t for t in known)
            if not gen_ok:
                # the generator string is kept in a local that is bound in one branch only (`generator = str(obj['meta'][...])`)
                for a_, p_ in path_conds(ctx, ld, fl_[0]):
                    if p_ and isinstance(a_, ast.Compare) and len(a_.ops) == 1 and isinstance(a_.ops[0], ast.In) and norm(a_.left) == "'nutree/'":
                        if "$generator" in norm(local_value(ctx, ld, a_.comparators[0])):
                            gen_ok = True
            ok = need <= known and gen_ok
    O(["C12"], ld, "load() rejects JSON without the nutree header", ok, "non-dict documents, missing meta/nodes/$generator or a foreign generator must be refused", rz[0].stmt if rz else None)
    if ov is not None:
        ups = [c for c in env.calls_in[ld] if norm(c.func) == "file_meta.update"]
        ok = None if not ups else any(RN(ld, c, c.args[0], keep=[ov]) == f"{ov}['meta']" for c in ups if c.args)
        if not ups:
            ok = False
        O(["C05", "C12"], ld, "load() hands the stored header back through file_meta", ok, "file metadata must be returned")
        un = [c for c in env.calls_in[ld] if norm(c.func).endswith("_uncompress_entry")]
        fl = [c for c in env.calls_in[ld] if norm(c.func).endswith("_from_list")]
        ok = None
        if len(un) == 1 and len(un[0].args) == 3:
            km = RN(ld, un[0], un[0].args[1], keep=[ov])
            vm = RN(ld, un[0], un[0].args[2], keep=[ov])
            import re as _re

            km_n = _re.sub(r"\b[a-z_]\w*\b(?= for | in |:|,| \})", lambda mo: mo.group(0), km)
            ok_k = match(f"{{$v: $k for $k, $v in {ov}['meta'].get('$key_map', {{}}).items()}}", resolve_expr(ctx, ld, un[0], un[0].args[1], keep=[ov])) is not None
            ok_v = vm == f"{ov}['meta'].get('$value_map', {{}})"
            O(["C05", "C12"], ld, "the key map is read from the header and inverted", ok_k, "short keys must be mapped back to long keys")
            ok = ok_k and ok_v and len(fl) == 1 and not_after(ctx, ld, un[0], fl[0])
            # the expansion runs for every dict entry: it does not depend on one of the two maps being non-empty
            dep_ = [("" if p_ else "not ") + norm(a_) for a_, p_ in path_conds(ctx, ld, un[0])
                    if not norm(a_).startswith("isinstance(") and any(isinstance(x, ast.Name) and ("map" in x.id) for x in ast.walk(a_))]
            if dep_:
                ok = False
        O(["C05", "C12"], ld, "entries are expanded with the inverted key map and the header's value map before nodes are built", ok,
          "compressed entries would reach the mapper unexpanded")
        ok = None
        if len(fl) == 1:
            ok = any(k.arg == "mapper" and norm(k.value) == "mapper" for k in fl[0].keywords) and bool(fl[0].args) and RN(ld, fl[0], fl[0].args[0], keep=[ov]) == f"{ov}['nodes']"
        O(["C05", "C12"], ld, "the node list is built with the caller's mapper", ok)
    # ---- compress / uncompress mirrored
    for q, vm_key_is_mapped in (("Node._compress_entry", False), ("Tree._uncompress_entry", True)):
        f = m.func(q)
        pp = f.positional_params()
        dname, mapname, vmname = pp[1], pp[2], pp[3]
        lps = [n for n in iter_own(f.node) if isinstance(n, ast.For) and isinstance(n.target, ast.Tuple) and len(n.target.elts) == 2]
        if len(lps) != 1:
            for lab in ("no early exit that depends on only one of the two maps", "iterates a copy of the items while renaming keys",
                        "a mapped key replaces the entry (data[new] = data.pop(old)); unmapped keys stay", "values are translated through value_map under the long key"):
                O(["C05", "C12"], f, f"{q}: {lab}", None, "item loop not recognised")
            continue
        lp = lps[0]
        kv, vv = norm(lp.target.elts[0]), norm(lp.target.elts[1])
        # (a test that looks at *both* maps - "nothing to do when both are empty" - is not such an exit)
        import re as _re

        def _mentions(t: str, nm: str) -> bool:
            return _re.search(rf"\b{_re.escape(nm)}\b", t) is not None

        outer = [t for t in cond_texts(path_conds(ctx, f, lp)) if _mentions(t, mapname) != _mentions(t, vmname)]
        O(["C05", "C12"], f, f"{q}: no early exit that depends on only one of the two maps", not outer,
          f"{outer}: key map and value map are independent: with key_map off and a value map in use the values must still be translated")
        okcopy = match(f"list({dname}.items())", lp.iter) is not None or match(f"tuple({dname}.items())", lp.iter) is not None
        O(["C05", "C12"], f, f"{q}: iterates a copy of the items while renaming keys", okcopy, "renaming keys changes the dict during iteration", lp)
        # key renaming: data[map[key]] = data.pop(key) under `key in map`
        ren = find(f"{dname}[$$nk] = {dname}.pop({kv})", lp)
        ok = None
        newkey_under_map = None
        if len(ren) == 1:
            nk = ren[0][1]["$$nk"]
            nkv = [norm(v_) for v_ in reaching_values(ctx, f, ren[0][0], nk)]
            in_map = any(p_ and norm(a_) == f"{kv} in {mapname}" for a_, p_ in path_conds(ctx, f, ren[0][0]))
            # EAFP spelling: the renaming sits in the `else:` of `try: new = map[key] except KeyError: ...`
            par_ = m.parent_of(ren[0][0])
            if isinstance(par_, ast.Try) and any(ren[0][0] is x for x in par_.orelse) and any(h_.type is not None and norm(h_.type) == "KeyError" for h_ in par_.handlers) \
                    and any(isinstance(x, ast.Subscript) and norm(x) == f"{mapname}[{kv}]" for st_ in par_.body for x in ast.walk(st_)):
                in_map = True
                nkv = [v_ for v_ in nkv if v_ != kv]
            ok = f"{mapname}[{kv}]" in nkv and set(nkv) <= {f"{mapname}[{kv}]", kv} and in_map
            newkey_under_map = nk
        elif not ren and not find(f"{dname}.pop($$x)", lp):
            ok = False
        O(["C05", "C12"], f, f"{q}: a mapped key replaces the entry (data[new] = data.pop(old)); unmapped keys stay", ok, "keys must be renamed exactly as the map declares", lp)
        # value translation
        vms = find(f"{dname}[$$dk] = {vmname}[$$vk][{vv}]", lp)
        ok = None
        if len(vms) == 1:
            dk, vk = vms[0][1]["$$dk"], vms[0][1]["$$vk"]
            # dk: the key the value now lives under (new key if renamed, else the old one); vk: the *long* key name
            dvals = sorted(norm(v_) for v_ in reaching_values(ctx, f, vms[0][0], dk))
            ok = dvals == sorted([f"{mapname}[{kv}]", kv])
            if vm_key_is_mapped:
                ok = ok and sorted(norm(v_) for v_ in reaching_values(ctx, f, vms[0][0], vk)) == dvals
            else:
                ok = ok and norm(vk) == kv
            test_key = norm(vk)
            ok = ok and any(p_ and norm(a_) == f"{test_key} in {vmname}" for a_, p_ in path_conds(ctx, f, vms[0][0]))
        elif len(vms) == 2:
            # canonical form with the translation repeated in the renamed / not-renamed branch
            ok = True
            seen_br = set()
            for n_, e_ in vms:
                ts_ = cond_texts(path_conds(ctx, f, n_))
                mapped = f"{kv} in {mapname}" in ts_
                unmapped = f"not ({kv} in {mapname})" in ts_ or f"not {kv} in {mapname}" in ts_ or f"{kv} not in {mapname}" in ts_
                if mapped == unmapped:
                    ok = None
                    break
                seen_br.add(mapped)
                dkv = sorted(norm(v_) for v_ in reaching_values(ctx, f, n_, e_["$$dk"])) if isinstance(e_["$$dk"], ast.Name) else [norm(e_["$$dk"])]
                vkv = sorted(norm(v_) for v_ in reaching_values(ctx, f, n_, e_["$$vk"])) if isinstance(e_["$$vk"], ast.Name) else [norm(e_["$$vk"])]
                want_dk = [f"{mapname}[{kv}]"] if mapped else [kv]
                want_vk = want_dk if vm_key_is_mapped else [kv]
                good = dkv == want_dk and vkv == want_vk and any(p_ and norm(a_) == f"{norm(e_['$$vk'])} in {vmname}" for a_, p_ in path_conds(ctx, f, n_))
                if not good:
                    ok = False
                    break
            if ok and seen_br != {True, False}:
                ok = None
        elif not vms and not any(vmname in norm(x) for x in ast.walk(lp) if isinstance(x, ast.Subscript)):
            ok = False
        if not vm_key_is_mapped:
            # the writer translates *every* value under a mapped key: the reader takes every int it finds there for an index
            for n_, e_ in vms:
                for a_, p_ in path_conds(ctx, f, n_):
                    if vv in {x.id for x in ast.walk(a_) if isinstance(x, ast.Name)}:
                        ok = False  # e.g. `isinstance(value, str)`: other values are written raw and read back as an index
            if not vms and find(f"{dname}[$$dk] = {vmname}[$$vk].get({vv}, $$d)", lp):
                ok = False  # an unlisted value is written raw instead of being refused
        O(["C05", "C12"], f, f"{q}: values are translated through value_map under the long key", ok,
          "value_map is keyed by the unmapped (long) key name on both sides (as documented); writer and reader must mirror", lp)
    # ---- call_mapper: only None means "keep the dict"
    cmf = m.func("call_mapper")
    fn, _nd, dt = cmf.positional_params()[:3]
    cs = exit_cases(ctx, cmf, ("return",))
    ok = None
    calls_fn = [c for c in env.calls_in[cmf] if norm(c.func) == fn]
    if len(calls_fn) == 1 and cs:
        ok = True
        for c in cs:
            if c.value is None:
                ok = False
                continue
            vals = reaching_values(ctx, cmf, c.stmt, c.value)
            ts = cond_texts(c.conds)
            if norm(c.value) == dt:
                # the raw dict only when there is no mapper or it returned None
                if not (f"{fn} is None" in ts or any(t_.endswith(" is None") and not t_.startswith("not ") and t_ != f"{fn} is None" for t_ in ts)):
                    ok = False
            elif any(v_ is calls_fn[0] for v_ in vals):
                pass
            else:
                ok = False
    O(["C05", "C14", "C17", "C12"], cmf, "call_mapper: the mapper's result replaces the dict unless it is None (falsy results are values)", ok,
      "`res or data` would replace a falsy data object (0, empty container) by the raw entry dict")
    # ---- default mappers accept every key combination the writers emit for plain string entries
    for cn, nkeys in (("Tree", 2), ("TypedTree", 3)):
        dm_ = m.lookup(cn, "deserialize_mapper")
        bound_ = None
        for n_ in iter_own(dm_.node):
            if isinstance(n_, ast.Compare) and len(n_.ops) == 1 and match("len(data)", n_.left) is not None and isinstance(n_.comparators[0], ast.Constant):
                v_ = n_.comparators[0].value
                bound_ = v_ if isinstance(n_.ops[0], ast.LtE) else v_ - 1 if isinstance(n_.ops[0], ast.Lt) else None
        ok = has("'str' in data", dm_.node) and (bound_ is None and not has("len(data)", dm_.node) or (bound_ is not None and bound_ >= nkeys))
        O(["C05", "C12"], dm_, f"{cn}.deserialize_mapper accepts a plain-string entry with all {nkeys} keys its writer can emit", ok,
          f"a string node with a custom data_id is written with {nkeys} keys; the default mapper must not refuse the file the tree wrote itself")
    # ---- zip streams
    oc = m.func("open_as_compressed_output_stream")
    plain = [y for y in iter_own(oc.node) if isinstance(y, ast.Yield)]
    tests = [a_ for y in plain for a_, p_ in path_conds(ctx, oc, y) if "compression" in norm(a_)]
    ok = None if not tests else all(norm(t_) == "compression is False" for t_ in tests)
    O(["C05"], oc, "only `compression is False` writes plain JSON (0 == ZIP_STORED still zips)", ok, "a truthiness test would treat zipfile.ZIP_STORED (0) as 'no compression'")
    ok = None
    wraps = find("io.TextIOWrapper($$f, encoding=$$e)", oc.node)
    if wraps:
        ok = False
        for y in plain:
            if y.value is None:
                continue
            vals = reaching_values(ctx, oc, _stmt_of(m, y), y.value)
            if any(v_ is wraps[0][0] for v_ in vals):
                fl_ = find(f"{norm(y.value)}.flush()", oc.node)
                ok = bool(fl_) and all(not_after(ctx, oc, y, x[0]) for x in fl_)
    O(["C05"], oc, "the text wrapper is flushed before the zip member closes", ok, "buffered JSON would be lost: truncated file")
    zf = [c for c in env.calls_in[oc] if norm(c.func) == "zipfile.ZipFile"]
    ok = len(zf) == 1 and any(k.arg == "compression" and norm(k.value) == "compression" for k in zf[0].keywords)
    O(["C05"], oc, "the requested zip method is passed to ZipFile", ok, "compression option ignored")
    sv_open = [c for c in env.calls_in[sv] if norm(c.func) == "open_as_compressed_output_stream"]
    ok = len(sv_open) == 1 and any(k.arg == "compression" and norm(k.value) == "compression" for k in sv_open[0].keywords)
    O(["C05"], sv, "save(path) opens the target with the caller's compression", ok, "compression option ignored")
    ld_open = [c for c in env.calls_in[ld] if norm(c.func) == "open_as_uncompressed_input_stream"]
    ok = len(ld_open) == 1 and any(k.arg == "auto_uncompress" and norm(k.value) == "auto_uncompress" for k in ld_open[0].keywords)
    O(["C05"], ld, "load(path) opens the source with the caller's auto_uncompress", ok)
    # ---- KEYMAP-INJ
    for cn in m.subclasses("Tree"):
        km = _const_dict(m.class_const(cn, "DEFAULT_KEY_MAP"))
        if km is None:
            raise AnalysisError(f"{cn}.DEFAULT_KEY_MAP is not a literal dict")
        site = f"{m.module_of_cls(cn)}:{cn}"
        O(["C05", "C12"], site, f"{cn}.DEFAULT_KEY_MAP is injective", len(set(km.values())) == len(km), "two long keys share a short key: the inverse map loses one")
        sm = m.lookup(cn, "serialize_mapper")
        emitted = _str_keys_written(sm) if sm is not None else set()
        clash = set(km.values()) & (emitted - set(km.keys()))
        O(["C05", "C19"], site, f"{cn}: default short keys do not collide with keys of its serialize_mapper", not clash,
          f"short key(s) {sorted(clash)} are also emitted by the mapper: on load they are renamed to the long key")
    ok = _const_dict(m.class_const("Tree", "DEFAULT_KEY_MAP")) == {"data_id": "i", "str": "s"} and \
        _const_dict(m.class_const("TypedTree", "DEFAULT_KEY_MAP")) == {"data_id": "i", "str": "s", "kind": "k"}
    O(["C12"], "tree:Tree", "default key maps equal the documented ones", ok, "the user guide documents the default maps")
    # ---- TypedTree.save: kind value map
    ts = m.func("TypedTree.save")
    ups = find("$vm.update({'kind': $$l})", ts.node) + find("$vm['kind'] = $$l", ts.node)
    ok = None
    if len(ups) == 1:
        vmn = ups[0][1]["$vm"]
        ok = any(p_ is False and norm(a_) == f"'kind' in {vmn}" for a_, p_ in path_conds(ctx, ts, ups[0][0]))
    O(["C05"], ts, "typed save adds the list of kinds to the value map unless the caller supplied one", ok,
      "kind indices written to the entries must refer to a list stored in the header")
    loads = [x for x in ast.walk(ts.node) if isinstance(x, ast.Attribute) and x.attr in ("DEFAULT_VALUE_MAP", "DEFAULT_KEY_MAP")]
    ok = None if not loads else all((isinstance(m.parent_of(x), ast.Attribute) and m.parent_of(x).attr == "copy") or (
        isinstance(m.parent_of(x), ast.Call) and norm(m.parent_of(x).func) in ("dict", "copy.copy", "copy.deepcopy")) for x in loads)
    O(["C05"], ts, "the class default map is copied before the kind list is added", ok, "updating the class attribute leaks one tree's kinds into every later save")
    ok = None
    if len(ups) == 1:
        # the list stored under 'kind' is derived from a walk over all nodes of the tree
        src_loops = [lp_ for lp_ in ast.walk(ts.node) if isinstance(lp_, (ast.For, ast.comprehension)) and any(
            isinstance(x, ast.Attribute) and x.attr in ("kind", "_kind") and isinstance(x.value, ast.Name) and x.value.id in [t_.id for t_ in ast.walk(lp_.target) if isinstance(t_, ast.Name)]
            for x in ast.walk(lp_ if isinstance(lp_, ast.For) else m.parent_of(lp_)))]
        if src_loops:
            ok = all(norm(lp_.iter) in ("self", "self.iterator()", "self._root", "self.system_root", "self._root.iterator()") for lp_ in src_loops)
    O(["C05"], ts, "the kind list is collected from all nodes of the tree", ok, "a kind missing from the list cannot be encoded")
    # ---- dict form: recursion in order
    td, fd = m.func("Node.to_dict"), m.func("Node.from_dict")
    recs = [c for c in env.calls_in[td] if isinstance(c.func, ast.Attribute) and c.func.attr == "to_dict"]
    ok = None
    if len(recs) == 1:
        c = recs[0]
        holder = m.parent_of(c)
        lp_ = holder
        while lp_ is not None and not isinstance(lp_, (ast.For, ast.ListComp)):
            lp_ = m.parent_of(lp_)
        if isinstance(lp_, ast.For):
            it, tv = lp_.iter, norm(lp_.target)
        elif isinstance(lp_, ast.ListComp):
            it, tv = lp_.generators[0].iter, norm(lp_.generators[0].target)
        else:
            it, tv = None, None
        if it is not None:
            ok = norm(it) in ("self._children", "self.children") and norm(c.func.value) == tv and any(k.arg == "mapper" and norm(k.value) == "mapper" for k in c.keywords)
            # the collected list ends up under 'children'
            ok = ok and any(isinstance(x, ast.Subscript) and isinstance(x.ctx, ast.Store) and norm(x.slice) == "'children'" for x in ast.walk(td.node))
    O(["C14"], td, "to_dict nests the children's dicts in child order", ok, "the nested form mirrors the tree")
    mc = [c for c in env.calls_in[td] if norm(c.func) == "call_mapper"]
    ok = None
    if len(mc) == 1:
        # every returned dict is the mapper's result (or derived from it), not the dict built before the mapper ran
        rets = [c for c in exit_cases(ctx, td, ("return",)) if c.value is not None]
        ok = bool(rets) and all(any(v_ is mc[0] for v_ in reaching_values(ctx, td, c.stmt, c.value)) for c in rets)
        # witness: on some path the entry is not this node's own mapped dict but one taken from a table (another node's)
        for c in rets:
            for v_ in reaching_values(ctx, td, c.stmt, c.value):
                inner = v_.func.value if isinstance(v_, ast.Call) and isinstance(v_.func, ast.Attribute) and v_.func.attr in ("copy", "get") and not isinstance(v_.func.value, ast.Name) else v_
                if isinstance(v_, ast.Call) and isinstance(v_.func, ast.Attribute) and v_.func.attr == "get" and isinstance(v_.func.value, ast.Name):
                    inner = v_
                if (isinstance(inner, ast.Subscript) and isinstance(inner.value, ast.Name)) or (inner is v_ and isinstance(v_, ast.Call) and isinstance(v_.func, ast.Attribute) and v_.func.attr == "get"):
                    ok = False
    O(["C14"], td, "to_dict uses the dict returned by the mapper (a mapper may return a new dict)", ok,
      "a serialize mapper that returns a new dict instead of patching the passed one would be ignored")
    # the children are attached to the mapper's result, i.e. after it ran: a mapper that returns a new dict keeps them
    ok = None
    if len(mc) == 1:
        stores = [x for x in ast.walk(td.node) if isinstance(x, ast.Subscript) and isinstance(x.ctx, ast.Store) and norm(x.slice) == "'children'" and isinstance(x.value, ast.Name)]
        if len(stores) == 1:
            st_ = stores[0]
            while st_ is not None and not isinstance(st_, ast.stmt):
                st_ = m.parent_of(st_)
            if any(v_ is mc[0] for v_ in reaching_values(ctx, td, st_, stores[0].value)):
                ok = True
            elif not_after(ctx, td, st_, mc[0]) and any(norm(a_) == norm(stores[0].value) for a_ in mc[0].args):
                ok = False
    O(["C14"], td, "to_dict attaches the children to the dict the mapper returned", ok,
      "children stored on the dict that is handed to the mapper are lost when the mapper returns a new dict")
    # the dict form carries the *string form* of the data object (objects are not JSON-able; from_dict gets strings back)
    dvals = []
    for x in ast.walk(td.node):
        if isinstance(x, ast.Dict):
            dvals += [v for k_, v in zip(x.keys, x.values) if k_ is not None and norm(k_) == "'data'"]
        if isinstance(x, ast.Assign) and any(isinstance(t_, ast.Subscript) and norm(t_.slice) == "'data'" for t_ in x.targets):
            dvals.append(x.value)
    okd = None
    if dvals:
        texts = [norm(v) for v in dvals]
        if all(t_ in ("str(self.data)", "str(self._data)", "f'{self.data}'", "f'{self._data}'") for t_ in texts):
            okd = True
        elif any(t_ in ("self.data", "self._data") for t_ in texts):
            okd = False
    O(["C14"], td, "to_dict stores the string form of the data object under 'data'", okd, "the live object would be emitted: the dict form is no longer plain data (json.dumps fails for object trees)")
    ids = find("$$r['data_id'] = self._data_id", td.node)
    ok = None
    if len(ids) == 1:
        ts_ = cond_texts(path_conds(ctx, td, ids[0][0]))
        ok = ts_ in ({"not (self._data_id == hash(self._data))"}, {"not (hash(self._data) == self._data_id)"})
    elif not ids:
        lit = [n for n in ast.walk(td.node) if isinstance(n, ast.Dict) and "'data_id'" in [norm(k) for k in n.keys if k is not None]]
        ok = None if lit else False
    O(["C14"], td, "to_dict stores data_id whenever it is not hash(data) (falsy ids included)", ok, "custom ids must survive")
    lps = [n for n in iter_own(fd.node) if isinstance(n, ast.For) and norm(n.iter) == fd.positional_params()[1] and isinstance(n.target, ast.Name)]
    ok = None
    if len(lps) == 1:
        lp = lps[0]
        iv = lp.target.id
        adds = [c for c in ast.walk(lp) if isinstance(c, ast.Call) and isinstance(c.func, ast.Attribute) and c.func.attr in ("append_child", "add_child", "add")
                and norm(c.func.value) == "self"]
        recs = [c for c in ast.walk(lp) if isinstance(c, ast.Call) and isinstance(c.func, ast.Attribute) and c.func.attr == "from_dict"]
        if adds and len(recs) == 1:
            # (one append per item; the canonical form may hold one call per mapper/no-mapper branch)
            ok = any(k.arg == "mapper" and norm(k.value) == "mapper" for k in recs[0].keywords)
            for ad in adds:
                kw = {k.arg: RN(fd, ad, k.value) for k in ad.keywords}
                if any(k.arg is None for k in ad.keywords) and "data_id" not in kw:
                    ok = None if ok else ok  # **kwargs built elsewhere: not read here
                    continue
                ok = ok and kw.get("data_id") == f"{iv}.get('data_id')" and "before" not in kw
            # data_id is read after the mapper ran
            mcs = [c for c in ast.walk(lp) if isinstance(c, ast.Call) and norm(c.func) == "call_mapper"]
            gets = [x for x in ast.walk(lp) if isinstance(x, ast.Call) and norm(x) == f"{iv}.get('data_id')"]
            ok = ok and all(not_after(ctx, fd, mc_, g_) for mc_ in mcs for g_ in gets)
            # the recursion runs on the child just created, with the item's children
            rv_ = reaching_values(ctx, fd, recs[0], recs[0].func.value)
            ok = ok and bool(rv_) and all(any(v_ is ad for ad in adds) for v_ in rv_) and len(rv_) == len(adds) and bool(recs[0].args) \
                and RN(fd, recs[0], recs[0].args[0]) in (f"{iv}.get('children')", f"{iv}['children']")
    pops = [c for c in ast.walk(fd.node) if isinstance(c, ast.Call) and isinstance(c.func, ast.Attribute) and c.func.attr in ("pop", "popitem", "clear", "update", "setdefault")
            and norm(c.func.value) in ([norm(lps[0].target)] if lps else [])]
    O(["C14"], fd, "from_dict only reads the caller's structure (no pop/update on the items)", not pops,
      f"`{norm(pops[0])}` strips the caller's data: a second from_dict() on the same structure builds a different tree" if pops else "")
    O(["C14"], fd, "from_dict appends one child per item in order, passing its data_id (read after the mapper ran), and recurses into its 'children' on that child", ok,
      "shape, order, custom ids and nesting must be rebuilt; a deserialize mapper may supply item['data_id']")
    tl = m.func("Tree.to_dict_list")
    recs = [c for c in ast.walk(tl.node) if isinstance(c, ast.Call) and isinstance(c.func, ast.Attribute) and c.func.attr == "to_dict"]
    ok = None
    if len(recs) == 1:
        lp_ = m.parent_of(recs[0])
        while lp_ is not None and not isinstance(lp_, (ast.For, ast.ListComp)):
            lp_ = m.parent_of(lp_)
        it, tv = (lp_.iter, norm(lp_.target)) if isinstance(lp_, ast.For) else ((lp_.generators[0].iter, norm(lp_.generators[0].target)) if isinstance(lp_, ast.ListComp) else (None, None))
        if it is not None:
            ok = RN(tl, recs[0], it) in ("self._root.children", "self._root._children", "self.children", "self.system_root.children") and norm(recs[0].func.value) == tv \
                and any(k.arg == "mapper" and norm(k.value) == "mapper" for k in recs[0].keywords)
    if ok is None and recs and any(norm(c.func.value) in ("self._root", "self.system_root") for c in recs):
        ok = False  # witness: the invisible root itself is serialised (its mapper call, its missing 'children' for an empty tree)
    O(["C14"], tl, "to_dict_list collects one dict per top-level node", ok, "the system root is not part of the dict form; an empty tree gives []")
    return obs
