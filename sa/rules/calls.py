"""Call-shape rules: wrapper forwarding, binding, un-called references,
override signatures (DESIGN 3.6)."""
from __future__ import annotations

import ast
from typing import Dict, List, Optional, Set, Tuple

from ..core import Ctx, Ob, rule
from ..infer import CALLABLE, NODE, TREE
from ..model import AnalysisError, Func, iter_own, norm

RENAME = {"add_root": "add_self", "add_self": "add_root"}


def _all_calls(ctx: Ctx, w: Func) -> List[Tuple[Func, ast.Call]]:
    out = [(w, c) for c in ctx.env.calls_in[w]]
    for g in w.nested:
        out += _all_calls(ctx, g)
    return out


def _loads_outside(w: Func, call: ast.Call, name: str) -> bool:
    """Is parameter `name` read anywhere in w (nested included) other than in
    the argument list of `call`?"""
    inside = {id(x) for x in ast.walk(call)}
    for x in ast.walk(w.node):
        if isinstance(x, ast.Name) and x.id == name and isinstance(x.ctx, ast.Load) and id(x) not in inside:
            return True
    return False


def _prop_for_wrapper(w: Func) -> List[str]:
    n = w.name
    q = w.qualname
    if n in ("save", "load", "to_list_iter", "_from_list"):
        return ["C05", "C12"]
    if "dot" in n or "mermaid" in n or "rdf" in n or w.module in ("dot", "mermaid", "rdf"):
        return ["C17"]
    if n in ("format", "format_iter", "print", "_render_lines"):
        return ["C16"]
    if n in ("visit", "iterator", "__iter__"):
        return ["C06"]
    if n in ("find_all", "find_first", "find", "__contains__", "__getitem__"):
        return ["C09"]
    if n in ("filter", "filtered"):
        return ["C08"]
    if n in ("copy", "copy_to", "_add_from"):
        return ["C07", "C08"] if n == "copy" else ["C07"]
    if n in ("diff",) or w.module == "diff":
        return ["C11"]
    if n in ("from_dict", "to_dict", "to_dict_list"):
        return ["C14"]
    if n == "build_random_tree":
        return ["C20"]
    if n in ("first_child", "last_child", "get_siblings", "get_children") and (w.cls or "").startswith("Typed"):
        return ["C15"]
    if n in ("sort", "sort_children", "add_child", "append_child", "prepend_child", "prepend_sibling",
             "append_sibling", "move_to", "remove", "clear", "rename", "set_data"):
        return ["C04"]
    return ["C04"]


@rule("KWARGS-FWD", ["C04", "C05", "C06", "C07", "C08", "C09", "C11", "C12", "C14", "C15", "C16", "C17", "C20"],
      floor=90, section="3.6")
def kwargs_fwd(ctx: Ctx) -> List[Ob]:
    """delegating wrappers forward every parameter they share with the callee to the parameter of the same name (no dropped, crossed or silently replaced option)"""
    obs: List[Ob] = []
    env = ctx.env
    m = ctx.model
    for w in m.all_funcs():
        if w.parent is not None:
            continue
        wparams = [p for p in w.param_names() if p != w.self_name and p not in ("cls",)]
        if len(wparams) < 1:
            continue
        # pass 1: the delegating calls of w
        wcalls = []
        for holder, call in _all_calls(ctx, w):
            if any(isinstance(a, ast.Starred) for a in call.args) or any(k.arg is None for k in call.keywords):
                continue
            for g, recv in env.callees(holder, call):
                if g.name == "__init__" and g.cls and not m.is_family(g.cls, "Tree"):
                    continue
                gparams = [p for p in g.param_names() if p != g.self_name]
                shared = []
                for p in wparams:
                    if p in gparams:
                        shared.append((p, p))
                    elif RENAME.get(p) in gparams and p not in gparams:
                        shared.append((p, RENAME[p]))
                subset = len(shared) == len(wparams) and len(shared) >= 1 and w.name not in ("__init__",)
                if len(shared) >= 2 or subset:
                    wcalls.append((holder, call, g, recv, shared))
        if not wcalls:
            continue
        inside = set()
        for _h, call, g_, recv_, shared_ in wcalls:
            b_ = recv_ is not None or g_.name == "__init__" or g_.kind == "classmethod"
            for _p, gp_ in shared_:
                a_ = env._actual_for(g_, call, gp_, bound=b_)
                if a_ is not None:
                    inside |= {id(x) for x in ast.walk(a_)}

        def consumed(pname: str) -> bool:
            """the parameter is used by w's own logic (anywhere but as an
            argument of one of its delegating calls)"""
            for x in ast.walk(w.node):
                if isinstance(x, ast.Name) and x.id == pname and isinstance(x.ctx, ast.Load) and id(x) not in inside:
                    return True
            return False

        props = _prop_for_wrapper(w)
        for holder, call, g, recv, shared in wcalls:
            bound = recv is not None or g.name == "__init__" or g.kind == "classmethod"
            for p, gp in shared:
                a = env._actual_for(g, call, gp, bound=bound)
                label = f"{w.qualname} -> {norm(call.func)}(): {p}"
                if isinstance(a, ast.Name) and a.id == p:
                    obs.append(ctx.ob("KWARGS-FWD", props, w, label, call, True))
                elif a is None:
                    ok = consumed(p)
                    obs.append(ctx.ob("KWARGS-FWD", props, w, label, call, ok,
                                      "" if ok else f"parameter `{p}` is accepted but not forwarded to {g.qualname}({gp}=) at this call "
                                      "and not used otherwise: the caller's option is silently ignored"))
                elif isinstance(a, ast.Name) and a.id in wparams and a.id != p:
                    obs.append(ctx.ob("KWARGS-FWD", props, w, label, call, False,
                                      f"{g.qualname}({gp}=) receives `{a.id}` instead of `{p}` (crossed arguments)"))
                else:
                    mentions = any(isinstance(x, ast.Name) and x.id == p for x in ast.walk(a))
                    ok = mentions or consumed(p)
                    obs.append(ctx.ob("KWARGS-FWD", props, w, label, call, ok,
                                      "" if ok else f"{g.qualname}({gp}=) always receives `{norm(a)}`; parameter `{p}` is ignored"))
    return obs


# ------------------------------------------------------------------ SHORTCUT
#: documented shortcuts: wrapper -> (callee name, accepted receiver texts, {keyword: accepted value texts})
SHORTCUTS = {
    "Node.append_child": ("add_child", {"self"}, {"before": {"None"}}),
    "Node.prepend_child": ("add_child", {"self"}, {"before": {"True", "0", "self.first_child()"}}),
    "Node.prepend_sibling": ("add_child", {"self._parent"}, {"before": {"self"}}),
    "Node.append_sibling": ("add_child", {"self._parent"}, {"before": {"@next_sibling"}}),
    "TypedNode.append_child": ("add_child", {"self"}, {"before": {"None"}}),
    "TypedNode.prepend_child": ("add_child", {"self"}, {"before": {"True", "0", "self.first_child(ANY_KIND)", "self.first_child(kind=ANY_KIND)"}}),
    "TypedNode.prepend_sibling": ("add_child", {"self._parent"}, {"before": {"self"}}),
    "TypedNode.append_sibling": ("add_child", {"self._parent"}, {"before": {"@next_sibling"}}),
    "Tree.add_child": ("add_child", {"self._root", "self.system_root"}, {}),
    "TypedTree.add_child": ("add_child", {"self._root", "self.system_root"}, {}),
    "Tree.copy_to": ("copy_to", {"self._root", "self.system_root"}, {"add_self": {"False"}, "before": {"None"}}),
    "Tree.visit": ("visit", {"self._root", "self.system_root"}, {"add_self": {"False"}}),
    "Tree.clear": ("remove_children", {"self._root", "self.system_root"}, {}),
    "Tree.sort": ("sort_children", {"self._root", "self.system_root"}, {}),
    "Tree.filter": ("filter", {"self._root", "self.system_root"}, {}),
    "Node.filtered": ("copy", {"self"}, {"add_self": {"True"}, "predicate": {"predicate"}}),
    "Tree.filtered": ("copy", {"self"}, {"predicate": {"predicate"}}),
    "Tree.first_child": ("first_child", {"self._root", "self.system_root"}, {}),
    "Tree.last_child": ("last_child", {"self._root", "self.system_root"}, {}),
    "Tree.calc_height": ("calc_height", {"self._root", "self.system_root"}, {}),
    "Tree.to_list_iter": ("to_list_iter", {"self._root", "self.system_root"}, {}),
    "Tree.to_dot": ("to_dot", {"self._root", "self.system_root"}, {}),
    "Tree.to_mermaid_flowchart": ("to_mermaid_flowchart", {"self._root", "self.system_root"}, {}),
    "TypedTree.first_child": ("first_child", {"self._root", "self.system_root"}, {}),
    "TypedTree.last_child": ("last_child", {"self._root", "self.system_root"}, {}),
}


def _resolves_to_next_sibling_call(ctx: Ctx, w: Func, a: ast.AST) -> Tuple[bool, str]:
    """`a` is self.next_sibling(...) or a local bound to exactly that call."""
    def is_call(e):
        return isinstance(e, ast.Call) and isinstance(e.func, ast.Attribute) and e.func.attr == "next_sibling" and norm(e.func.value) == "self"

    if is_call(a):
        return True, ""
    if isinstance(a, ast.Name):
        vals = [b.expr for b in ctx.env.scope(w).resolve(a.id)[1] if b.kind == "val"]
        if vals and all(is_call(v) for v in vals):
            return True, ""
        if vals and any(isinstance(v, ast.Attribute) and v.attr == "next_sibling" for v in vals):
            return False, "the bound method `self.next_sibling` is passed instead of its result"
    return False, f"`{norm(a)}` is not the next sibling"


@rule("SHORTCUT", ["C04", "C07", "C06", "C08", "C15"], floor=20, section="3.6")
def shortcut(ctx: Ctx) -> List[Ob]:
    """documented shortcuts call the primitive on the documented receiver with the documented position arguments (append_child: before=None, prepend_sibling: parent.add_child(before=self), Tree.x -> root.x, ...)"""
    obs: List[Ob] = []
    for q, (callee, recvs, kws) in SHORTCUTS.items():
        w = ctx.model.func(q)
        props = ["C15"] if q.startswith("TypedTree.first") or q.startswith("TypedTree.last") else ["C04"]
        if callee in ("copy_to", "copy"):
            props = ["C07", "C04"]
        if q.endswith(".filtered"):
            props = ["C08"]
        if callee == "visit":
            props = ["C06"]
        calls = [c for c in ctx.env.calls_in[w] if isinstance(c.func, ast.Attribute) and c.func.attr in (callee, "add" if callee == "add_child" else callee)]
        if not calls:
            obs.append(ctx.ob("SHORTCUT", props, w, f"{q} delegates to {callee}()", None, False, f"no call of {callee}() found"))
            continue
        c = calls[-1]
        r = norm(c.func.value)
        if isinstance(c.func.value, ast.Name) and r not in recvs:
            # a local alias of the documented receiver
            vals = [b.expr for b in ctx.env.scope(w).resolve(r)[1] if b.kind == "val" and b.expr is not None]
            if len(vals) == 1:
                r = norm(vals[0])
        ok = r in recvs
        obs.append(ctx.ob("SHORTCUT", props, w, f"{q}: receiver of {callee}()", c, ok,
                          "" if ok else f"{callee}() is called on `{r}`, documented receiver is {sorted(recvs)}"))
        for k, accepted in kws.items():
            a = None
            for kw in c.keywords:
                if kw.arg == k:
                    a = kw.value
            if a is None:
                # absent: accepted only when the default equals an accepted text
                g = [g for g, _ in ctx.env.callees(w, c)]
                d = g[0].param_default(k) if g else None
                ok = d is not None and norm(d) in accepted
                obs.append(ctx.ob("SHORTCUT", props, w, f"{q}: {k}=", c, ok, "" if ok else f"`{k}` is not passed; documented value {sorted(accepted)}"))
                continue
            if "@next_sibling" in accepted:
                ok, why = _resolves_to_next_sibling_call(ctx, w, a)
                obs.append(ctx.ob("SHORTCUT", props, w, f"{q}: {k}=", c, ok, "" if ok else f"{k}: {why}"))
            else:
                ok = norm(a) in accepted
                obs.append(ctx.ob("SHORTCUT", props, w, f"{q}: {k}=", c, ok,
                                  "" if ok else f"`{k}={norm(a)}`, documented value {sorted(accepted)}"))
    return obs


# ----------------------------------------------------------------- CALL-BIND
def _bind_error(g: Func, call: ast.Call, bound: bool) -> Optional[str]:
    if any(isinstance(a, ast.Starred) for a in call.args) or any(k.arg is None for k in call.keywords):
        return None
    a = g.args
    pos = [x.arg for x in a.posonlyargs + a.args]
    if bound and pos:
        pos = pos[1:]
    kwonly = [x.arg for x in a.kwonlyargs]
    npos = len(call.args)
    if npos > len(pos) and a.vararg is None:
        return f"{npos} positional arguments, {g.qualname} takes {len(pos)}"
    given = set(pos[:npos])
    for k in call.keywords:
        if k.arg in given:
            return f"argument `{k.arg}` given twice"
        if k.arg not in pos and k.arg not in kwonly and a.kwarg is None:
            return f"{g.qualname}() has no parameter `{k.arg}`"
        given.add(k.arg)
    req = g.required_params()
    if bound and req and req[0] == (a.posonlyargs + a.args)[0].arg:
        req = req[1:]
    missing = [p for p in req if p not in given]
    if missing:
        return f"required argument(s) {missing} of {g.qualname}() not passed"
    return None


@rule("CALL-BIND", ["C04", "C05", "C15", "C07"], floor=120, section="3.6")
def call_bind(ctx: Ctx) -> List[Ob]:
    """every call whose callee is definite (self-dispatch per runtime class, super(), named function/class) binds to the callee's signature"""
    obs: List[Ob] = []
    env = ctx.env
    m = ctx.model
    for f in m.all_funcs():
        for c in env.calls_in[f]:
            fn = c.func
            definite = False
            if isinstance(fn, ast.Name):
                sc, bs = env.scope(f).resolve(fn.id)
                definite = sc is None or any(b.kind == "func" for b in bs)
            elif isinstance(fn, ast.Attribute):
                v = fn.value
                if isinstance(v, ast.Name) and (v.id == f.self_name or (v.id in m.classes and env.scope(f).resolve(v.id)[0] is None)):
                    definite = True
                if isinstance(v, ast.Call) and isinstance(v.func, ast.Name) and v.func.id == "super":
                    definite = True
            cs = env.callees(f, c)
            if not cs:
                continue
            errs = []
            for g, recv in cs:
                bound = recv is not None or g.name == "__init__" or (g.kind == "classmethod")
                if g.kind == "staticmethod":
                    bound = False
                e = _bind_error(g, c, bound)
                if e:
                    errs.append((g, e))
            cls = f.top.cls or ""
            props = ["C15", "C04"] if cls.startswith("Typed") else ["C04"]
            if f.name in ("save", "load"):
                props = ["C05"]
            if definite:
                ok = not errs
                obs.append(ctx.ob("CALL-BIND", props, f, norm(c), c, ok,
                                  "" if ok else f"TypeError at run time: {errs[0][1]}"
                                  + (f" (for runtime class(es) {m.runtime_classes_for(f)})" if f.top.cls else "")))
            elif errs and len(errs) == len(cs):
                obs.append(ctx.ob("CALL-BIND", props, f, norm(c), c, False, f"no candidate callee accepts this call: {errs[0][1]}"))
            elif errs:
                obs.append(ctx.ob("CALL-BIND", props, f, norm(c), c, True,
                                  f"binds for some receiver classes only: {errs[0][1]}", note=True))
    return obs


# ------------------------------------------------------------------ UNCALLED
@rule("UNCALLED", ["C04", "C15", "C17"], floor=3, section="3.6")
def uncalled(ctx: Ctx) -> List[Ob]:
    """a reference to a method (not a property) that is bound to a local is called before it is used as a value; it never flows un-called into a non-callable parameter"""
    obs: List[Ob] = []
    env = ctx.env
    m = ctx.model
    for f in m.all_funcs():
        sc = env.scope(f)
        for name, bs in sc.bindings.items():
            for b in bs:
                if b.kind != "val" or not isinstance(b.expr, ast.Attribute):
                    continue
                e = b.expr
                if CALLABLE not in env.types(f, e):
                    continue
                # a method reference bound to `name`
                called = False
                misuse = None
                for n in iter_own(f.node):
                    if isinstance(n, ast.Call):
                        if isinstance(n.func, ast.Name) and n.func.id == name:
                            called = True
                        for k in n.keywords:
                            if isinstance(k.value, ast.Name) and k.value.id == name:
                                for g, recv in env.callees(f, n):
                                    ann = g.param_annotation(k.arg) if k.arg else None
                                    from ..infer import ann_types

                                    t = ann_types(m, ann)
                                    if t and CALLABLE not in t:
                                        misuse = (n, k.arg, g)
                        for i, a in enumerate(n.args):
                            if isinstance(a, ast.Name) and a.id == name:
                                for g, recv in env.callees(f, n):
                                    pos = g.positional_params()
                                    if recv is not None and g.cls:
                                        pos = pos[1:]
                                    if i < len(pos):
                                        from ..infer import ann_types

                                        t = ann_types(m, g.param_annotation(pos[i]))
                                        if t and CALLABLE not in t:
                                            misuse = (n, pos[i], g)
                cls = f.top.cls or ""
                props = ["C15", "C04"] if cls.startswith("Typed") else ["C04"]
                ok = misuse is None
                obs.append(ctx.ob("UNCALLED", props, f, f"{name} = {norm(e)}", b.expr, ok,
                                  "" if ok else f"the bound method `{norm(e)}` (never called) is passed as `{misuse[1]}` to "
                                  f"{misuse[2].qualname}(), which expects a value: AttributeError/TypeError at run time"))
        # boolean-context form: note only
        for n in iter_own(f.node):
            if isinstance(n, (ast.If, ast.While)) and isinstance(n.test, ast.Attribute) and CALLABLE in env.types(f, n.test) \
                    and NODE in env.types(f, n.test.value):
                obs.append(ctx.ob("UNCALLED", ["C17"], f, f"if {norm(n.test)}", n, True,
                                  "bound method used as truth value (always true); behaviour-neutral here", note=True))
    return obs


# ------------------------------------------------------------------- LSP-SIG
LSP_ALLOW = {
    "TypedNode.first_child": "documented typed API: kind is required",
    "TypedNode.last_child": "documented typed API: kind is required",
    "TypedNode.has_children": "documented typed API: kind is required",
    "TypedNode.get_children": "documented typed API: kind is required",
    "TypedTree.first_child": "documented typed API: kind is required",
    "TypedTree.last_child": "documented typed API: kind is required",
    "TypedNode.__init__": "constructor takes the kind first",
    "_SystemRootNode.__init__": "internal constructor",
    "_SystemRootTypedNode.__init__": "internal constructor",
    "TypedTree.__init__": "same options",
}


@rule("LSP-SIG", ["C05", "C04", "C15"], floor=20, section="3.6")
def lsp_sig(ctx: Ctx) -> List[Ob]:
    """an override accepts every call shape its base accepts (no storage option of Tree.save/load is lost in TypedTree)"""
    obs: List[Ob] = []
    m = ctx.model
    for c in m.classes.values():
        if not (m.is_family(c.name, "Node") or m.is_family(c.name, "Tree")):
            continue
        for name, g in c.methods.items():
            base = None
            for k in c.mro[1:]:
                if name in m.classes[k].methods:
                    base = m.classes[k].methods[name]
                    break
            if base is None:
                continue
            if g.qualname in LSP_ALLOW:
                continue
            bp = [p for p in base.param_names() if p != base.self_name and p not in ("cls",)]
            gp = [p for p in g.param_names() if p != g.self_name and p not in ("cls",)]
            has_kwargs = g.args.kwarg is not None
            from ..known_funcs import KNOWN_PARAMS

            ref = KNOWN_PARAMS.get(f"{base.module}:{base.qualname}")
            if ref is not None:
                bp = [p for p in bp if p in ref]  # a new option of the base is not part of what any property states
            missing = [p for p in bp if p not in gp and not has_kwargs]
            extra_required = [p for p in g.required_params() if p not in bp and p != g.self_name and p not in ("cls",)]
            props = ["C05"] if name in ("save", "load", "_from_list") else ["C15"] if name in (
                "get_siblings", "first_sibling", "last_sibling", "prev_sibling", "next_sibling", "get_index",
                "is_first_sibling", "is_last_sibling", "children", "parent") else ["C04"]
            ok = not missing and not extra_required
            obs.append(ctx.ob("LSP-SIG", props, g, f"{g.qualname} accepts what {base.qualname} accepts", None, ok,
                              "" if ok else (f"parameter(s) {missing} of {base.qualname} are not accepted" if missing else
                                             f"new required parameter(s) {extra_required}")
                              + ": a call that works on the base class raises TypeError on the subclass"))
    return obs
