"""Lockset analysis for the snapshot operations (DESIGN 3.12, property C18)."""
from __future__ import annotations

import ast
from typing import Dict, List, Optional, Set, Tuple

from ..core import Ctx, Ob, rule
from ..effects import Effects
from ..infer import NODE, TREE, Env
from ..model import AnalysisError, Func, Model, iter_own, norm

STRUCT_READ_ATTRS = {"_root", "_node_by_id", "_nodes_by_data_id"}
#: entry points named by the property (subclass overrides are added by query)
SNAPSHOT_METHODS = ["save", "copy", "filtered", "copy_to", "to_dict_list", "to_dotfile"]


def _reads_structure(ctx: Ctx) -> Set[Func]:
    """Functions that (transitively) read the structural state of a tree or
    walk nodes: contain a load of _root/_node_by_id/_nodes_by_data_id/_children
    or call such a function."""
    cached = getattr(ctx, "_reads_struct", None)
    if cached is not None:
        return cached
    out: Set[Func] = set()
    env = ctx.env
    m = ctx.model
    for f in m.all_funcs():
        for n in iter_own(f.node):
            if isinstance(n, ast.Attribute) and isinstance(n.ctx, ast.Load) and n.attr in (STRUCT_READ_ATTRS | {"_children"}):
                out.add(f)
                break
            # iterating a node or a tree walks the structure (Node.__iter__/Tree.__iter__)
            it = None
            if isinstance(n, (ast.For, ast.comprehension)):
                it = n.iter
            elif isinstance(n, ast.YieldFrom):
                it = n.value
            elif isinstance(n, ast.Call) and isinstance(n.func, ast.Name) and n.func.id in ("list", "tuple", "sorted", "enumerate", "len") and n.args:
                it = n.args[0]
            if it is not None and (env.types(f, it) & {NODE, TREE}):
                out.add(f)
                break

    def prop_reads(f: Func, n: ast.Attribute) -> bool:
        bt = env.types(f, n.value)
        for base, tag in (("Node", NODE), ("Tree", TREE)):
            if tag in bt:
                for cn in m.subclasses(base):
                    g = m.lookup(cn, n.attr)
                    if g is not None and g.kind == "property" and g in out:
                        return True
        return False

    changed = True
    while changed:
        changed = False
        for f in m.all_funcs():
            if f in out:
                continue
            hit = any(g in out for g in f.nested)
            if not hit:
                for c in env.calls_in[f]:
                    if any(g in out for g, _ in env.callees(f, c)):
                        hit = True
                        break
            if not hit:
                for n in iter_own(f.node):
                    if isinstance(n, ast.Attribute) and isinstance(n.ctx, ast.Load) and prop_reads(f, n):
                        hit = True
                        break
            if hit:
                out.add(f)
                changed = True
    ctx._reads_struct = out  # type: ignore[attr-defined]
    return out


def _with_regions(f: Func, tvar: str) -> List[ast.With]:
    out = []
    for n in iter_own(f.node):
        if isinstance(n, ast.With):
            for it in n.items:
                if isinstance(it.context_expr, ast.Name) and it.context_expr.id == tvar:
                    out.append(n)
    return out


def _inside(ctx: Ctx, node: ast.AST, regions: List[ast.With], f: Func) -> bool:
    p = ctx.model.parent_of(node)
    while p is not None and p is not f.node:
        if any(p is r for r in regions):
            # inside the body, not the context expression
            return True
        p = ctx.model.parent_of(p)
    return False


class LockCheck:
    def __init__(self, ctx: Ctx):
        self.ctx = ctx
        self.reads = _reads_structure(ctx)
        self.memo: Dict[Tuple[str, str], Optional[List[Tuple[ast.AST, str]]]] = {}

    def unlocked_reads(self, f: Func, tvar: str) -> List[Tuple[ast.AST, str]]:
        """Structural reads of the tree named tvar in f (through any expression
        rooted at it: tvar._root..., a local alias, ...) that happen outside a
        `with tvar:` region and are not delegated to a callee that locks."""
        key = (f.site, tvar)
        if key in self.memo:
            r = self.memo[key]
            return [] if r is None else r  # None: in progress (coinductive assumption)
        self.memo[key] = None
        ctx = self.ctx
        env = ctx.env
        m = ctx.model
        regions = _with_regions(f, tvar)
        rt = "self" if tvar == f.self_name else f"p:{tvar}"

        def rooted(e: ast.AST) -> bool:
            return rt in env.roots(f, e) and bool(env.types(f, e) & {NODE, TREE})

        bad: List[Tuple[ast.AST, str]] = []
        for n in iter_own(f.node):
            why = None
            if isinstance(n, ast.Attribute) and isinstance(n.ctx, ast.Load) and n.attr in ("_node_by_id", "_nodes_by_data_id", "_children") and rooted(n.value):
                why = f"reads {norm(n)}"
            elif isinstance(n, ast.Attribute) and isinstance(n.ctx, ast.Load) and rooted(n.value):
                par = m.parent_of(n)
                if not (isinstance(par, ast.Call) and par.func is n):
                    bt = env.types(f, n.value)
                    for base, tag in (("Node", NODE), ("Tree", TREE)):
                        if tag in bt:
                            for cn in m.subclasses(base):
                                g = m.lookup(cn, n.attr)
                                if g is not None and g.kind == "property" and g in self.reads and g.name not in ("system_root", "tree"):
                                    why = f"reads property {norm(n)}"
            elif isinstance(n, ast.Call):
                for g, recv in env.callees(f, n):
                    if g not in self.reads or g.name == "__init__":
                        continue
                    how = None
                    if recv is not None and rooted(recv):
                        how = g.self_name
                    elif isinstance(n.func, ast.Attribute) and isinstance(n.func.value, ast.Call) and isinstance(n.func.value.func, ast.Name) \
                            and n.func.value.func.id == "super" and tvar == f.self_name:
                        how = g.self_name
                    else:
                        pos = g.positional_params()
                        if g.cls is not None and recv is not None:
                            pos = pos[1:]
                        for i, a in enumerate(n.args):
                            if rooted(a) and i < len(pos):
                                how = pos[i]
                        for k in n.keywords:
                            if k.arg and rooted(k.value):
                                how = k.arg
                    if how is None:
                        continue
                    sub = self.unlocked_reads(g, how)
                    if sub:
                        why = f"calls {g.qualname}() which reads the tree without taking its lock ({sub[0][1]})"
                        break
                if why is None and isinstance(n.func, ast.Name) and n.func.id in ("list", "len", "sorted", "tuple", "iter", "enumerate") and n.args and rooted(n.args[0]):
                    why = f"{n.func.id}({norm(n.args[0])}) walks the tree"
            elif isinstance(n, (ast.For, ast.comprehension)) and rooted(n.iter) and not isinstance(n.iter, ast.Call):
                why = f"iterates {norm(n.iter)}"
            elif isinstance(n, ast.Name) and n.id == tvar and isinstance(n.ctx, ast.Load) and TREE in env.types(f, n):
                # the tree in a boolean context: Tree.__len__ counts the nodes
                par_ = m.parent_of(n)
                if (isinstance(par_, ast.UnaryOp) and isinstance(par_.op, ast.Not)) or isinstance(par_, ast.BoolOp) or (isinstance(par_, (ast.If, ast.While, ast.IfExp)) and par_.test is n):
                    why = f"truth value of `{tvar}` (Tree.__len__ reads the node count)"
            elif isinstance(n, ast.YieldFrom) and rooted(n.value) and not isinstance(n.value, ast.Call):
                why = f"iterates {norm(n.value)}"
            if why is None:
                continue
            if _inside(ctx, n, regions, f):
                continue
            bad.append((n, why))
        self.memo[key] = bad
        return bad


_CONTROL_LOCK = '''
from __future__ import annotations
from .tree import Tree

def zz_nested_locks(a: Tree, b: Tree) -> None:
    with a:
        with b:
            pass
'''


@rule("LOCK", ["C18", "C14", "C13", "C05", "C07", "C08", "C17"], floor=12, section="3.12")
def lock(ctx: Ctx) -> List[Ob]:
    """lockset: every structural read of a snapshot operation happens inside `with tree:` (or is delegated to a callee that locks); __enter__/__exit__ acquire/release the tree's RLock on every path; the lock object is created once as an RLock; no snapshot operation takes a second tree's lock"""
    obs: List[Ob] = []
    m = ctx.model
    lc = LockCheck(ctx)
    # LOCK-1 ---------------------------------------------------------------
    entries: List[Tuple[Func, str]] = []
    for cn in m.subclasses("Tree"):
        for name in SNAPSHOT_METHODS:
            g = m.classes[cn].methods.get(name)
            if g is not None:
                entries.append((g, g.self_name))
    for name in SNAPSHOT_METHODS:
        if m.lookup("Tree", name) is None:
            raise AnalysisError(f"snapshot entry point Tree.{name} vanished")
    entries.append((m.func("tree_to_dotfile"), "tree"))
    for g, tvar in entries:
        bad = lc.unlocked_reads(g, tvar)
        props = ["C18", "C14"] if g.name == "to_dict_list" else ["C18", "C07", "C08"] if g.name in ("copy", "copy_to", "filtered") \
            else ["C18", "C17"] if g.name in ("tree_to_dotfile", "to_dotfile") else ["C18", "C05"] if g.name == "save" else ["C18"]
        if not bad:
            obs.append(ctx.ob("LOCK", props, g, f"{g.qualname}: all structural reads of `{tvar}` are under its lock", None, True))
        for n, why in bad:
            obs.append(ctx.ob("LOCK", props, g, f"unlocked read: {norm(n)}", n, False,
                              f"{why} outside `with {tvar}:` - a concurrent writer inside its own `with tree:` can be observed half-way"))
    # LOCK-1b: lazily evaluated reads (generators) are consumed inside the region
    def is_generator(g: Func) -> bool:
        return any(isinstance(x, (ast.Yield, ast.YieldFrom)) for x in iter_own(g.node, into_lambda=False))

    for g, tvar in entries:
        regions = _with_regions(g, tvar)
        for c in ctx.env.calls_in[g]:
            if not _inside(ctx, c, regions, g):
                continue
            gens = [h for h, _ in ctx.env.callees(g, c) if h in lc.reads and is_generator(h)]
            if not gens:
                continue
            par = m.parent_of(c)
            why = None
            if isinstance(par, (ast.Assign, ast.AnnAssign)) and isinstance((par.targets[0] if isinstance(par, ast.Assign) else par.target), ast.Name):
                nm = (par.targets[0] if isinstance(par, ast.Assign) else par.target).id
                outside = [x for x in iter_own(g.node) if isinstance(x, ast.Name) and x.id == nm and isinstance(x.ctx, ast.Load) and not _inside(ctx, x, regions, g)]
                if outside:
                    why = f"the generator `{norm(c)}` is created under the lock but consumed at L{outside[0].lineno}, after the lock was released"
            elif isinstance(par, ast.Return):
                why = f"the generator `{norm(c)}` is returned from inside the region: it is consumed after the lock was released"
            obs.append(ctx.ob("LOCK", ["C18", "C17"] if "dot" in g.name else ["C18", "C05"], g, f"lazy walk {gens[0].qualname}() is consumed inside the critical section of {g.qualname}", c, why is None,
                              "" if why is None else why + ": the tree is read outside `with tree:`"))
    # LOCK-1c: one snapshot = one critical section on every path
    for g, tvar in entries:
        regions = [r for r in _with_regions(g, tvar)
                   if not any(r is not o and any(x is r for x in ast.walk(o)) for o in _with_regions(g, tvar))]
        cfg = ctx.cfg(g)
        units = []  # (cfg node where the unit starts, description)
        for r in regions:
            n = cfg.node_for(r)
            if n is not None:
                units.append((n, f"with {tvar}: at L{r.lineno}", r))
        for c in ctx.env.calls_in[g]:
            if _inside(ctx, c, _with_regions(g, tvar), g):
                continue
            for h, recv in ctx.env.callees(g, c):
                if h in lc.reads and h.name != "__init__":
                    passes = (recv is not None and isinstance(recv, ast.Name) and recv.id == tvar) or \
                        (isinstance(c.func, ast.Attribute) and isinstance(c.func.value, ast.Call) and norm(c.func.value.func) == "super" and tvar == g.self_name) or \
                        any(isinstance(a, ast.Name) and a.id == tvar for a in list(c.args) + [k.value for k in c.keywords])
                    if passes:
                        n = cfg.stmt_node_of(c, m.parent_of)
                        if n is not None:
                            units.append((n, f"{norm(c.func)}() at L{c.lineno}", c))
                        break
        bad = None
        for a in units:
            for b in units:
                if a[0] is b[0]:
                    continue
                # a path that leaves unit a and later enters unit b
                if cfg.find_path(a[0], b[0], strict=True) is not None and not any(x is b[2] for x in ast.walk(a[2])):
                    bad = (a, b)
        obs.append(ctx.ob("LOCK", ["C18"], g, f"{g.qualname} reads the tree in one critical section per call", None, bad is None,
                          "" if bad is None else f"two separately locked sections on one path ({bad[0][1]}, then {bad[1][1]}): a writer can run in between, "
                          "so the operation does not observe one state between two critical sections"))
    # LOCK-1d: the lock is only driven through the context manager
    raw = []
    for h in m.all_funcs():
        if h.qualname in ("Tree.__enter__", "Tree.__exit__"):
            continue
        for c in ctx.env.calls_in[h]:
            if isinstance(c.func, ast.Attribute) and c.func.attr in ("acquire", "release", "__enter__", "__exit__") and norm(c.func.value).endswith("._lock"):
                raw.append((h, c))
    obs.append(ctx.ob("LOCK", ["C18", "C13"], raw[0][0] if raw else "package", "the tree lock is acquired and released only by `with tree:` (__enter__/__exit__)", raw[0][1] if raw else None, not raw,
                      "" if not raw else f"{raw[0][0].qualname} calls `{norm(raw[0][1])}` directly: without try/finally an exception (e.g. from a mapper) leaves the lock held "
                      "and every other thread blocks"))
    # LOCK-2 ---------------------------------------------------------------
    ent = m.func("Tree.__enter__")
    ex = m.func("Tree.__exit__")
    acq = [c for c in ctx.env.calls_in[ent] if isinstance(c.func, ast.Attribute) and c.func.attr in ("acquire", "__enter__") and norm(c.func.value) == "self._lock"]
    ok = bool(acq) and all(not c.args and not c.keywords for c in acq)  # (RLock.__enter__ is acquire())
    cfg = ctx.cfg(ent)
    if ok:
        an = cfg.stmt_node_of(acq[0], m.parent_of)
        ok = cfg.find_path(cfg.entry, cfg.exit, avoid=lambda n: n is an, strict=True) is None
    obs.append(ctx.ob("LOCK", ["C18"], ent, "__enter__ acquires self._lock (blocking) on every path", None, ok,
                      "" if ok else "`with tree:` must block until the lock is free"))
    rets = [n for n in iter_own(ent.node) if isinstance(n, ast.Return)]
    ok = bool(rets) and all(r.value is not None and norm(r.value) == "self" for r in rets)
    obs.append(ctx.ob("LOCK", ["C18"], ent, "__enter__ returns self", None, ok, "" if ok else "`with tree as t:` must bind the tree"))
    rel = [c for c in ctx.env.calls_in[ex] if isinstance(c.func, ast.Attribute) and c.func.attr in ("release", "__exit__") and norm(c.func.value) == "self._lock"]  # (RLock.__exit__ is release())
    cfg = ctx.cfg(ex)
    ok = bool(rel)
    if ok:
        rn = cfg.stmt_node_of(rel[0], m.parent_of)
        ok = cfg.find_path(cfg.entry, cfg.exit, avoid=lambda n: n is rn, strict=True) is None and len(rel) == 1
        # not inside a loop / conditional re-release
    obs.append(ctx.ob("LOCK", ["C18"], ex, "__exit__ releases self._lock exactly once on every path", None, ok,
                      "" if ok else "a path that skips the release deadlocks every later snapshot operation"))
    rets = [n for n in iter_own(ex.node) if isinstance(n, ast.Return) and n.value is not None]
    ok = all(isinstance(r.value, ast.Constant) and not r.value.value for r in rets)
    obs.append(ctx.ob("LOCK", ["C18"], ex, "__exit__ does not swallow exceptions (falsy result)", None, ok,
                      "" if ok else "a truthy result suppresses exceptions raised inside `with tree:`"))
    # LOCK-3 ---------------------------------------------------------------
    assigns = []
    for f in m.all_funcs():
        for n in iter_own(f.node):
            if isinstance(n, (ast.Assign, ast.AnnAssign)):
                ts = n.targets if isinstance(n, ast.Assign) else [n.target]
                for t in ts:
                    if isinstance(t, ast.Attribute) and t.attr == "_lock":
                        assigns.append((f, n))
    ok = len(assigns) == 1 and assigns[0][0].qualname == "Tree.__init__" and norm(assigns[0][1].value) in ("threading.RLock()", "RLock()")
    obs.append(ctx.ob("LOCK", ["C18"], assigns[0][0] if assigns else "Tree.__init__", "the lock is created once, in Tree.__init__, as threading.RLock()",
                      assigns[0][1] if assigns else None, ok,
                      "" if ok else "re-entrancy (nested `with tree:` and snapshot operations called inside it) needs an RLock owned by the tree"))
    # every Tree subclass __init__ reaches Tree.__init__ (so the lock exists)
    for cn in m.subclasses("Tree"):
        g = m.classes[cn].methods.get("__init__")
        if g is None or cn == "Tree":
            continue
        ok = any(any(h.qualname == "Tree.__init__" or (h.name == "__init__" and m.is_family(h.cls, "Tree")) for h, _ in ctx.env.callees(g, c))
                 for c in ctx.env.calls_in[g])
        obs.append(ctx.ob("LOCK", ["C18"], g, f"{cn}.__init__ delegates to Tree.__init__ (creates the lock)", None, ok,
                          "" if ok else "a tree without _lock cannot be used in `with tree:`"))
    # LOCK-4 ---------------------------------------------------------------
    def nested_foreign(model: Model, env: Env) -> List[Tuple[Func, ast.With]]:
        out = []
        for f in model.all_funcs():
            for n in iter_own(f.node):
                if isinstance(n, ast.With):
                    outer = [norm(i.context_expr) for i in n.items if TREE in env.types(f, i.context_expr)]
                    if not outer:
                        continue
                    for st in n.body:
                        for x in ast.walk(st):
                            if isinstance(x, ast.With):
                                for i in x.items:
                                    if TREE in env.types(f, i.context_expr) and norm(i.context_expr) not in outer:
                                        out.append((f, x))
        return out

    hits = nested_foreign(m, ctx.env)
    obs.append(ctx.ob("LOCK", ["C18"], "package", "no function takes a second tree's lock while holding one (no lock-order cycle)", None, not hits,
                      "" if not hits else f"{hits[0][0].qualname} nests `with` over two trees: two threads doing this in opposite order deadlock"))
    cm = Model(ctx.root, extra_sources={"zz_control": _CONTROL_LOCK})
    if not nested_foreign(cm, Env(cm)):
        raise AnalysisError("LOCK-4 positive control not detected")
    obs.append(ctx.ob("LOCK", ["C18"], "control:zz_nested_locks", "synthetic nested foreign lock is detected", None, True))
    return obs
