"""Ordering rules: validate-before-mutate, callbacks in critical sections,
iteration invalidation (DESIGN 3.3, 3.5)."""
from __future__ import annotations

import ast
from typing import Dict, List, Optional, Set, Tuple

from ..cfg import CFG, N, describe_path
from ..core import Ctx, Ob, rule
from ..infer import CALLABLE, NODE, NODELIST, SLOT
from ..model import Func, iter_own, norm
from .util import (
    REFUSAL_ERRORS,
    is_copy_expr,
    is_param_assert,
    list_search_on_param,
    may_refuse_map,
    raised_class,
    stands_for_params,
    stmt_index,
    walk_node_exprs,
)

#: functions that build a new tree/branch: writes go to objects that do not
#: escape before the refusal (the half-built result is discarded)
VBM_EXEMPT = {
    "Tree._from_list": "builds a new tree; a refusal discards it",
    "TypedTree._from_list": "builds a new tree; a refusal discards it",
    "Tree.from_dict": "builds a new tree; a refusal discards it",
    "Tree.load": "builds a new tree; a refusal discards it",
    "Tree.copy": "builds a new tree; a refusal discards it",
    "Node.copy": "builds a new tree; a refusal discards it",
    "diff_tree": "builds a new tree; a refusal discards it",
    "load_tree_from_fs": "builds a new tree",
    "build_random_tree": "builds a new tree",
    "_make_tree": "builds a new tree",
}


def _mutators(ctx: Ctx) -> List[Func]:
    m = ctx.model
    out = []
    for f in m.all_funcs():
        if f.parent is not None:
            continue
        if not (m.is_family(f.cls, "Node") or m.is_family(f.cls, "Tree")):
            continue
        if f.qualname in VBM_EXEMPT:
            continue
        if f.name.startswith("_") and not f.name.startswith("__") and f.qualname != "Tree._register":
            continue  # private helpers are judged at their public callers
        if any(e.root != "fresh" for e in ctx.fx.summary[f].values()):
            out.append(f)
    return out


def _refusal_at(ctx: Ctx, f: Func, n: N, refuse=None) -> Optional[Tuple[str, str]]:
    """(stable key, explanation) of the refusal that can fire at n.  The key
    names the *kind* of refusal (exception class / argument / refusing callee),
    never local variable names, so that renaming a local does not move it."""
    si = stmt_index(ctx, f)
    rs = si.refusals_at(n)
    if not rs:
        return None
    order = {"raise UniqueConstraintError": 0, "raise ValueError": 1}
    e = sorted(rs, key=lambda x: (order.get(x.field, 5), len(x.chain)))[0]
    if e.chain:
        # name the callees that can refuse (not every call that happens to share the statement: joining or splitting
        # statements must not rename a finding)
        callee = []
        for c in si.calls_at(n):
            callee += [g.qualname for g, _ in ctx.env.callees(f, c) if any(e2.op == "refuse" for e2 in ctx.fx.summary[g].values())]
        if not callee:
            for c in si.calls_at(n):
                callee += [g.qualname for g, _ in ctx.env.callees(f, c)]
        key = "call " + "/".join(sorted(set(callee))[:3]) + " may refuse"
        return key, f"{e.field} at {e.origin}:{e.line} (`{e.text}`) reached via " + " -> ".join(e.chain)
    a = n.ast
    params = sorted(set(f.top.param_names()) - {f.self_name})
    # (locals that merely carry a parameter - `pos = before` - count as that parameter: renaming or normalising an
    # argument into a local must not rename the finding)
    used = sorted({p_ for x in ast.walk(a) if isinstance(x, ast.Name) for p_ in stands_for_params(ctx, f, x.id)}) if a is not None else []
    if isinstance(a, ast.Assert):
        return f"assert on argument {'/'.join(used)}", e.field
    if isinstance(a, ast.Raise):
        # distinguish several raises of one class by the parameters their guard mentions
        p = ctx.model.parent_of(a)
        g = sorted({p_ for x in ast.walk(p.test) if isinstance(x, ast.Name) for p_ in stands_for_params(ctx, f, x.id)}) if isinstance(p, ast.If) else []
        return f"{e.field}" + (f" on {'/'.join(g)}" if g else ""), e.field
    return f"failing search for argument {'/'.join(used)}", e.field


@rule("ORDER-VBM", ["C13", "C01"], floor=8, section="3.3")
def order_vbm(ctx: Ctx) -> List[Ob]:
    """validate before mutate: in every public mutator no CFG path runs a structural write on existing state and then a refusal (raise / argument assert / failing list search / refusing callee) without the inverse write in between"""
    obs: List[Ob] = []
    refuse = None
    for f in _mutators(ctx):
        funcs = [f] + list(f.nested)
        found_any = False
        for g in funcs:
            cfg = ctx.cfg(g)
            si = stmt_index(ctx, g)
            def inverse(n: N, _si=si) -> bool:
                # rollback idiom of _register: delete what was stored
                return any(e.op in ("delitem",) and e.field == "_node_by_id" for e in _si.direct.get(n.id, []))

            W = [n for n in cfg.stmt_nodes() if si.writes(n) and not inverse(n)]
            R: List[Tuple[N, Tuple[str, str]]] = []
            for n in cfg.stmt_nodes():
                why = _refusal_at(ctx, g, n, refuse)
                if why:
                    R.append((n, why))
            if not W or not R:
                continue

            for r, (rkey, why) in R:
                witness = None
                for w in W:
                    p = cfg.find_path(w, r, avoid=inverse, strict=True,
                                      may_raise=lambda n: n.kind == "stmt" and isinstance(n.ast, ast.Raise))
                    if p is not None:
                        if w is r and not _in_loop_with(ctx, g, w):
                            continue
                        witness = (w, p)
                        break
                found_any = True
                key = f"refusal after write: {rkey}"
                if witness is None:
                    obs.append(ctx.ob("ORDER-VBM", ["C13"], g, key, r.ast, True))
                else:
                    w, p = witness
                    es = si.effects_at(w)
                    # a refusal raised *by the operation itself* (not by a per-item callee of a batch) between the two halves
                    # of a link - the node is registered but not yet in a child list, or taken out of its old list but
                    # not yet re-linked - also leaves an ill-formed tree (C01: count != reachable)
                    half_link = any((e_.op == "setitem" and e_.field == "_node_by_id") or (e_.op in ("pop", "remove", "delitem") and e_.field == "_children") for e_ in es)
                    local_refusal = not rkey.startswith("call ") or rkey == "call _index_of may refuse"
                    vprops = ["C13", "C01"] if half_link and local_refusal and g.qualname in ("Node.add_child", "Node.move_to", "TypedNode.add_child", "TypedNode.move_to") else ["C13"]
                    if _prevalidated(ctx, g, cfg, W, rkey, why):
                        obs.append(ctx.tri("ORDER-VBM", ["C13"], g, key, r.ast, None,
                                           f"{why}: this new operation raises the same error itself before its first write; whether that "
                                           "check covers every refusal of the callee is not decided here"))
                        continue
                    obs.append(ctx.ob("ORDER-VBM", vprops, g, key, r.ast, False,
                                      f"{why} after the tree was already changed by `{norm(w.ast)}` "
                                      f"({es[0].op} {es[0].field}): the refused call leaves a partial change",
                                      describe_path(p)))
        if not found_any:
            obs.append(ctx.ob("ORDER-VBM", ["C13"], f, "no refusal is reachable after a write", None, True))
    return obs


def _prevalidated(ctx: Ctx, g: Func, cfg: CFG, W: List[N], rkey: str, why: str) -> bool:
    """A *new* public operation (not a function of the reference tree) that calls refusing mutators after having
    checked the same kind of refusal itself: some `raise <same class>` of its own is not reachable from any write."""
    from ..known_funcs import KNOWN_FUNCS

    if f"{g.top.module}:{g.top.qualname}" in KNOWN_FUNCS or not rkey.startswith("call "):
        return False
    cls = why.split(" ")[1] if why.startswith("raise ") else None
    if not cls:
        return False
    for n in cfg.stmt_nodes():
        if n.kind == "stmt" and isinstance(n.ast, ast.Raise) and raised_class(n.ast) == cls:
            if not any(cfg.find_path(w, n, strict=True) is not None for w in W):
                return True
    return False


def _in_loop_with(ctx: Ctx, f: Func, n: N) -> bool:
    a = n.ast
    p = ctx.model.parent_of(a) if a is not None else None
    while p is not None and p is not f.node:
        if isinstance(p, (ast.For, ast.While)):
            return True
        p = ctx.model.parent_of(p)
    return False


# ------------------------------------------------------------------ CB-CRIT
CRIT_PRIMITIVES = ["Node.__init__", "Node.add_child", "TypedNode.add_child", "Node.move_to", "Node.remove",
                   "Node.remove_children", "Node.set_data", "Tree._register", "Tree._unregister"]


def _callback_call(ctx: Ctx, f: Func, call: ast.Call) -> Optional[str]:
    """Call of a user callback: a callable parameter / the calc_data_id hook."""
    fn = call.func
    if isinstance(fn, ast.Name):
        sc, bs = ctx.env.scope(f).resolve(fn.id)
        if sc is not None and any(b.kind == "param" for b in bs) and CALLABLE in ctx.env.types(f, fn):
            return fn.id
    if isinstance(fn, ast.Attribute) and fn.attr in ("_calc_data_id_hook",):
        return fn.attr
    for g, _ in ctx.env.callees(f, call):
        if g.qualname == "Tree.calc_data_id":
            return "calc_data_id"
    return None


@rule("CB-CRIT", ["C13"], floor=9, section="3.3")
def cb_crit(ctx: Ctx) -> List[Ob]:
    """no user callback runs between the first and the last structural write of a primitive mutator (a raising callback cannot leave links and registries out of step)"""
    obs: List[Ob] = []
    for q in CRIT_PRIMITIVES:
        f = ctx.model.func(q)
        cfg = ctx.cfg(f)
        si = stmt_index(ctx, f)
        W = [n for n in cfg.stmt_nodes() if si.effects_at(n)]
        cbs = []
        for n in cfg.stmt_nodes():
            for c in si.calls_at(n):
                nm = _callback_call(ctx, f, c)
                if nm:
                    cbs.append((n, c, nm))
        bad = None
        for n, c, nm in cbs:
            before = [w for w in W if w is not n and cfg.find_path(w, n, strict=True) is not None]
            after = [w for w in W if w is not n and cfg.find_path(n, w, strict=True) is not None]
            if before and after:
                bad = (n, c, nm, before[0], after[0])
                break
        if bad is None:
            obs.append(ctx.ob("CB-CRIT", ["C13"], f, f"{q}: no user callback inside the write section", None, True,
                              f"{len(cbs)} callback call(s), {len(W)} writing statements"))
        else:
            n, c, nm, b, a = bad
            obs.append(ctx.ob("CB-CRIT", ["C13"], f, f"callback {nm} inside the write section: {norm(c)}", c, False,
                              f"`{norm(c)}` runs after `{norm(b.ast)}` and before `{norm(a.ast)}`: an exception from the callback "
                              "leaves the structure half-updated"))
    return obs


# ----------------------------------------------------------------- ITER-INV
def _loop_body_effects(ctx: Ctx, f: Func, loop: ast.For):
    si = stmt_index(ctx, f)
    cfg = ctx.cfg(f)
    out = []
    for st in loop.body:
        for sub in ast.walk(st):
            n = cfg.by_ast.get(id(sub))
            if n is not None:
                out += [(n, e) for e in si.effects_at(n)]
    return out


@rule("ITER-INV", ["C01", "C08", "C20", "C07", "C05", "C12"], floor=25, section="3.5")
def iter_inv(ctx: Ctx) -> List[Ob]:
    """no loop iterates a live child list / clone list / dict while its body (transitively) changes that container in place; removal loops iterate a copy or a deferred list"""
    obs: List[Ob] = []
    env = ctx.env
    m = ctx.model
    for f in m.all_funcs():
        for n in iter_own(f.node):
            if not isinstance(n, (ast.For,)):
                continue
            it = n.iter
            # (a) live protected list
            flds = env.fields(f, it)
            live = {(r, fld) for r, fld in flds if fld in ("_children", SLOT)}
            if live and not is_copy_expr(it):
                effs = _loop_body_effects(ctx, f, n)
                lv = {x.id for x in ast.walk(n.target) if isinstance(x, ast.Name)}
                bad = None
                for cn, e in effs:
                    if e.op in ("append", "insert", "remove", "pop", "delitem", "extend", "clear", "sort", "reverse", "rebind") \
                            and e.field in ("_children", SLOT):
                        # which list?  a write rooted at the loop variable's own
                        # subtree (n._children of a descendant) is a different list by
                        # the tree shape, unless it is reached through n._parent
                        same = _may_be_same_list(ctx, f, n, cn, e, lv)
                        if same:
                            bad = (cn, e)
                            break
                props = ["C01"]
                q = f.top.qualname
                if q.startswith("Node.filter") or "_add_filtered" in q:
                    props = ["C08", "C01"]
                if "copy" in q or "_add_from" in q or q.endswith("add_child"):
                    props = ["C07", "C01"]
                obs.append(ctx.ob("ITER-INV", props, f, f"for {norm(n.target)} in {norm(it)}", n, bad is None,
                                  "" if bad is None else f"the loop iterates the live list {sorted(live)} while its body runs "
                                  f"`{bad[1].text}` ({bad[1].op} {bad[1].field}) which may change that same list: elements are skipped",
                                  None if bad is None else list(bad[1].chain)))
            # (c) dict changed in size while iterated
            if isinstance(it, ast.Call) and isinstance(it.func, ast.Attribute) and it.func.attr in ("keys", "items", "values"):
                base = it.func.value
                bad_c = None
                for st in n.body:
                    for c in ast.walk(st):
                        if isinstance(c, ast.Call) and isinstance(c.func, ast.Attribute) and c.func.attr in ("pop", "popitem", "clear", "setdefault") \
                                and norm(c.func.value) == norm(base):
                            bad_c = c
                        if isinstance(c, ast.Delete) and any(isinstance(t, ast.Subscript) and norm(t.value) == norm(base) for t in c.targets):
                            bad_c = c
                props = ["C20"] if f.module == "tree_generator" else ["C05", "C12"] if f.module in ("tree", "node") else ["C01"]
                obs.append(ctx.ob("ITER-INV", props, f, f"for {norm(n.target)} in {norm(it)}", n, bad_c is None,
                                  "" if bad_c is None else f"`{norm(bad_c)}` changes the size of the dict being iterated (RuntimeError / skipped keys)"))
    return obs


def _may_be_same_list(ctx: Ctx, f: Func, loop: ast.For, cn: N, e, loopvars: Set[str]) -> bool:
    """Could effect e (at CFG node cn, inside the loop) touch the very list the
    loop iterates?  Shape axiom: lists of proper descendants of the iterated
    list's elements are different lists; the parent's list is the same list."""
    si = stmt_index(ctx, f)
    it_text = norm(loop.iter)
    a = cn.ast
    # direct effect: compare the written expression with the iterated one
    for e2 in si.direct.get(cn.id, []):
        if e2 is e:
            for x in ast.walk(a) if a is not None else []:
                if isinstance(x, ast.Call) and isinstance(x.func, ast.Attribute):
                    if norm(x.func.value) == it_text:
                        return True
                    # alias through a local bound to the same expression
                    if isinstance(x.func.value, ast.Name):
                        for b in ctx.env.scope(f).resolve(x.func.value.id)[1]:
                            if b.kind == "val" and b.expr is not None and norm(b.expr) == it_text:
                                return True
            return False
    # transitive: through a call.  A callee applied to the loop variable that
    # writes `self._parent._children`-like state (remove/move_to) changes the
    # iterated list; a callee that only writes below the loop variable does not.
    for c in si.calls_at(cn):
        fn = c.func
        recv_is_loopvar = isinstance(fn, ast.Attribute) and isinstance(fn.value, ast.Name) and fn.value.id in loopvars
        arg_is_loopvar = any(isinstance(x, ast.Name) and x.id in loopvars for x in c.args)
        for g, recv in ctx.env.callees(f, c):
            if g is f and (recv_is_loopvar or arg_is_loopvar):
                # the function recursing on an *element* of the iterated list works on that element's own child list
                # (and below): by induction its writes are the ones this very loop shows directly, one level down
                continue
            for ge in ctx.fx.summary[g].values():
                if ge.key[0] != e.op or ge.field != e.field or ge.origin != e.origin or ge.text != e.text:
                    continue
                if recv_is_loopvar and ge.root == "self":
                    # does the write go through self._parent ?  (then it is the iterated list)
                    if "_parent" in ge.text or _origin_writes_parent_list(ctx, ge):
                        return True
                    continue
                if not recv_is_loopvar and not arg_is_loopvar:
                    # receiver is something else (e.g. the iterated node itself)
                    if ge.root == "self" and isinstance(fn, ast.Attribute):
                        rtxt = norm(fn.value)
                        if it_text.startswith(rtxt + ".") or it_text.startswith(rtxt + "("):
                            return True
                    continue
    return False


def _origin_writes_parent_list(ctx: Ctx, e) -> bool:
    """The originating statement addresses the list via `_parent`."""
    mod, q = e.origin.split(":", 1)
    try:
        g = ctx.model.func(q)
    except Exception:
        return False
    for e2, node in ctx.fx.direct_nodes[g]:
        if e2.text == e.text and e2.op == e.op:
            tgt = None
            if isinstance(node, ast.Call) and isinstance(node.func, ast.Attribute):
                tgt = node.func.value
            if tgt is None:
                return False
            if "_parent" in norm(tgt):
                return True
            if isinstance(tgt, ast.Name):
                for b in ctx.env.scope(g).resolve(tgt.id)[1]:
                    if b.kind == "val" and b.expr is not None and "_parent" in norm(b.expr):
                        return True
    return False


# --------------------------------------------------------------- ACC-REBIND
@rule("ACC-REBIND", ["C08", "C01"], floor=5, section="3.5")
def acc_rebind(ctx: Ctx) -> List[Ob]:
    """an accumulator list initialised empty before a loop and appended to inside it is never re-assigned inside that loop (earlier collected elements would be lost, or a live list aliased)"""
    obs: List[Ob] = []
    for f in ctx.model.all_funcs():
        body = f.body
        for n in iter_own(f.node):
            if not isinstance(n, ast.For):
                continue
            appended: Set[str] = set()
            rebound: Dict[str, ast.AST] = {}
            for st in n.body:
                for x in ast.walk(st):
                    if isinstance(x, ast.Call) and isinstance(x.func, ast.Attribute) and x.func.attr in ("append", "extend") \
                            and isinstance(x.func.value, ast.Name):
                        appended.add(x.func.value.id)
                    if isinstance(x, ast.Assign):
                        for t in x.targets:
                            if isinstance(t, ast.Name):
                                rebound[t.id] = x
            for name in sorted(appended):
                # initialised as empty literal before the loop in this function?
                init = [b for b in ctx.env.scope(f).resolve(name)[1]
                        if b.kind == "val" and isinstance(b.expr, ast.List) and not b.expr.elts]
                if not init:
                    continue
                # the empty init must not be inside this loop
                inside = any(_contains(n, b.expr) for b in init)
                if inside:
                    continue
                bad = rebound.get(name)
                props = ["C08", "C01"] if "filter" in f.top.qualname else ["C01"]
                obs.append(ctx.ob("ACC-REBIND", props, f, f"accumulator {name} in `for {norm(n.target)} in {norm(n.iter)}`", n, bad is None,
                                  "" if bad is None else f"`{norm(bad)}` replaces the accumulator inside the loop: what was collected so far is lost"))
    return obs


def _contains(outer: ast.AST, inner: ast.AST) -> bool:
    return any(x is inner for x in ast.walk(outer))


# -------------------------------------------------------------- STALE-ALIAS
@rule("STALE-ALIAS", ["C01", "C04", "C10"], floor=3, section="3.5")
def stale_alias(ctx: Ctx) -> List[Ob]:
    """a local alias of a child list is not used to change the list after a statement that may have replaced that list (`x._children = None` / `= [..]`): the change would go to a detached list"""
    from ..cfg import _binds

    obs: List[Ob] = []
    env = ctx.env
    for f in ctx.model.all_funcs():
        sc = env.scope(f)
        cfg = None
        for name, bs in sc.bindings.items():
            vals = [b for b in bs if b.kind == "val" and b.expr is not None and b.ctx is None]
            al = [b for b in vals if any(fld == "_children" for _r, fld in env.fields(f, b.expr)) and not is_copy_expr(b.expr)]
            if not al:
                continue
            cfg = cfg or ctx.cfg(f)
            si = stmt_index(ctx, f)
            Bn = [cfg.stmt_node_of(b.expr, ctx.model.parent_of) for b in al]
            Bn = [n for n in Bn if n is not None]
            Sn = [n for n in cfg.stmt_nodes() if any(e.op == "rebind" and e.field == "_children" for e in si.direct.get(n.id, [])) and not _binds(n, name)]
            Un = []
            for n in cfg.stmt_nodes():
                for x in walk_node_exprs(n):
                    if isinstance(x, ast.Call) and isinstance(x.func, ast.Attribute) and isinstance(x.func.value, ast.Name) and x.func.value.id == name \
                            and x.func.attr in ("append", "insert", "extend", "pop", "remove", "sort", "reverse", "clear"):
                        Un.append(n)
            bad = None
            for b in Bn:
                for s_ in Sn:
                    if cfg.find_path(b, s_, avoid=lambda n, nm=name: _binds(n, nm), strict=True) is None:
                        continue
                    for u in Un:
                        p = cfg.find_path(s_, u, avoid=lambda n, nm=name: _binds(n, nm), strict=True)
                        if p is not None:
                            bad = (b, s_, u, p)
                            break
                    if bad:
                        break
                if bad:
                    break
            props = ["C01", "C04", "C10"]
            obs.append(ctx.ob("STALE-ALIAS", props, f, f"alias `{name}` of a child list in {f.qualname}", al[0].expr, bad is None,
                              "" if bad is None else f"`{name}` was taken at L{bad[0].lineno}, then `{norm(bad[1].ast)}` may replace that child list (None instead of []), "
                              f"and `{norm(bad[2].ast)}` still changes the old list object: the node ends up in a detached list (counted, not reachable)",
                              None if bad is None else describe_path(bad[3])))
    return obs
