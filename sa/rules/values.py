"""Value-domain lints specific to this repository (DESIGN 3.9, 3.10, 3.13)."""
from __future__ import annotations

import ast
from typing import Dict, List, Optional, Set

from ..core import Ctx, Ob, rule
from ..infer import DATAID, EXT, NODE, NODELIST, NONE, ann_types
from ..model import AnalysisError, Func, iter_own, norm
from .util import reaching_values


# -------------------------------------------------------------------- FALSY
def _data_domain(ctx: Ctx, f: Func) -> Set[str]:
    """Names of f holding a data object or a data_id (possibly None)."""
    dom: Set[str] = set()
    m = ctx.model
    if not (m.is_family(f.top.cls, "Node") or m.is_family(f.top.cls, "Tree")):
        return dom
    for p in f.top.param_names():
        ann = f.top.param_annotation(p)
        if p == "data" or (ann is not None and DATAID in ann_types(m, ann)):
            dom.add(p)
        if p == "data_id":
            dom.add(p)
    if not dom:
        return dom
    # locals that are copies: x = <domain name>  /  x = None  / x = a if c else b
    changed = True
    sc = ctx.env.scope(f)
    while changed:
        changed = False
        for name, bs in sc.bindings.items():
            if name in dom:
                continue
            vals = [b for b in bs if b.kind == "val"]
            if not vals or len(vals) != len(bs):
                continue
            ok = True
            some = False
            for b in vals:
                e = b.expr
                if isinstance(e, ast.Constant) and e.value is None:
                    continue
                if isinstance(e, ast.Name) and e.id in dom:
                    some = True
                    continue
                ok = False
            if ok and some:
                dom.add(name)
                changed = True
    return dom


def _truth_tested(test: ast.AST) -> List[ast.Name]:
    """Names evaluated for truthiness in a boolean context."""
    out: List[ast.Name] = []
    if isinstance(test, ast.Name):
        out.append(test)
    elif isinstance(test, ast.BoolOp):
        for v in test.values:
            out += _truth_tested(v)
    elif isinstance(test, ast.UnaryOp) and isinstance(test.op, ast.Not):
        out += _truth_tested(test.operand)
    elif isinstance(test, ast.Call) and isinstance(test.func, ast.Name) and test.func.id == "bool" and test.args:
        out += _truth_tested(test.args[0])
    return out


def _bool_contexts(f: Func):
    for n in iter_own(f.node):
        if isinstance(n, (ast.If, ast.While, ast.IfExp, ast.Assert)):
            yield n, n.test
        elif isinstance(n, ast.comprehension):
            for c in n.ifs:
                yield n, c
        elif isinstance(n, ast.BoolOp):
            # value position (x = a or b): operands are still truth-tested
            yield n, n


def _entry_id_truth(f: Func):
    """(tested expr, True) for every truth-tested read of an entry's "data_id" (`e.get("data_id")`, `e["data_id"]`, or the same
    through a key variable that ranges over a literal sequence naming "data_id"); (read, False) for reads that are not truth-tested."""
    keyvars: Dict[str, bool] = {}
    for n in iter_own(f.node):
        it = tg = None
        if isinstance(n, ast.comprehension) or isinstance(n, ast.For):
            it, tg = n.iter, n.target
        if isinstance(it, (ast.Tuple, ast.List, ast.Set)) and isinstance(tg, ast.Name) and any(
                isinstance(e, ast.Constant) and e.value == "data_id" for e in it.elts):
            keyvars[tg.id] = True

    def is_key(k: ast.AST) -> bool:
        return (isinstance(k, ast.Constant) and k.value == "data_id") or (isinstance(k, ast.Name) and k.id in keyvars)

    def is_read(e: ast.AST) -> bool:
        if isinstance(e, ast.Call) and isinstance(e.func, ast.Attribute) and e.func.attr == "get" and len(e.args) == 1 and is_key(e.args[0]):
            return True
        return isinstance(e, ast.Subscript) and isinstance(e.ctx, ast.Load) and is_key(e.slice)

    def tested(t: ast.AST):
        if is_read(t):
            yield t
        elif isinstance(t, ast.BoolOp):
            for v in t.values:
                yield from tested(v)
        elif isinstance(t, ast.UnaryOp) and isinstance(t.op, ast.Not):
            yield from tested(t.operand)
        elif isinstance(t, ast.Call) and isinstance(t.func, ast.Name) and t.func.id == "bool" and t.args:
            yield from tested(t.args[0])

    bad = set()
    for _c, test in _bool_contexts(f):
        for e in tested(test):
            if id(e) not in bad:
                bad.add(id(e))
                yield e, True
    for n in iter_own(f.node):
        if is_read(n) and id(n) not in bad:
            yield n, False


@rule("FALSY", ["C02", "C04", "C09", "C14", "C05", "C12"], floor=6, section="3.9")
def falsy(ctx: Ctx) -> List[Ob]:
    """data objects and data_ids are never tested by truthiness (0, "", () and data_id 0 are ordinary values); presence is tested with `is None`"""
    obs: List[Ob] = []
    seen = set()
    for f in ctx.model.all_funcs():
        if f.parent is not None:
            continue
        dom = _data_domain(ctx, f)
        if not dom:
            continue
        q = f.qualname
        props = ["C04", "C02"]
        if "find" in q or q.endswith("__getitem__") or q.endswith("__contains__"):
            props = ["C09", "C02"]
        for ctxnode, test in _bool_contexts(f):
            for nm in _truth_tested(test):
                if nm.id in dom:
                    key = (f.site, norm(test), nm.id)
                    if key in seen:
                        continue
                    seen.add(key)
                    obs.append(ctx.ob("FALSY", props, f, f"truthiness of `{nm.id}` in `{norm(test)}`", nm, False,
                                      f"`{nm.id}` holds a data object / data_id; a falsy one (0, '', (), data_id 0 == hash(0)) "
                                      "is treated as absent"))
        # discharged instances: explicit None tests on the domain
        for n in iter_own(f.node):
            if isinstance(n, ast.Compare) and len(n.ops) == 1 and isinstance(n.ops[0], (ast.Is, ast.IsNot)) \
                    and isinstance(n.left, ast.Name) and n.left.id in dom \
                    and isinstance(n.comparators[0], ast.Constant) and n.comparators[0].value is None:
                key = (f.site, norm(n))
                if key in seen:
                    continue
                seen.add(key)
                obs.append(ctx.ob("FALSY", props, f, norm(n), n, True))
    # stored entries: the optional "data_id" of a dict entry is present-or-absent, never truthy-or-falsy (a custom data_id 0 / "" is a value)
    for f in ctx.model.all_funcs():
        if f.module not in ("node", "tree", "typed_tree"):
            continue
        for e, is_tested in _entry_id_truth(f):
            props = ["C14", "C02"] if "from_dict" in f.qualname else ["C05", "C12", "C02"]
            key = (f.site, "entry", norm(e), is_tested)
            if key in seen:
                continue
            seen.add(key)
            if is_tested:
                obs.append(ctx.ob("FALSY", props, f, f"truthiness of the stored entry's `{norm(e)}`", e, False,
                                  "an entry's optional data_id is dropped when it is falsy: a custom data_id 0 / '' does not survive the reader"))
            else:
                obs.append(ctx.ob("FALSY", props, f, f"entry read `{norm(e)}` is not truth-tested", e, True))
    return obs


# ---------------------------------------------------------------- OPT-TRUTH
@rule("OPT-TRUTH", ["C17"], floor=1, section="3.9")
def opt_truth(ctx: Ctx) -> List[Ob]:
    """an optional external object (rdflib node) is tested with `is None`, not by truthiness (Literal(0) is falsy)"""
    obs: List[Ob] = []
    for f in ctx.model.all_funcs():
        if f.module != "rdf":
            continue
        opt = set()
        for p in f.param_names():
            t = ann_types(ctx.model, f.param_annotation(p))
            if NONE in t and EXT in t:
                opt.add(p)
        if not opt:
            continue
        found = False
        for _c, test in _bool_contexts(f):
            for nm in _truth_tested(test):
                if nm.id in opt:
                    found = True
                    obs.append(ctx.ob("OPT-TRUTH", ["C17"], f, f"truthiness of `{nm.id}` in `{norm(test)}`", nm, False,
                                      "rdflib.Literal(0) / Literal('') are falsy: children of a node whose data_id is 0 "
                                      "would get no has_child edge"))
        for n in iter_own(f.node):
            if isinstance(n, ast.Compare) and isinstance(n.left, ast.Name) and n.left.id in opt and isinstance(n.ops[0], (ast.Is, ast.IsNot)):
                found = True
                obs.append(ctx.ob("OPT-TRUTH", ["C17"], f, norm(n), n, True))
        if not found:
            obs.append(ctx.ob("OPT-TRUTH", ["C17"], f, f"optional {sorted(opt)} never truth-tested", None, True))
    return obs


# ---------------------------------------------------------------- OPT-DEREF
def _guarded_not_none(ctx: Ctx, f: Func, use: ast.AST, text: str) -> bool:
    """Whenever `use` is evaluated, `text` is known to be not None / truthy
    (path conditions: enclosing tests, earlier guards, `x and ...`, comprehension filters),
    or `use` is the left operand of `x or ()`."""
    from .util import path_conds

    for e, pol in path_conds(ctx, f, use):
        t = norm(e)
        if pol and t in (text, f"len({text}) > 0", f"bool({text})"):
            return True
        if (not pol) and t in (f"{text} is None", f"{text} == None"):
            return True
        if pol and isinstance(e, ast.Compare) and norm(e.left) == f"len({text})" and isinstance(e.ops[0], (ast.Gt, ast.GtE, ast.Eq, ast.NotEq)) and len(e.ops) == 1:
            c = e.comparators[0]
            if isinstance(c, ast.Constant) and isinstance(c.value, int) and ((isinstance(e.ops[0], ast.Gt) and c.value >= 0) or (isinstance(e.ops[0], (ast.GtE, ast.Eq)) and c.value >= 1)):
                return True
    p = ctx.model.parent_of(use)
    if isinstance(p, ast.BoolOp) and isinstance(p.op, ast.Or) and p.values and p.values[0] is use:
        return True  # `x or ()`
    return False


def _callers_guard(ctx: Ctx, g: Func, pname: str) -> bool:
    """Every resolved call of private function g passes, for parameter pname, an expression A under a path condition
    that makes `A._children` a non-empty list."""
    env = ctx.env
    sites = 0
    for f in ctx.model.all_funcs():
        for c in env.calls_in[f]:
            for g2, recv in env.callees(f, c):
                if g2 is not g:
                    continue
                bound = recv is not None or g.name == "__init__" or g.kind == "classmethod"
                a = env._actual_for(g, c, pname, bound=bound)
                if a is None:
                    return False
                sites += 1
                if not _guarded_not_none(ctx, f, c, f"{norm(a)}._children"):
                    return False
    return sites > 0


def _contains(outer: ast.AST, inner: ast.AST) -> bool:
    return any(x is inner for x in ast.walk(outer))


@rule("OPT-DEREF", ["C01", "C03", "C04", "C05", "C06", "C07", "C08", "C09", "C10", "C11", "C12", "C14", "C15", "C16", "C17", "C19", "C20"], floor=4, section="3.9")
def opt_deref(ctx: Ctx) -> List[Ob]:
    """an optional child list (`x._children`, None for leaves / after clear()) or optional parent (`x.parent`, None for top-level nodes) is not iterated / dereferenced without a test, except `self._parent._children` (a node's own parent always has a list)"""
    obs: List[Ob] = []
    env = ctx.env
    for f in ctx.model.all_funcs():
        for n in iter_own(f.node):
            # iteration over X._children
            target = None
            kind = None
            if isinstance(n, (ast.For, ast.comprehension)):
                target, kind = n.iter, "iterated"
            elif isinstance(n, ast.Subscript) and isinstance(n.ctx, ast.Load):
                target, kind = n.value, "subscripted"
            elif isinstance(n, ast.Attribute) and isinstance(n.value, ast.Attribute) and n.value.attr == "parent":
                target, kind = n.value, "dereferenced"
            if target is None:
                continue
            txt = norm(target)
            if isinstance(target, ast.Attribute) and target.attr == "_children" and NODE in env.types(f, target.value):
                own_parent = norm(target.value).endswith("._parent") or norm(target.value) == "p._parent"
                if not own_parent and isinstance(target.value, ast.Name):
                    # a local that holds some node's parent (`new_parent = other._parent`)
                    vals = reaching_values(ctx, f, n if not isinstance(n, ast.comprehension) else target, target.value)
                    own_parent = bool(vals) and all(norm(v).endswith("._parent") for v in vals)
                if own_parent:
                    continue
                ok = _guarded_not_none(ctx, f, n if not isinstance(n, ast.comprehension) else target, txt)
                if not ok and isinstance(target.value, ast.Name) and target.value.id in f.param_names() and f.name.startswith("_") and not f.name.startswith("__"):
                    # a private helper's precondition: every call site passes a node whose list it has just tested
                    ok = _callers_guard(ctx, f, target.value.id)
                # local alias tested: c = x._children; if c: ...
                props = ["C14"] if f.qualname in ("Tree.to_dict_list", "Node.to_dict") else ["C15"] if (f.top.cls or "").startswith("Typed") else ["C10"]
                from .own import family_props

                props = sorted(set(props) | set(family_props(f)))
                obs.append(ctx.ob("OPT-DEREF", props, f, f"{txt} {kind}", target, ok,
                                  "" if ok else f"`{txt}` is None for a node without children (e.g. the root after clear()): {kind} without a test"))
            elif isinstance(target, ast.Attribute) and target.attr == "parent" and NODE in env.types(f, target.value) and kind == "dereferenced":
                ok = _guarded_not_none(ctx, f, n, txt)
                props = ["C15"] if (f.top.cls or "").startswith("Typed") else ["C10"]
                obs.append(ctx.ob("OPT-DEREF", props, f, f"{norm(n)}", n, ok,
                                  "" if ok else f"`{txt}` is None for top-level nodes: attribute access raises AttributeError"))
    return obs


# -------------------------------------------------------------------- LIMIT
@rule("LIMIT", ["C09", "C02"], floor=5, section="3.10")
def limit(ctx: Ctx) -> List[Ob]:
    """result limits: max_results reaches a slice only as the upper bound from 0; every list returned by a function that takes max_results depends on it; the generator counts a match before testing the limit with >=; find_first asks for exactly one"""
    obs: List[Ob] = []
    m = ctx.model
    for f in m.all_funcs():
        if "max_results" not in f.param_names():
            continue
        props = ["C09", "C02"] if f.qualname == "Tree.find_all" else ["C09"]
        # LIMIT-1: slices
        def mentions_limit_(e: ast.AST) -> bool:
            return any(isinstance(x, ast.Name) and x.id == "max_results" for x in ast.walk(e))

        for n in iter_own(f.node):
            if isinstance(n, ast.Subscript) and isinstance(n.slice, ast.Slice):
                sl = n.slice
                mentions = any(isinstance(x, ast.Name) and x.id == "max_results" for x in ast.walk(sl))
                if not mentions:
                    continue
                from_zero = (sl.lower is None or (isinstance(sl.lower, ast.Constant) and sl.lower.value == 0)) and sl.step is None
                if isinstance(n.ctx, ast.Del) and sl.lower is not None and norm(sl.lower) == "max_results" and sl.upper is None and sl.step is None:
                    # `del res[k:]` truncates to the first k
                    obs.append(ctx.ob("LIMIT", props, f, f"del {norm(n)} keeps the first max_results", n, True))
                    continue
                if sl.upper is not None and norm(sl.upper) in ("max_results", "max_results or None") and from_zero:
                    ok = True  # (`x[:k or None]`: no limit -> everything)
                elif sl.lower is not None and mentions_limit_(sl.lower):
                    ok = False
                elif sl.upper is not None and norm(sl.upper) == "max_results" and not from_zero:
                    ok = False
                else:
                    ok = None
                obs.append(ctx.tri("LIMIT", props, f, f"slice {norm(n)}", n, ok,
                                  "" if ok else "the limit must be the upper bound of a slice from 0: this returns everything "
                                  "*after* the first k matches"))
        # LIMIT-2: returns
        from .util import exit_cases, find_cases, path_conds, stmts_before

        def mentions_limit(e: ast.AST) -> bool:
            return any(isinstance(x, ast.Name) and x.id == "max_results" for x in ast.walk(e))

        is_gen = any(isinstance(x, (ast.Yield, ast.YieldFrom)) for x in iter_own(f.node))
        if not is_gen:
            for c in exit_cases(ctx, f, ("return",)):
                v = c.value
                if v is None or (isinstance(v, (ast.List, ast.Tuple)) and not v.elts) or isinstance(v, ast.Constant):
                    continue
                dep = mentions_limit(v)
                if not dep and isinstance(v, ast.Name) and any(isinstance(d_, ast.Delete) and any(isinstance(t_, ast.Subscript) and norm(t_.value) == v.id and mentions_limit(t_.slice) for t_ in d_.targets)
                                                             for d_ in iter_own(f.node)):
                    dep = True  # truncated in place
                if not dep and isinstance(v, ast.Name):
                    r = ctx.env.reaching(f, c.stmt, v.id)
                    if r is not None:
                        dep = any(mentions_limit(val) for val in r[0])
                # "no limit given" branch: reached only when max_results is falsy / None
                unlimited = any((not pol and isinstance(e, ast.Name) and e.id == "max_results") or (pol and norm(e) == "max_results is None") for e, pol in c.conds)
                ok = dep or unlimited
                obs.append(ctx.ob("LIMIT", props, f, f"return {norm(v)} honours max_results", c.stmt, ok,
                                  "" if ok else "this branch returns all matches regardless of max_results"))
        else:
            # generator: the match counter is incremented before `count >= max_results` ends the loop
            # (no cut-off test in a yielding loop: the limit may be applied another way - islice, enumerate - unless the
            # parameter is not read at all)
            ok = None if any(isinstance(x, ast.Name) and x.id == "max_results" and isinstance(x.ctx, ast.Load) for x in iter_own(f.node)) else False
            why = "no cut-off test on max_results found in the yielding loop"
            for lp in iter_own(f.node):
                if not isinstance(lp, ast.For) or not any(isinstance(x, ast.Yield) for st in lp.body for x in ast.walk(st)):
                    continue
                for st in ast.walk(lp):
                    if not (isinstance(st, ast.If) and mentions_limit(st.test) and any(isinstance(x, (ast.Break, ast.Return)) for y in st.body for x in ast.walk(y))):
                        continue
                    cmp_ok = False
                    counter = None
                    for cc in ast.walk(st.test):
                        if isinstance(cc, ast.Compare) and len(cc.ops) == 1:
                            l, r = norm(cc.left), norm(cc.comparators[0])
                            if isinstance(cc.ops[0], (ast.GtE, ast.Eq)) and r == "max_results":
                                cmp_ok, counter = True, l
                            if isinstance(cc.ops[0], (ast.LtE, ast.Eq)) and l == "max_results":
                                cmp_ok, counter = True, r
                    before = [p for p in stmts_before(ctx, f, st) if any(p is x for x in ast.walk(lp))]
                    inc_before = any(
                        isinstance(p, ast.AugAssign) and isinstance(p.op, ast.Add) and norm(p.target) == counter
                        and isinstance(p.value, ast.Constant) and p.value.value == 1
                        for p in before
                    )
                    ok = cmp_ok and inc_before
                    why = "" if ok else "the match counter must be incremented before it is compared with `>= max_results`"
            obs.append(ctx.tri("LIMIT", ["C09"], f, "generator stops after max_results matches", None, ok, why))
    # find_first asks for one result and returns the first element or None
    from .util import exit_cases as _ec, find_cases as _fc

    for q in ("Node.find_first",):
        f = m.func(q)
        ok = False
        for c in ctx.env.calls_in[f]:
            if any(g.name == "find_all" for g, _ in ctx.env.callees(f, c)):
                for k in c.keywords:
                    if k.arg == "max_results" and isinstance(k.value, ast.Constant) and k.value.value == 1:
                        ok = True
        obs.append(ctx.ob("LIMIT", ["C09"], f, "find_first delegates to find_all(max_results=1)", None, ok,
                          "" if ok else "find_first must limit the search to one result"))
        cases = _ec(ctx, f, ("return",))
        valued = [c for c in cases if c.value is not None and not (isinstance(c.value, ast.Constant) and c.value.value is None)]
        ok2 = None
        if valued and all(_fc([c], "return", "$$r[0]", [("$$r", True)]) or norm(c.value).startswith("next(iter(") for c in valued):
            ok2 = True
        elif valued and any(isinstance(c.value, ast.Subscript) and not isinstance(c.value.slice, ast.Slice) and norm(c.value.slice) != "0" for c in valued):
            ok2 = False  # an element other than the first
        obs.append(ctx.tri("LIMIT", ["C09"], f, "find_first returns res[0] or None", None, ok2,
                          "" if ok2 else "find_first must return the first match or None"))
    return obs


# --------------------------------------------------------------- REGEX-FULL
@rule("REGEX-FULL", ["C09"], floor=2, section="3.10")
def regex_full(ctx: Ctx) -> List[Ob]:
    """pattern searches match the whole name (fullmatch), for both the str and the (pattern, flags) form"""
    obs: List[Ob] = []
    f = ctx.model.func("Node._search")
    # names bound to a compiled pattern
    pats = {t.id for n in iter_own(f.node) if isinstance(n, ast.Assign) and isinstance(n.value, ast.Call) and norm(n.value.func) == "re.compile"
            for t in n.targets if isinstance(t, ast.Name)} | {"re"}
    k = 0
    for n in iter_own(f.node):
        if isinstance(n, ast.Call) and isinstance(n.func, ast.Attribute) and n.func.attr in ("match", "search", "fullmatch", "findall"):
            if isinstance(n.func.value, ast.Name) and n.func.value.id in pats:
                ok = n.func.attr == "fullmatch"
                lam = ctx.model.parent_of(n)
                argname = lam.args.args[0].arg if isinstance(lam, ast.Lambda) and lam.args.args else "node"
                arg_ok = bool(n.args) and norm(n.args[-1]) == f"{argname}.name"
                k += 1
                obs.append(ctx.ob("REGEX-FULL", ["C09"], f, f"pattern matcher #{k} uses fullmatch on the node name", n, ok and arg_ok,
                                  "" if ok and arg_ok else f"`{norm(n)}`: a pattern must match the node's full name (fullmatch on node.name)"))
    # the predicate result is used un-negated to select
    return obs


# -------------------------------------------------------------- RANGE-GUARD
def _lin(e: ast.AST):
    """Tiny linear normaliser: expression -> (dict var->coef, const) or None."""
    if isinstance(e, ast.Constant) and isinstance(e.value, int) and not isinstance(e.value, bool):
        return ({}, e.value)
    if isinstance(e, ast.Name):
        return ({e.id: 1}, 0)
    if isinstance(e, ast.Call) and isinstance(e.func, ast.Name) and e.func.id == "len" and len(e.args) == 1:
        return ({f"len({norm(e.args[0])})": 1}, 0)
    if isinstance(e, ast.UnaryOp) and isinstance(e.op, ast.USub):
        r = _lin(e.operand)
        if r is None:
            return None
        return ({k: -v for k, v in r[0].items()}, -r[1])
    if isinstance(e, ast.BinOp) and isinstance(e.op, (ast.Add, ast.Sub)):
        a, b = _lin(e.left), _lin(e.right)
        if a is None or b is None:
            return None
        s = 1 if isinstance(e.op, ast.Add) else -1
        d = dict(a[0])
        for k, v in b[0].items():
            d[k] = d.get(k, 0) + s * v
        return ({k: v for k, v in d.items() if v}, a[1] + s * b[1])
    return None


def _resolve_local(ctx: Ctx, f: Func, lin):
    """Substitute single-assignment locals (pc_len = len(pc)) into a linear form."""
    if lin is None:
        return None
    d, c = dict(lin[0]), lin[1]
    for name in list(d):
        bs = ctx.env.scope(f).resolve(name)[1] if not name.startswith("len(") else []
        vals = [b for b in bs if b.kind == "val"]
        if len(vals) == 1 and len(bs) == 1:
            sub = _lin(vals[0].expr)
            if sub is not None and sub != ({name: 1}, 0):
                coef = d.pop(name)
                for k, v in sub[0].items():
                    d[k] = d.get(k, 0) + coef * v
                c += coef * sub[1]
    return ({k: v for k, v in d.items() if v}, c)


@rule("RANGE-GUARD", ["C15", "C10"], floor=2, section="3.13")
def range_guard(ctx: Ctx) -> List[Ob]:
    """a guard in front of `for i in range(lo, hi[, ±1])` that compares the same quantities must be equivalent to the range being non-empty (no element of the scan is cut off by the guard)"""
    obs: List[Ob] = []
    for f in ctx.model.all_funcs():
        for n in iter_own(f.node):
            if not isinstance(n, ast.If) or len(n.body) != 1 or not isinstance(n.body[0], ast.For):
                continue
            lp = n.body[0]
            it = lp.iter
            if not (isinstance(it, ast.Call) and isinstance(it.func, ast.Name) and it.func.id == "range" and len(it.args) >= 2):
                continue
            t = n.test
            if not (isinstance(t, ast.Compare) and len(t.ops) == 1):
                continue
            lo, hi = _resolve_local(ctx, f, _lin(it.args[0])), _resolve_local(ctx, f, _lin(it.args[1]))
            step = -1 if len(it.args) == 3 and norm(it.args[2]) == "-1" else 1
            a, b = _resolve_local(ctx, f, _lin(t.left)), _resolve_local(ctx, f, _lin(t.comparators[0]))
            if None in (lo, hi, a, b):
                continue

            def diff(x, y):
                d = dict(x[0])
                for k, v in y[0].items():
                    d[k] = d.get(k, 0) - v
                return ({k: v for k, v in d.items() if v}, x[1] - y[1])

            # range non-empty:  step>0: lo < hi  <=> hi - lo >= 1 ; step<0: lo > hi <=> lo - hi >= 1
            need = diff(hi, lo) if step > 0 else diff(lo, hi)  # need >= 1
            op = t.ops[0]
            if isinstance(op, ast.Lt):
                have = diff(b, a)  # b - a >= 1
                k = 1
            elif isinstance(op, ast.LtE):
                have = diff(b, a)
                k = 0
            elif isinstance(op, ast.Gt):
                have = diff(a, b)
                k = 1
            elif isinstance(op, ast.GtE):
                have = diff(a, b)
                k = 0
            else:
                continue
            # guard: have >= k ; range: need >= 1 ; equivalent iff same variable part and have - k == need - 1
            if have[0] != need[0]:
                continue
            ok = (have[1] - k) == (need[1] - 1)
            props = ["C15"] if (f.top.cls or "").startswith("Typed") else ["C10"]
            obs.append(ctx.ob("RANGE-GUARD", props, f, f"if {norm(t)}: for .. in {norm(it)}", n, ok,
                              "" if ok else f"the guard excludes positions that the range would still visit "
                              f"(guard slack {have[1] - k}, range slack {need[1] - 1}): the last candidate(s) are never examined"))
    return obs


# ----------------------------------------------------------------- EXIST-CMP
@rule("EXIST-CMP", ["C15", "C10"], floor=2, section="3.13")
def exist_cmp(ctx: Ctx) -> List[Ob]:
    """an existence query (has_*) that compares a length compares it with 0 (`> 0`, `>= 1`, `!= 0`)"""
    obs: List[Ob] = []
    for f in ctx.model.all_funcs():
        if not f.name.startswith("has_"):
            continue
        for n in iter_own(f.node):
            if isinstance(n, ast.Return) and n.value is not None:
                v = n.value
                cmp = None
                for x in ast.walk(v):
                    if isinstance(x, ast.Compare) and len(x.ops) == 1 and isinstance(x.left, ast.Call) \
                            and isinstance(x.left.func, ast.Name) and x.left.func.id == "len":
                        cmp = x
                props = ["C15"] if (f.top.cls or "").startswith("Typed") else ["C10"]
                if cmp is None:
                    obs.append(ctx.ob("EXIST-CMP", props, f, f"return {norm(v)}", n, True))
                    continue
                op, rhs = cmp.ops[0], cmp.comparators[0]
                val = rhs.value if isinstance(rhs, ast.Constant) else None
                ok = (isinstance(op, ast.Gt) and val == 0) or (isinstance(op, ast.GtE) and val == 1) or (isinstance(op, ast.NotEq) and val == 0)
                obs.append(ctx.ob("EXIST-CMP", props, f, f"return {norm(v)}", n, ok,
                                  "" if ok else "`one or more` must be `len(...) > 0`: a single match is reported as none"))
    return obs


# ---------------------------------------------------------------- SLICE-NEG
_SLICE_CONTROL = '''
def zz_slice_control(items, skip):
    n = len(items)
    head = items[: n - skip]
    if n >= skip:
        return head
    return []
'''


def _diff_lin(x, y):
    d = dict(x[0])
    for k, v in y[0].items():
        d[k] = d.get(k, 0) - v
    return ({k: v for k, v in d.items() if v}, x[1] - y[1])


def _cmp_lin(ctx: Ctx, f: Func, e: ast.AST):
    """Compare a <op> b  ->  (variable part of a - b, const, op)  or None."""
    if not (isinstance(e, ast.Compare) and len(e.ops) == 1 and isinstance(e.ops[0], (ast.Lt, ast.LtE, ast.Gt, ast.GtE))):
        return None
    a, b = _resolve_local(ctx, f, _lin(e.left)), _resolve_local(ctx, f, _lin(e.comparators[0]))
    if a is None or b is None:
        return None
    d = _diff_lin(a, b)
    return d[0], d[1], type(e.ops[0])


def _slice_neg_findings(ctx: Ctx, f: Func):
    """(subscript, bound text, guarded: bool, believed_negative: Optional[str]) for every slice bound / index that is a
    difference of two run-time quantities."""
    from .util import path_conds

    out = []
    cmps = [(n, _cmp_lin(ctx, f, n)) for n in iter_own(f.node) if isinstance(n, ast.Compare)]
    cmps = [(n, c) for n, c in cmps if c is not None]
    for n in iter_own(f.node):
        if not (isinstance(n, ast.Subscript) and isinstance(n.slice, ast.Slice)):
            continue
        for b in (n.slice.lower, n.slice.upper):
            if b is None:
                continue
            lin = _resolve_local(ctx, f, _lin(b))
            if lin is None or not (any(v > 0 for v in lin[0].values()) and any(v < 0 for v in lin[0].values())):
                continue
            # a dominating test that fixes the sign of the same difference
            guarded = False
            for e, pol in path_conds(ctx, f, n):
                c = _cmp_lin(ctx, f, getattr(e, "_orig", e))
                if c is not None and (c[0] == lin[0] or c[0] == {k: -v for k, v in lin[0].items()}):
                    guarded = True
            belief = None
            if not guarded:
                for cn, c in cmps:
                    if c[0] == lin[0] or c[0] == {k: -v for k, v in lin[0].items()}:
                        belief = norm(cn)
            out.append((n, norm(b), guarded, belief))
    return out


@rule("SLICE-NEG", ["C04", "C05", "C06", "C07", "C08", "C09", "C10", "C11", "C12", "C14", "C15", "C16", "C17", "C19", "C20"], floor=1, section="3.10")
def slice_neg(ctx: Ctx) -> List[Ob]:
    """contradiction rule: a slice bound `a - b` of two run-time quantities wraps around when it is negative; if the same function tests the sign of that difference elsewhere (so the author knows it can be negative) the slice must sit under such a test"""
    from .own import family_props

    obs: List[Ob] = []
    for f in ctx.model.all_funcs():
        for n, bt, guarded, belief in _slice_neg_findings(ctx, f):
            props = family_props(f)
            if not props:
                continue  # not part of an operation a property speaks about
            if guarded:
                obs.append(ctx.ob("SLICE-NEG", props, f, f"slice bound `{bt}` is used under a test of its sign", n, True))
            elif belief is not None:
                obs.append(ctx.ob("SLICE-NEG", props, f, f"slice bound `{bt}` is used under a test of its sign", n, False,
                                  f"`{norm(n)}`: the function tests `{belief}` elsewhere, so `{bt}` can be negative here; a negative bound counts from the other end "
                                  "of the list instead of giving an empty result"))
    cc = ctx.with_extra({"zz_slice_control": _SLICE_CONTROL})
    hit = [x for x in _slice_neg_findings(cc, cc.model.func("zz_slice_control")) if not x[2] and x[3] is not None]
    if len(hit) != 1:
        raise AnalysisError("SLICE-NEG positive control not detected")
    obs.append(ctx.ob("SLICE-NEG", ["C04", "C05", "C06", "C07", "C08", "C09", "C10", "C11", "C12", "C14", "C15", "C16", "C17", "C19", "C20"],
                      "control:zz_slice_control", "synthetic unguarded difference bound is detected", None, True, f"control reported `{hit[0][1]}` against `{hit[0][3]}`"))
    return obs
