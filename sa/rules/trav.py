"""Traversal rules for property C06 (and the filter normaliser for C08):
exhaustiveness of the method table, emit/descend order of the walkers,
callback normalisation (DESIGN 3.8, section 4 C06)."""
from __future__ import annotations

import ast
from typing import Dict, List, Optional, Set, Tuple

from ..core import Ctx, Ob, rule
from ..infer import CALLABLE, ann_types
from ..model import AnalysisError, Func, iter_own, norm

R = "TRAV"


def _enum_values(ctx: Ctx, cls: str) -> Dict[str, object]:
    c = ctx.model.classes.get(cls)
    if c is None:
        raise AnalysisError(f"enum {cls} vanished")
    return {k: v.value for k, v in c.consts.items() if isinstance(v, ast.Constant)}


def _top_index(body: List[ast.stmt], pred) -> List[int]:
    return [i for i, st in enumerate(body) if pred(st)]


def _is_yield_of(st: ast.stmt, name: str) -> bool:
    return isinstance(st, ast.Expr) and isinstance(st.value, ast.Yield) and st.value.value is not None and norm(st.value.value) == name


def _is_recursive_descent(ctx: Ctx, f: Func, st: ast.stmt, lv: str) -> bool:
    """`yield from lv.<f>()` or `lv.<f>(...)`"""
    v = st.value if isinstance(st, ast.Expr) else None
    if isinstance(v, ast.YieldFrom):
        v = v.value
    if isinstance(v, ast.Call) and isinstance(v.func, ast.Attribute) and isinstance(v.func.value, ast.Name) and v.func.value.id == lv:
        return any(g.qualname == f.qualname for g, _ in ctx.env.callees(f, v))
    return False


def _cb_call(st_or_expr: ast.AST) -> Optional[ast.Call]:
    for x in ast.walk(st_or_expr):
        if isinstance(x, ast.Call) and isinstance(x.func, ast.Name) and x.func.id == "call_traversal_cb":
            return x
    return None


def _children_loop(ctx: Ctx, f: Func) -> ast.For:
    loops = []
    for n in iter_own(f.node):
        if isinstance(n, ast.For):
            flds = ctx.env.fields(f, n.iter)
            if any(fld == "_children" and r == "self" for r, fld in flds):
                loops.append(n)
    if len(loops) != 1:
        raise AnalysisError(f"{f.qualname}: expected exactly one loop over self's children, found {len(loops)} (walker shape not recognised)")
    return loops[0]


@rule("EXH-1", ["C06"], floor=15, section="3.8")
def exh1(ctx: Ctx) -> List[Ob]:
    """every ordered IterMethod has its Node._iter_<value> walker, every walker name is an enum value, unsupported methods are refused, the rtl/zigzag variants select (revert, toggle) correctly, Tree.iterator serves UNORDERED/RANDOM from the id map"""
    obs: List[Ob] = []
    m = ctx.model
    vals = _enum_values(ctx, "IterMethod")
    if len(vals) < 8:
        raise AnalysisError("IterMethod has fewer than 8 members")
    ti = m.func("Tree.iterator")
    from .util import exit_cases, path_conds as _pcs, resolve_expr as _rx

    def methods_under(conds) -> Set[str]:
        """IterMethod members for which a statement with these path conditions can run"""
        ms = set(vals)
        for a_, pol in conds:
            if isinstance(a_, ast.Compare) and len(a_.ops) == 1 and norm(a_.left) == "method":
                rhs = a_.comparators[0]
                names = [norm(x).split(".", 1)[1] for x in (rhs.elts if isinstance(rhs, (ast.Tuple, ast.List, ast.Set)) else [rhs]) if norm(x).startswith("IterMethod.")]
                if isinstance(a_.ops[0], (ast.Eq, ast.In, ast.Is)):
                    ms = (ms & set(names)) if pol else (ms - set(names))
        return ms

    handled_in_tree: Set[str] = set()
    tree_src: Dict[str, str] = {}
    for c_ in exit_cases(ctx, ti, ("return", "yield")):
        if c_.value is None:
            continue
        v_ = _rx(ctx, ti, c_.stmt, c_.value)
        if any(isinstance(x, ast.Call) and isinstance(x.func, ast.Attribute) and x.func.attr == "iterator" for x in ast.walk(v_)):
            continue  # delegated to the root's ordered walk
        for mname in methods_under(c_.conds):
            handled_in_tree.add(mname)
            tree_src[mname] = norm(v_)
    node_methods = m.classes["Node"].methods
    for member, v in sorted(vals.items()):
        if member in handled_in_tree:
            continue
        ok = f"_iter_{v}" in node_methods
        obs.append(ctx.ob("EXH-1", ["C06"], "node:Node", f"IterMethod.{member} -> Node._iter_{v}", None, ok,
                          "" if ok else f"iterator(method=IterMethod.{member}) has no walker: NotImplementedError for a documented method"))
    for member in ("UNORDERED", "RANDOM_ORDER"):
        ok = member in handled_in_tree
        obs.append(ctx.ob("EXH-1", ["C06"], ti, f"Tree.iterator handles IterMethod.{member}", None, ok,
                          "" if ok else "the unordered/random methods have no node-level walker and must be served by the tree"))
    from ..known_funcs import KNOWN_FUNCS

    for name in node_methods:
        for pre in ("_iter_", "_visit_"):
            # (a new private helper that happens to be called _iter_<something> is not a walker)
            if name.startswith(pre) and (f"node:Node.{name}" in KNOWN_FUNCS or name[len(pre):] in vals.values()):
                ok = name[len(pre):] in vals.values()
                obs.append(ctx.ob("EXH-1", ["C06"], node_methods[name], f"{name} corresponds to an IterMethod value", None, ok,
                                  "" if ok else "a walker that no IterMethod value selects is dead; the value it was meant for is unsupported"))
    for v in ("pre", "post", "level"):
        ok = f"_visit_{v}" in node_methods
        obs.append(ctx.ob("EXH-1", ["C06"], "node:Node", f"visit() supports {v}-order (Node._visit_{v})", None, ok,
                          "" if ok else f"visit(method={v}) would be refused"))
    # dynamic dispatch sites refuse unknown methods with NotImplementedError
    for q, prefix in (("Node.iterator", "_iter_"), ("Node.visit", "_visit_")):
        f = m.func(q)
        ok = False
        for n in iter_own(f.node):
            if isinstance(n, ast.Try):
                has_ga = any(isinstance(x, ast.Call) and isinstance(x.func, ast.Name) and x.func.id == "getattr"
                             and len(x.args) >= 2 and isinstance(x.args[1], ast.JoinedStr)
                             and isinstance(x.args[1].values[0], ast.Constant) and x.args[1].values[0].value == prefix
                             and "method.value" in norm(x.args[1])
                             for st in n.body for x in ast.walk(st))
                handles = any(h.type is not None and norm(h.type) == "AttributeError"
                              and any(isinstance(x, ast.Raise) and "NotImplementedError" in norm(x) for st in h.body for x in ast.walk(st))
                              for h in n.handlers)
                if has_ga and handles:
                    ok = True
        obs.append(ctx.ob("EXH-1", ["C06"], f, f"{q} selects `{prefix}<method.value>` and refuses unknown methods", None, ok,
                          "" if ok else "the method table dispatch or its refusal is gone"))
    # variants of the level walker
    want = {"_iter_level_rtl": ("True", "False"), "_iter_zigzag": ("False", "True"), "_iter_zigzag_rtl": ("True", "True")}
    for name, (rv, tg) in want.items():
        f = m.func(f"Node.{name}", required=False)
        if f is None:
            obs.append(ctx.ob("EXH-1", ["C06"], "node:Node", f"{name} = _iter_level(revert={rv}, toggle={tg})", None, False,
                              f"walker Node.{name} is missing: the method it served is unsupported"))
            continue
        calls = [c for c in ctx.env.calls_in[f] if any(g.qualname == "Node._iter_level" for g, _ in ctx.env.callees(f, c))]
        ok = False
        got = "no call of _iter_level"
        if calls:
            c = calls[0]
            g = m.func("Node._iter_level")
            a_rv = ctx.env._actual_for(g, c, "revert", bound=True)
            a_tg = ctx.env._actual_for(g, c, "toggle", bound=True)
            got = f"revert={norm(a_rv) if a_rv is not None else 'default'}, toggle={norm(a_tg) if a_tg is not None else 'default'}"
            dv = {"revert": norm(g.param_default("revert")), "toggle": norm(g.param_default("toggle"))}
            ok = (norm(a_rv) if a_rv is not None else dv["revert"]) == rv and (norm(a_tg) if a_tg is not None else dv["toggle"]) == tg
            ok = ok and isinstance(c, ast.Call) and any(isinstance(x, ast.Return) and x.value is c for x in iter_own(f.node))
        obs.append(ctx.ob("EXH-1", ["C06"], f, f"{name} = _iter_level(revert={rv}, toggle={tg})", None, ok,
                          "" if ok else f"got {got}: the documented direction of this method is not what is produced"))
    g = m.func("Node._iter_level")
    ok = norm(g.param_default("revert")) == "False" and norm(g.param_default("toggle")) == "False"
    obs.append(ctx.ob("EXH-1", ["C06"], g, "_iter_level defaults: revert=False, toggle=False (plain level order)", None, ok,
                      "" if ok else "LEVEL_ORDER would run right-to-left or zigzag"))
    # Tree.iterator: sources
    for member in ("UNORDERED", "RANDOM_ORDER"):
        src = tree_src.get(member)
        ok = None
        if src is not None:
            shuffled = any(isinstance(x, ast.Call) and norm(x.func).endswith("shuffle") for x in ast.walk(ti.node)
                           if member in methods_under(_pcs(ctx, ti, x)))
            ok = "self._node_by_id.values()" in src and shuffled == (member == "RANDOM_ORDER")
        obs.append(ctx.tri("EXH-1", ["C06"], ti, f"Tree.iterator({member}) yields the values of the id map", None, ok,
                           "the unordered/random traversal must be a permutation of the registered nodes"))
    deleg = [c for c in ctx.env.calls_in[ti] if any(g.qualname == "Node.iterator" for g, _ in ctx.env.callees(ti, c))]
    ok = bool(deleg) and norm(deleg[0].func.value) in ("self._root", "self.system_root") and any(
        k.arg == "method" and norm(k.value) == "method" for k in deleg[0].keywords) or (bool(deleg) and deleg[0].args and norm(deleg[0].args[0]) == "method")
    obs.append(ctx.ob("EXH-1", ["C06"], ti, "Tree.iterator delegates ordered methods to root.iterator(method=method)", None, bool(ok),
                      "" if ok else "ordered traversal of a tree must be the root's traversal with the caller's method"))
    return obs


@rule("ORDER-TRAV", ["C06"], floor=20, section="4/C06")
def order_trav(ctx: Ctx) -> List[Ob]:
    """emit/descend order and once-only emission in the walkers: pre = emit then descend, post = descend then emit, level = emit the level, build the next from each node's children in order, skip verdicts cut the descent"""
    obs: List[Ob] = []
    m = ctx.model

    # ---- recursive generator walkers
    for name, first in (("_iter_pre", "emit"), ("_iter_post", "descend")):
        try:
            f = m.func(f"Node.{name}")
            lp = _children_loop(ctx, f)
            if not isinstance(lp.target, ast.Name):
                raise AnalysisError(f"{f.qualname}: loop target is not a plain name")
            lv = lp.target.id
            emits = _top_index(lp.body, lambda st: _is_yield_of(st, lv))
            descs = _top_index(lp.body, lambda st: _is_recursive_descent(ctx, f, st, lv))
            all_y = sum(1 for st in lp.body for x in ast.walk(st) if isinstance(x, (ast.Yield, ast.YieldFrom)))
            ok1 = len(emits) == 1 and len(descs) == 1 and all_y == 2
            obs.append(ctx.ob("ORDER-TRAV", ["C06"], f, f"{name}: each child is yielded once and descended into once per iteration", lp, ok1,
                              "" if ok1 else f"found {len(emits)} yield(s) of the child, {len(descs)} recursive descent(s), {all_y} yield statements in the loop body"))
            if emits and descs:
                ok2 = (emits[0] < descs[0]) == (first == "emit")
                obs.append(ctx.ob("ORDER-TRAV", ["C06"], f, f"{name}: {first} first", lp, ok2,
                                  "" if ok2 else ("pre-order must yield a node before its descendants" if first == "emit"
                                                  else "post-order must yield a node after its descendants")))
            other = [x for x in iter_own(f.node) if isinstance(x, (ast.Yield, ast.YieldFrom)) and not any(x is y for st in lp.body for y in ast.walk(st))]
            obs.append(ctx.ob("ORDER-TRAV", ["C06"], f, f"{name}: nothing is yielded outside the child loop", None, not other,
                              "" if not other else f"extra emission `{norm(other[0])}`: a node would be visited twice"))
            # no filtering/early exit in the loop
            ctrl = [x for st in lp.body for x in ast.walk(st) if isinstance(x, (ast.Break, ast.Continue, ast.Return, ast.If))]
            obs.append(ctx.ob("ORDER-TRAV", ["C06"], f, f"{name}: the child loop has no skip/exit", lp, not ctrl,
                              "" if not ctrl else f"`{norm(ctrl[0])[:60]}` lets the walk miss nodes"))
        except AnalysisError as e:
            # the walker was reshaped beyond what this block recognises: its clauses are undecided, not violated
            obs.append(ctx.tri("ORDER-TRAV", ["C06"], f"node:Node.{name}", f"{name}: emit/descend order of the walker", None, None, str(e)))

    # ---- recursive callback walkers
    from ..pat import match as _match
    from .util import always_before, never_after, path_conds

    def is_skip_atom(e: ast.AST, subject: str) -> bool:
        """`call_traversal_cb(callback, <subject>, memo) is False`"""
        if not (isinstance(e, ast.Compare) and len(e.ops) == 1 and isinstance(e.ops[0], ast.Is) and isinstance(e.comparators[0], ast.Constant) and e.comparators[0].value is False):
            return False
        c = e.left
        return isinstance(c, ast.Call) and _cb_call(c) is c and len(c.args) >= 2 and norm(c.args[1]) == subject

    for name, first in (("_visit_pre", "emit"), ("_visit_post", "descend")):
        try:
            f = m.func(f"Node.{name}")
            lp = _children_loop(ctx, f)
            lv = lp.target.id if isinstance(lp.target, ast.Name) else "?"
            descs = _top_index(lp.body, lambda st: _is_recursive_descent(ctx, f, st, lv))
            ok = len(descs) == 1 and len(lp.body) == 1
            obs.append(ctx.ob("ORDER-TRAV", ["C06"], f, f"{name}: exactly one recursive call per child, nothing else in the loop", lp, ok,
                              "" if ok else "children would be skipped or visited twice"))
            cbs = [c for c in ctx.env.calls_in[f] if _cb_call(c) is c and not any(c is x for x in ast.walk(lp))]
            if len(cbs) != 1:
                raise AnalysisError(f"{f.qualname}: walker shape not recognised ({len(cbs)} callback invocations outside the child loop)")
            cb = cbs[0]
            arg_ok = len(cb.args) >= 2 and norm(cb.args[0]) == "callback" and norm(cb.args[1]) == "self"
            obs.append(ctx.ob("ORDER-TRAV", ["C06"], f, f"{name}: the callback is normalised and applied to self", cb, arg_ok,
                              "" if arg_ok else f"`{norm(cb)}` does not call the user callback on this node"))
            if first == "emit":
                ok2 = always_before(ctx, f, cb, lp)
            else:
                ok2 = never_after(ctx, f, cb, lp) and not any(isinstance(x, ast.Return) for x in iter_own(f.node))
            obs.append(ctx.ob("ORDER-TRAV", ["C06"], f, f"{name}: {first} first", None, ok2,
                              "" if ok2 else "visit() must follow the same order as the iterator"))
            if first == "emit":
                ok3 = any((not pol) and is_skip_atom(e, "self") for e, pol in path_conds(ctx, f, lp))
                obs.append(ctx.ob("ORDER-TRAV", ["C06"], f, f"{name}: a skip verdict (False from the normaliser) returns before the children", cb, ok3,
                                  "" if ok3 else "SkipBranch must suppress exactly that node's descendants"))
            # nothing but the children test (and the skip verdict) guards the descent
            extra_g = [("" if pol else "not ") + norm(e) for e, pol in path_conds(ctx, f, lp)
                       if not is_skip_atom(e, "self") and norm(e) not in ("self._children", "self.children", "self._children is None")]
            obs.append(ctx.ob("ORDER-TRAV", ["C06"], f, f"{name}: the descent depends only on the node having children", lp, not extra_g,
                              "" if not extra_g else f"extra condition {extra_g}: some branches would not be visited"))
        except AnalysisError as e:
            # the walker was reshaped beyond what this block recognises: its clauses are undecided, not violated
            obs.append(ctx.tri("ORDER-TRAV", ["C06"], f"node:Node.{name}", f"{name}: emit/descend order of the walker", None, None, str(e)))
    # ---- level walkers
    for name in ("_iter_level", "_visit_level"):
        try:
            f = m.func(f"Node.{name}")
            whiles = [n for n in iter_own(f.node) if isinstance(n, ast.While)]
            if len(whiles) != 1 or not isinstance(whiles[0].test, ast.Name):
                raise AnalysisError(f"{f.qualname}: level walker shape not recognised")
            wl = whiles[0]
            cur = wl.test.id
            init = [b.expr for b in ctx.env.scope(f).resolve(cur)[1] if b.kind == "val"]
            ok = any(norm(e) in ("self._children", "self.children") for e in init)
            obs.append(ctx.ob("ORDER-TRAV", ["C06"], f, f"{name}: starts with self's children", None, ok,
                              "" if ok else "the first level must be the start node's child list"))
            # next-level accumulator: bound to `cur` as the last step of each round
            # (after it nothing of this round is emitted and the level variable is not read any more; statements that are
            # independent of it - toggling the direction flag - may follow)
            advs = [st for st in wl.body if isinstance(st, ast.Assign) and len(st.targets) == 1 and norm(st.targets[0]) == cur]
            last = advs[-1] if advs else wl.body[-1]
            after_ = wl.body[wl.body.index(last) + 1:] if advs else []
            ok = len(advs) == 1 and isinstance(last.value, (ast.Name, ast.ListComp)) and not any(
                isinstance(x, (ast.Yield, ast.YieldFrom, ast.Call)) or (isinstance(x, ast.Name) and x.id == cur) for st_ in after_ for x in ast.walk(st_))
            nxt = (last.value.id if isinstance(last.value, ast.Name) else cur) if ok else None
            obs.append(ctx.ob("ORDER-TRAV", ["C06"], f, f"{name}: the level list is advanced as the last step of each round", last, ok,
                              "" if ok else "the current level must be fully emitted before it is replaced by the next one"))
            if nxt is None:
                continue
            # how the next level is built: either `nxt = []` + loop over the level with nxt.extend(<node>.children),
            # or one comprehension over the level and each node's children (possibly assigned to the level variable directly)
            builds = [st for st in wl.body if isinstance(st, (ast.Assign, ast.AnnAssign)) and norm(st.targets[0] if isinstance(st, ast.Assign) else st.target) == nxt]
            fors = [st for st in wl.body if isinstance(st, ast.For) and norm(st.iter) == cur]
            fl = None
            lv = None
            exts: List[ast.Call] = []
            skip_guard_ok = None
            if len(builds) == 1 and isinstance(builds[0].value, ast.ListComp) and not fors:
                lc = builds[0].value
                gens = lc.generators
                shape = len(gens) == 2 and norm(gens[0].iter) == cur and isinstance(gens[0].target, ast.Name) and isinstance(gens[1].target, ast.Name) \
                    and norm(gens[1].iter) in (f"{gens[0].target.id}._children", f"{gens[0].target.id}.children") and norm(lc.elt) == gens[1].target.id \
                    and not gens[1].ifs and all(norm(t) in (f"{gens[0].target.id}._children", f"{gens[0].target.id}.children") for t in gens[0].ifs)
                obs.append(ctx.ob("ORDER-TRAV", ["C06"], f, f"{name}: the next-level list is reset for every level", None, True, ""))
                obs.append(ctx.ob("ORDER-TRAV", ["C06"], f, f"{name}: the next level is built by extending with each node's children, once, in order", builds[0], shape,
                                  "" if shape else "each node's children must be appended exactly once, in list order"))
                lv = gens[0].target.id if gens and isinstance(gens[0].target, ast.Name) else None
            else:
                resets = _top_index(wl.body, lambda st: isinstance(st, (ast.Assign, ast.AnnAssign)) and norm(st.targets[0] if isinstance(st, ast.Assign) else st.target) == nxt
                                    and isinstance(st.value, (ast.List, ast.ListComp, ast.Call)))
                ok = bool(resets) and not any(isinstance(x, (ast.Yield, ast.YieldFrom)) for st_ in wl.body[: resets[0]] for x in ast.walk(st_)) \
                    and not any(isinstance(x, ast.Name) and x.id == nxt for st_ in wl.body[: resets[0]] for x in ast.walk(st_))
                obs.append(ctx.ob("ORDER-TRAV", ["C06"], f, f"{name}: the next-level list is reset for every level", None, bool(ok),
                                  "" if ok else "a next-level list that is not reset re-emits earlier levels"))
                if len(fors) != 1 or not isinstance(fors[0].target, ast.Name):
                    if name == "_iter_level" and resets and isinstance(wl.body[resets[0]].value, ast.Call):
                        # built by one expression (e.g. list(chain.from_iterable(...))): not read by this block
                        obs.append(ctx.tri("ORDER-TRAV", ["C06"], f, f"{name}: the next level is built by extending with each node's children, once, in order", None, None,
                                           f"next level is `{norm(wl.body[resets[0]].value)}`"))
                        continue
                    raise AnalysisError(f"{f.qualname}: expected one loop over the current level")
                fl = fors[0]
                lv = fl.target.id
                exts = [x for st in fl.body for x in ast.walk(st) if isinstance(x, ast.Call) and isinstance(x.func, ast.Attribute)
                        and norm(x.func.value) == nxt]
                ok = len(exts) == 1 and exts[0].func.attr == "extend" and len(exts[0].args) == 1 and norm(exts[0].args[0]) in (f"{lv}._children", f"{lv}.children")
                if ok:
                    # guarded by nothing but the children test (and, for visit, the skip verdict)
                    g = [("" if pol else "not ") + norm(e) for e, pol in path_conds(ctx, f, exts[0])
                         if any(exts[0] is x for x in ast.walk(fl)) and not is_skip_atom(e, lv) and norm(e) not in (f"{lv}._children", f"{lv}.children", cur)]
                    ok = not g
                obs.append(ctx.ob("ORDER-TRAV", ["C06"], f, f"{name}: the next level is built by extending with each node's children, once, in order", fl, ok,
                                  "" if ok else "each node's children must be appended exactly once, in list order"))
            if name == "_iter_level":
                ys = [x for st in wl.body for x in ast.walk(st) if isinstance(x, (ast.Yield, ast.YieldFrom))]
                y_rev = [y for y in ys if isinstance(y, ast.YieldFrom) and norm(y.value) == f"reversed({cur})"]
                y_fwd = [y for y in ys if isinstance(y, ast.YieldFrom) and norm(y.value) == cur]
                ok = len(ys) == 2 and len(y_rev) == 1 and len(y_fwd) == 1
                if ok:
                    cr = [(norm(e), pol) for e, pol in path_conds(ctx, f, y_rev[0]) if norm(e) != cur]
                    cf = [(norm(e), pol) for e, pol in path_conds(ctx, f, y_fwd[0]) if norm(e) != cur]
                    ok = cr == [("revert", True)] and cf == [("revert", False)]
                obs.append(ctx.ob("ORDER-TRAV", ["C06"], f, "_iter_level: each level is emitted once, reversed iff `revert`", None, ok,
                                  "" if ok else "the level must be yielded exactly once: reversed(children) when revert is set, children otherwise"))
                from .util import find_under as _fu

                tg = _fu(ctx, f, "revert = not revert", [("toggle", True)])
                ok = len(tg) == 1 and len(find_all_assign(f, "revert")) == 1 and any(tg[0][0] is x for st in wl.body for x in ast.walk(st))
                obs.append(ctx.ob("ORDER-TRAV", ["C06"], f, "_iter_level: `toggle` flips the direction once per level", None, ok,
                                  "" if ok else "zigzag must alternate direction on every level"))
                if ys and tg:
                    before_tg = _stmts_before_in(ctx, f, tg[0][0], wl)
                    ok = all(any(y is x for s_ in before_tg for x in ast.walk(s_)) for y in ys)
                    obs.append(ctx.ob("ORDER-TRAV", ["C06"], f, "_iter_level: the level is emitted before the direction flips", None, ok,
                                      "" if ok else "the first level of ZIGZAG must run left-to-right"))
                ctrl = [x for st in (fl.body if fl is not None else []) for x in ast.walk(st) if isinstance(x, (ast.Break, ast.Continue, ast.Return))]
                obs.append(ctx.ob("ORDER-TRAV", ["C06"], f, "_iter_level: no node of a level is skipped", fl, not ctrl,
                                  "" if not ctrl else "a break/continue in the level loop loses descendants"))
            else:
                if fl is None:
                    raise AnalysisError(f"{f.qualname}: expected one loop over the current level")
                cbs = [c for c in ctx.env.calls_in[f] if _cb_call(c) is c and any(c is x for x in ast.walk(fl))]
                ok = len(cbs) == 1 and len(cbs[0].args) >= 2 and norm(cbs[0].args[0]) == "callback" and norm(cbs[0].args[1]) == lv \
                    and _unconditional_in(ctx, f, cbs[0], fl)
                obs.append(ctx.ob("ORDER-TRAV", ["C06"], f, "_visit_level: the callback is applied to every node of the level", fl, ok,
                                  "" if ok else "the callback must be called once per node"))
                ctrl = [x for st in fl.body for x in ast.walk(st) if isinstance(x, (ast.Break, ast.Return))]
                obs.append(ctx.ob("ORDER-TRAV", ["C06"], f, "_visit_level: a verdict on one node never ends the level (no break/return in the level loop)", fl, not ctrl,
                                  "" if not ctrl else f"`{norm(ctrl[0])}` leaves the level loop: the remaining nodes of the level (and their descendants) are never visited"))
                ok = bool(exts) and any((not pol) and is_skip_atom(e, lv) for e, pol in path_conds(ctx, f, exts[0]))
                obs.append(ctx.ob("ORDER-TRAV", ["C06"], f, "_visit_level: a skip verdict keeps the node's children out of the next level", fl, bool(ok),
                                  "" if ok else "SkipBranch must suppress exactly that node's descendants"))
        except AnalysisError as e:
            # the walker was reshaped beyond what this block recognises: its clauses are undecided, not violated
            obs.append(ctx.tri("ORDER-TRAV", ["C06"], f"node:Node.{name}", f"{name}: emit/descend order of the walker", None, None, str(e)))
    return obs


def find_all_assign(f: Func, name: str) -> List[ast.AST]:
    return [n for n in iter_own(f.node) if isinstance(n, (ast.Assign, ast.AugAssign, ast.AnnAssign))
            and any(isinstance(t, ast.Name) and t.id == name for t in (n.targets if isinstance(n, ast.Assign) else [n.target]))]


def _stmts_before_in(ctx: Ctx, f: Func, node: ast.AST, scope: ast.AST) -> List[ast.stmt]:
    from .util import stmts_before

    inside = {id(x) for x in ast.walk(scope)}
    return [s for s in stmts_before(ctx, f, node) if id(s) in inside]


def _unconditional_in(ctx: Ctx, f: Func, node: ast.AST, scope: ast.AST) -> bool:
    """`node` is evaluated on every round of `scope` (a loop): no condition
    inside the loop guards it other than being the first operand of its own test."""
    from .util import path_conds

    inside = {id(x) for x in ast.walk(scope)}
    for e, _pol in path_conds(ctx, f, node):
        e = getattr(e, "_orig", e)
        if id(e) in inside and not any(node is x for x in ast.walk(e)):
            return False
    return True


@rule("SIB-ITER", ["C06"], floor=8, section="3.7")
def sib_iter(ctx: Ctx) -> List[Ob]:
    """Node.iterator and Node.visit agree on where the start node goes: first for every method except post-order, last for post-order; visit() returns the value carried by StopTraversal"""
    from .util import always_before, never_after, path_conds

    obs: List[Ob] = []
    m = ctx.model

    def method_case(pcs) -> Optional[str]:
        """'pre' (method != POST_ORDER known), 'post' (== POST_ORDER), 'level' (== LEVEL_ORDER), None"""
        for e, pol in pcs:
            t = norm(e)
            if t == "method == IterMethod.POST_ORDER":
                return "post" if pol else "pre"
            if t == "method == IterMethod.LEVEL_ORDER" and pol:
                return "level"
        return None

    def has_pos(pcs, text: str) -> bool:
        return any(pol and norm(e) == text for e, pol in pcs)

    # iterator
    f = m.func("Node.iterator")
    hv = None
    for n in iter_own(f.node):
        if isinstance(n, ast.Assign) and isinstance(n.value, ast.Call) and norm(n.value.func) == "getattr" and isinstance(n.targets[0], ast.Name):
            hv = n.targets[0].id
    desc = [x for x in iter_own(f.node) if isinstance(x, ast.YieldFrom) and hv is not None and norm(x.value) == f"{hv}()"]
    if len(desc) != 1:
        raise AnalysisError("Node.iterator: `yield from <selected walker>()` not found")
    selfs = [x for x in iter_own(f.node) if isinstance(x, ast.Yield) and x.value is not None and norm(x.value) == "self"]
    pre = [y for y in selfs if has_pos(path_conds(ctx, f, y), "add_self") and method_case(path_conds(ctx, f, y)) == "pre"]
    post = [y for y in selfs if has_pos(path_conds(ctx, f, y), "add_self") and method_case(path_conds(ctx, f, y)) == "post"]
    ok = len(pre) == 1 and never_after(ctx, f, desc[0], pre[0]) and len(path_conds(ctx, f, pre[0])) == 2
    obs.append(ctx.ob("SIB-ITER", ["C06"], f, "iterator: add_self yields self first unless post-order", None, ok,
                      "" if ok else "add_self must put the start node first for every method except POST_ORDER"))
    ok = len(post) == 1 and never_after(ctx, f, post[0], desc[0]) and len(path_conds(ctx, f, post[0])) == 2
    obs.append(ctx.ob("SIB-ITER", ["C06"], f, "iterator: add_self yields self last for post-order", None, ok,
                      "" if ok else "add_self must put the start node last for POST_ORDER"))
    ys = [x for x in iter_own(f.node) if isinstance(x, (ast.Yield, ast.YieldFrom))]
    obs.append(ctx.ob("SIB-ITER", ["C06"], f, "iterator: exactly three emission points (self-first, walker, self-last)", None, len(ys) == 3,
                      "" if len(ys) == 3 else f"{len(ys)} yield statements: a node would be emitted twice or never"))
    uncond = not path_conds(ctx, f, desc[0])
    obs.append(ctx.ob("SIB-ITER", ["C06"], f, "iterator: the walker runs unconditionally", desc[0], uncond,
                      "" if uncond else "descendants would be left out under some condition"))
    # visit
    f = m.func("Node.visit")
    hv = None
    for n in iter_own(f.node):
        if isinstance(n, ast.Assign) and isinstance(n.value, ast.Call) and norm(n.value.func) == "getattr" and isinstance(n.targets[0], ast.Name):
            hv = n.targets[0].id
    tries = [n for n in iter_own(f.node) if isinstance(n, ast.Try) and any(h.type is not None and norm(h.type) == "StopTraversal" for h in n.handlers)]
    ok = len(tries) == 1
    obs.append(ctx.ob("SIB-ITER", ["C06"], f, "visit: one StopTraversal handler around the whole traversal", None, ok,
                      "" if ok else "StopTraversal must end the traversal at once, from any depth"))
    if ok:
        tr = tries[0]
        h = [h for h in tr.handlers if norm(h.type) == "StopTraversal"][0]
        okv = bool(h.name) and len(h.body) == 1 and isinstance(h.body[0], ast.Return) and h.body[0].value is not None and norm(h.body[0].value) == f"{h.name}.value"
        if not okv and h.name and len(h.body) == 1 and isinstance(h.body[0], ast.Assign) and len(h.body[0].targets) == 1 and isinstance(h.body[0].targets[0], ast.Name) \
                and norm(h.body[0].value) == f"{h.name}.value":
            # the value is carried out through a local: every `return` behind the try hands that local back
            rv_ = h.body[0].targets[0].id
            blk_ = m.parent_of(tr)
            after = []
            for fld_ in ("body", "orelse", "finalbody"):
                b_ = getattr(blk_, fld_, None)
                if isinstance(b_, list) and any(x is tr for x in b_):
                    after = b_[[i for i, x in enumerate(b_) if x is tr][0] + 1:]
            rets_ = [x for st_ in after for x in ast.walk(st_) if isinstance(x, ast.Return)]
            okv = bool(rets_) and all(r_.value is not None and norm(r_.value) == rv_ for r_ in rets_) and not any(
                isinstance(x, ast.Name) and x.id == rv_ and isinstance(x.ctx, ast.Store) for st_ in after for x in ast.walk(st_))
        obs.append(ctx.ob("SIB-ITER", ["C06"], f, "visit: returns the value carried by StopTraversal", h, okv,
                          "" if okv else "visit() must return StopTraversal.value"))
        # every traversal call (handler / _visit_level / callback on self) lies inside the try body
        inside = {id(x) for st in tr.body for x in ast.walk(st)}
        calls = [c for c in ctx.env.calls_in[f] if _cb_call(c) is c or any(g.name.startswith("_visit_") for g, _ in ctx.env.callees(f, c))]
        outside = [c for c in calls if id(c) not in inside]
        obs.append(ctx.ob("SIB-ITER", ["C06"], f, "visit: every callback invocation happens inside the StopTraversal handler", None, not outside and bool(calls),
                          "" if not outside and calls else f"`{norm(outside[0]) if outside else '?'}` runs outside the handler: a stop signal would escape as an exception"))
        cbs = [c for c in ctx.env.calls_in[f] if _cb_call(c) is c and len(c.args) >= 2 and norm(c.args[1]) == "self"]
        loops = [n for n in iter_own(f.node) if isinstance(n, ast.For) and norm(n.iter) in ("self.children", "self._children", "self._children or ()")]
        by_case: Dict[str, List[ast.Call]] = {}
        for c in cbs:
            pcs = path_conds(ctx, f, c)
            if has_pos(pcs, "add_self"):
                by_case.setdefault(method_case(pcs) or "?", []).append(c)
        pre, post, lev = by_case.get("pre", []), by_case.get("post", []), by_case.get("level", [])
        # (three-valued: a start-node callback that is not filed under exactly one of pre / post / level is a shape this
        # clause does not read; *violated* needs a witness - the wrong order, or a discarded verdict)
        if not cbs:
            okp: Optional[bool] = False
        elif len(loops) == 1 and len(pre) == 1:
            okp = never_after(ctx, f, loops[0], pre[0])
        else:
            okp = None
        obs.append(ctx.tri("SIB-ITER", ["C06"], f, "visit: add_self calls back on self first unless post-order", None, okp,
                           "visit() must follow the iterator: start node first except for POST_ORDER"))
        if not cbs:
            okq: Optional[bool] = False
        elif len(loops) == 1 and len(post) == 1:
            okq = never_after(ctx, f, post[0], loops[0])
        else:
            okq = None
        obs.append(ctx.tri("SIB-ITER", ["C06"], f, "visit: add_self calls back on self last for post-order", None, okq,
                           "visit() must follow the iterator: start node last for POST_ORDER"))
        # the child loop is reached only if the callback on the start node did not answer False
        firsts = [c for c in cbs if len(loops) == 1 and never_after(ctx, f, loops[0], c) and not never_after(ctx, f, c, loops[0])]  # before the child loop, and the loop can follow
        oks: Optional[bool] = None
        if len(loops) == 1 and firsts:
            lpc = path_conds(ctx, f, loops[0])

            def tested(c: ast.Call) -> bool:
                for e, pol in lpc:
                    for e_ in (e, getattr(e, "_orig", e)):
                        if any(c is x for x in ast.walk(e_)) and (((not pol) and "is False" in norm(e_)) or (pol and "is not False" in norm(e_))):
                            return True
                return False

            def truthy(c: ast.Call) -> bool:
                # the verdict is used for its truth value: None (no verdict) is falsy like False
                for e, pol in lpc:
                    for e_ in (e, getattr(e, "_orig", e)):
                        if e_ is c:
                            return True
                        if any(c is x for x in ast.walk(e_)):
                            par_ = ctx.model.parent_of(c)
                            if isinstance(par_, ast.BoolOp) or (isinstance(par_, ast.UnaryOp) and isinstance(par_.op, ast.Not)) or isinstance(par_, (ast.If, ast.While)):
                                return True
                return False

            if all(tested(c) for c in firsts):
                oks = True
            elif any(isinstance(ctx.model.parent_of(c), ast.Expr) for c in firsts):
                oks = False  # the verdict is thrown away
            elif any(truthy(c) for c in firsts):
                oks = False  # `if not cb(...)`: a callback that returns nothing would end the visit
        obs.append(ctx.tri("SIB-ITER", ["C06"], f, "visit: a skip verdict on the start node ends the visit", firsts[0] if firsts else None, oks,
                           "SkipBranch on the start node must suppress all descendants"))
        if len(loops) == 1:
            lp = loops[0]
            ok = len(lp.body) == 1 and isinstance(lp.body[0], ast.Expr) and isinstance(lp.body[0].value, ast.Call) \
                and norm(lp.body[0].value.func) == hv and [norm(a) for a in lp.body[0].value.args] == [norm(lp.target), "callback", "memo"]
            obs.append(ctx.ob("SIB-ITER", ["C06"], f, "visit: each child is handed to the selected walker with callback and memo", lp, ok,
                              "" if ok else "every child branch must be walked once by the method's walker"))
        # level-order branch
        lvl_calls = [c for c in ctx.env.calls_in[f] if norm(c.func) == "self._visit_level"]
        lev_cbs = lev + pre  # `method != POST_ORDER` covers LEVEL_ORDER as well
        ok: Optional[bool] = None
        if len(lvl_calls) == 1 and lev_cbs and len(loops) == 1:
            lc = lvl_calls[0]
            pcs = path_conds(ctx, f, lc)
            first = [c for c in lev_cbs if never_after(ctx, f, lc, c)]
            ok = method_case(pcs) == "level" and bool(first) and never_after(ctx, f, lc, loops[0]) \
                and any((not pol) and any(any(c is x for x in ast.walk(getattr(e, "_orig", e))) for c in first) for e, pol in pcs) \
                and any((not pol) and norm(e) == "method == IterMethod.LEVEL_ORDER" for e, pol in path_conds(ctx, f, loops[0]))
        discarded = [c for c in cbs if len(lvl_calls) == 1 and isinstance(ctx.model.parent_of(c), ast.Expr) and never_after(ctx, f, lvl_calls[0], c)
                     and not never_after(ctx, f, c, lvl_calls[0])]
        if discarded:
            ok = False  # witness: the start node's verdict is thrown away before the level walk
        elif ok is False and len(lvl_calls) == 1 and len(loops) == 1 and never_after(ctx, f, lvl_calls[0], loops[0]) and method_case(path_conds(ctx, f, lvl_calls[0])) == "level":
            ok = None  # no witness: the level walk is selected by the method and does not fall through
        obs.append(ctx.tri("SIB-ITER", ["C06"], f, "visit: level-order visits self first (add_self), then the levels, then returns", None, ok,
                           "the level-order branch must not fall through to the depth-first code"))
    return obs


def _if_chain(st: ast.If) -> List[Tuple[Optional[ast.AST], List[ast.stmt]]]:
    out = []
    cur: Optional[ast.If] = st
    while cur is not None:
        out.append((cur.test, cur.body))
        if len(cur.orelse) == 1 and isinstance(cur.orelse[0], ast.If):
            cur = cur.orelse[0]
        else:
            if cur.orelse:
                out.append((None, cur.orelse))
            cur = None
    return out


def _action(body: List[ast.stmt]) -> str:
    st = body[-1]
    if isinstance(st, ast.Return):
        return "return " + (norm(st.value) if st.value is not None else "None")
    if isinstance(st, ast.Raise):
        return "raise " + (norm(st.exc) if st.exc is not None else "")
    return norm(st)


@rule("EXH-2", ["C06", "C08"], floor=14, section="3.8")
def exh2(ctx: Ctx) -> List[Ob]:
    """the callback normalisers cover every documented control value (returned or raised), user callbacks are invoked only inside them, and traversal sites act on the normalised result"""
    obs: List[Ob] = []
    m = ctx.model
    from .util import exit_cases, reaching_values

    f = m.func("call_traversal_cb")
    tries = [n for n in iter_own(f.node) if isinstance(n, ast.Try)]
    if len(tries) != 1:
        raise AnalysisError("call_traversal_cb: try block not found")
    tr = tries[0]
    # names: fn = first parameter; res = the variable holding fn(node, memo)
    fnp, ndp, mmp = f.positional_params()[:3]
    call0 = [n for st in tr.body for n in ast.walk(st) if isinstance(n, ast.Call) and norm(n) == f"{fnp}({ndp}, {mmp})"]
    resv = None
    for st in tr.body:
        if isinstance(st, ast.Assign) and isinstance(st.value, ast.Call) and norm(st.value) == f"{fnp}({ndp}, {mmp})" and isinstance(st.targets[0], ast.Name):
            resv = st.targets[0].id
    if resv is None:
        raise AnalysisError("call_traversal_cb: the callback invocation `res = fn(node, memo)` was not found")

    def canon(t: str) -> str:
        import re

        return re.sub(rf"\b{re.escape(resv)}\b", "res", t)

    in_try_body = {id(x) for st in tr.body for x in ast.walk(st)}
    cases: Dict[str, str] = {}
    default_act = None
    for c in exit_cases(ctx, f, ("return", "raise")):
        if id(c.stmt) not in in_try_body:
            continue
        act = canon(("return " + (norm(c.value) if c.value is not None else "None")) if c.kind == "return" else ("raise " + (norm(c.value) if c.value is not None else "")))
        pos = []
        for e, pol in c.conds:
            if not pol:
                continue
            for d in (e.values if isinstance(e, ast.BoolOp) and isinstance(e.op, ast.Or) else [e]):
                pos.append(canon(norm(d)))
        if not pos:
            default_act = act if default_act is None else default_act + " | " + act
        for t in pos:
            cases[t] = act if t not in cases else cases[t] + " | " + act
    want = {
        "res is None": ("return None", "no verdict: continue"),
        "res is SkipBranch": ("return False", "SkipBranch class returned"),
        "isinstance(res, SkipBranch)": ("return False", "SkipBranch instance returned"),
        "res is StopTraversal": ("raise res", "StopTraversal class returned"),
        "isinstance(res, StopTraversal)": ("raise res", "StopTraversal instance returned"),
        "res is False": ("raise StopTraversal", "False returned stops"),
        "res is StopIteration": ("raise res", "StopIteration class returned"),
        "isinstance(res, StopIteration)": ("raise res", "StopIteration instance returned"),
    }
    for t, (act, why) in want.items():
        got = cases.get(t)
        ok = got is not None and (got == act or (act == "raise StopTraversal" and got.startswith("raise StopTraversal") and "|" not in got))
        obs.append(ctx.ob("EXH-2", ["C06"], f, f"returned `{t}` -> {act}", None, ok,
                          "" if ok else f"{why}: got `{got}`; the documented control value is not honoured"))
    got = default_act or ""
    ok = got.startswith("raise ValueError") and "|" not in got
    obs.append(ctx.ob("EXH-2", ["C06"], f, "other return values are rejected", None, ok, "" if ok else "unknown verdicts must not be taken for a control signal"))
    extra = set(cases) - set(want)
    obs.append(ctx.ob("EXH-2", ["C06"], f, "no undocumented return value is taken for a control signal", None, not extra, "" if not extra else f"extra cases {sorted(extra)}"))
    hs = {norm(h.type) if h.type is not None else "": h for h in tr.handlers}
    h = hs.get("SkipBranch")
    ok = h is not None and _action(h.body) == "return False"
    obs.append(ctx.ob("EXH-2", ["C06"], f, "raised SkipBranch -> return False", None, ok, "" if ok else "raising SkipBranch must skip the branch"))
    h = hs.get("StopIteration")
    ok = h is not None and h.name is not None and _action(h.body).startswith(f"raise StopTraversal({h.name}.value)")
    # (the carried value must travel: `raise StopTraversal` without it would make visit() return None)
    obs.append(ctx.ob("EXH-2", ["C06"], f, "raised StopIteration -> StopTraversal(e.value)", None, ok, "" if ok else "StopIteration must stop the traversal and carry its value"))
    ok = not any(t in hs for t in ("StopTraversal", "IterationControl", "Exception", "BaseException", ""))
    obs.append(ctx.ob("EXH-2", ["C06"], f, "raised StopTraversal propagates to visit()", None, ok, "" if ok else "the normaliser must not swallow the stop signal"))
    all_calls = [n for n in iter_own(f.node) if isinstance(n, ast.Call) and isinstance(n.func, ast.Name) and n.func.id == fnp]
    obs.append(ctx.ob("EXH-2", ["C06"], f, "the callback is called once as fn(node, memo)", None, len(call0) == 1 and len(all_calls) == 1,
                      "" if call0 else "callback invocation not found"))

    # call_predicate
    f = m.func("call_predicate")
    tries = [n for n in iter_own(f.node) if isinstance(n, ast.Try)]
    if len(tries) != 1:
        raise AnalysisError("call_predicate: try block not found")
    tr = tries[0]
    hs = {norm(h.type) if h.type is not None else "": h for h in tr.handlers}
    h = hs.get("IterationControl")
    ok = h is not None and h.name is not None and _action(h.body) == f"return {h.name}"
    obs.append(ctx.ob("EXH-2", ["C08"], f, "raised IterationControl -> returned as verdict", None, ok, "" if ok else "raised SkipBranch/SelectBranch/StopTraversal must equal the returned form"))
    h = hs.get("StopIteration")
    ok = h is not None and h.name is not None and _action(h.body) == f"return StopTraversal({h.name}.value)"
    obs.append(ctx.ob("EXH-2", ["C08"], f, "raised StopIteration -> StopTraversal verdict", None, ok, "" if ok else "StopIteration must end the scan"))
    fnp2, ndp2 = f.positional_params()[:2]
    in_handlers = {id(x) for h_ in tr.handlers for x in ast.walk(h_)}
    calls = [n for n in iter_own(f.node) if isinstance(n, ast.Call) and norm(n) == f"{fnp2}({ndp2})"]

    def is_result(e: ast.AST, at: ast.AST, depth: int = 0) -> bool:
        """fn(node) itself, or an instance made from it when it is a control class: res()"""
        if depth > 3:
            return False
        if norm(e) == f"{fnp2}({ndp2})":
            return True
        if isinstance(e, ast.Call) and not e.args and not e.keywords and isinstance(e.func, ast.Name):
            here = e
            while here is not None and not isinstance(here, ast.stmt):
                here = m.parent_of(here)
            vs = [v for v in reaching_values(ctx, f, here or at, e.func) if v is not e]
            return bool(vs) and all(is_result(v, here or at, depth + 1) for v in vs)
        if isinstance(e, ast.Name):
            vs = reaching_values(ctx, f, at, e)
            return vs != [e] and all(is_result(v, at, depth + 1) for v in vs)
        return False

    rets = [c for c in exit_cases(ctx, f, ("return",)) if id(c.stmt) not in in_handlers and c.value is not None]
    ok = len(calls) == 1 and bool(rets) and all(is_result(c.value, c.stmt) for c in rets)
    obs.append(ctx.ob("EXH-2", ["C08"], f, "the predicate's own result is passed through", None, ok, "" if ok else "the verdict must be the predicate's return value"))

    # who may call user callbacks of the traversal / predicate kind
    offenders = []
    sites = 0
    for g in m.all_funcs():
        if g.qualname in ("call_traversal_cb", "call_predicate"):
            continue
        for c in ctx.env.calls_in[g]:
            if isinstance(c.func, ast.Name) and g.module in ("node", "tree", "typed_tree"):
                sc, bs = ctx.env.scope(g).resolve(c.func.id)
                for b in bs:
                    if b.kind != "param":
                        continue
                    ann = norm(b.ann) if b.ann is not None else ""
                    typed = any(t in ann for t in ("TraversalCallbackType", "PredicateCallbackType"))
                    # un-annotated helpers (_visit_pre(callback, memo)) are matched by parameter name
                    named = b.ann is None and c.func.id in ("callback", "predicate")
                    if (typed and "match" not in c.func.id) or named:
                        offenders.append((g, c))
        for c in ctx.env.calls_in[g]:
            if isinstance(c.func, ast.Name) and c.func.id in ("call_traversal_cb", "call_predicate"):
                sites += 1
    obs.append(ctx.ob("EXH-2", ["C06", "C08"], "package", "traversal callbacks and predicates are invoked only through the normalisers", None, not offenders and sites >= 6,
                      "" if not offenders and sites >= 6 else (f"{offenders[0][0].qualname} calls `{norm(offenders[0][1])}` directly: raised control signals are not normalised"
                                                              if offenders else f"only {sites} normaliser call sites found")))
    return obs
