"""Pairing / must-pass-through / guard rules on the owner layer (DESIGN 3.1)."""
from __future__ import annotations

import ast
from typing import Callable, Dict, List, Optional, Sequence, Set, Tuple

from ..cfg import CFG, N, describe_path
from ..core import Ctx, Ob, rule
from ..effects import Effect
from ..infer import NODE, NODECLS, NODELIST, SLOT
from ..model import AnalysisError, Func, iter_own, norm
from .util import StmtIndex, raised_class, stmt_index, walk_node_exprs

Pred = Callable[[N], bool]


def P_effect(si: StmtIndex, ops: Sequence[str], fields: Sequence[str], *, trans=False) -> Pred:
    ops, fields = set(ops), set(fields)

    def pred(n: N) -> bool:
        es = si.direct.get(n.id, [])
        if trans:
            es = es + si.trans.get(n.id, [])
        return any(e.op in ops and e.field in fields for e in es)

    return pred


def P_call(si: StmtIndex, quals: Sequence[str]) -> Pred:
    qs = set(quals)

    def pred(n: N) -> bool:
        return bool(si.calls_resolving_to(n, qs))

    return pred


def P_or(*ps: Pred) -> Pred:
    return lambda n: any(p(n) for p in ps)


def normal_paths_pass(cfg: CFG, pred: Pred) -> Optional[List[N]]:
    """None if every normal path ENTRY -> EXIT passes pred, else a witness."""
    return cfg.find_path(cfg.entry, cfg.exit, avoid=pred, strict=True)


def _must(ctx: Ctx, obs: List[Ob], f: Func, label: str, pred: Pred, props, why: str, excuse=None) -> None:
    cfg = ctx.cfg(f)
    if not any(pred(n) for n in cfg.stmt_nodes()):
        obs.append(ctx.ob("MUST", props, f, label, None, False, f"no statement of {f.qualname} does this at all: {why}"))
        return
    w = normal_paths_pass(cfg, pred)
    if ctx.tier == "thorough":
        # cross-check the reachability verdict by explicit path enumeration (loops taken 0, 1, 2 times)
        paths = [p for p in cfg.enumerate_paths(loop_bound=2, limit=5000) if p[-1].kind == "exit"]
        ctx.paths_enumerated += len(paths)
        if len(paths) < 5000:
            miss = [p for p in paths if not any(pred(n) for n in p)]
            if bool(miss) != (w is not None):
                raise AnalysisError(f"engine self-check failed for MUST `{label}` in {f.qualname}: reachability says "
                                    f"{'skip possible' if w else 'always passes'}, path enumeration finds {len(miss)} skipping paths of {len(paths)}")
    if w is not None and excuse is not None:
        # every skipping path must be excused (bounded enumeration; an unexcused or unenumerable path keeps the finding)
        paths = [p for p in cfg.enumerate_paths(loop_bound=1, limit=5000) if p[-1].kind == "exit"]
        miss = [p for p in paths if not any(pred(n) for n in p)]
        if miss and len(paths) < 5000 and all(excuse(p) for p in miss):
            w = None
    obs.append(ctx.ob("MUST", props, f, label, None, w is None,
                      "" if w is None else f"a normal path through {f.qualname} skips it: {why}",
                      None if w is None else describe_path(w)))


def _dominates(ctx: Ctx, obs: List[Ob], f: Func, label: str, target_pred: Pred, dom_pred: Pred, props, why: str,
               rule_name: str = "MUST") -> None:
    cfg = ctx.cfg(f)
    targets = [n for n in cfg.stmt_nodes() if target_pred(n)]
    if not targets:
        obs.append(ctx.ob(rule_name, props, f, label, None, False, f"anchor statement not found in {f.qualname}: {why}"))
        return
    for t in targets:
        ok = cfg.dominated_by(t, dom_pred)
        if ctx.tier == "thorough":
            paths = cfg.enumerate_paths(loop_bound=2, limit=5000)
            ctx.paths_enumerated += len(paths)
            if len(paths) < 5000:
                bad = 0
                for p in paths:
                    if t in p:
                        i = p.index(t)
                        if not any(dom_pred(n) for n in p[:i]):
                            bad += 1
                if bool(bad) == ok:
                    raise AnalysisError(f"engine self-check failed for `{label}` in {f.qualname}: dominance says {ok}, "
                                        f"path enumeration finds {bad} undominated paths")
        path = None
        if not ok:
            p = cfg.find_path(cfg.entry, t, avoid=lambda n: n is not t and dom_pred(n))
            path = describe_path(p) if p else None
        obs.append(ctx.ob(rule_name, props, f, f"{label}: {norm(t.ast) if t.ast is not None else t.kind}", t.ast, ok,
                          "" if ok else why, path))


def _noop_move_excuse(ctx: Ctx, f: Func):
    """Excuse for a path through move_to that moves nothing: it is provably a no-op move - taken only when the target is
    the node's own parent and the node already is where the request puts it (append - before None / False - and the
    node is the last child; before is True and the node is the first child).  Returns excuse(path) -> bool.  Anything
    else that comes back without moving is not excused."""
    from .util import path_conds, resolve_expr, split_cond

    sn = f.self_name
    lists = {"new_parent._children", f"{sn}._parent._children", f"{sn}.parent._children"}

    def text(e: ast.AST, pol: bool, at: ast.AST) -> str:
        try:
            e = resolve_expr(ctx, f, at, e)
        except Exception:
            pass
        if pol:
            return norm(e)
        if isinstance(e, ast.BoolOp) and isinstance(e.op, ast.And):
            # not (a and b) == (not a) or (not b)
            parts = []
            for v in e.values:
                sub = split_cond(v, False)
                if len(sub) != 1:
                    return "not (" + norm(e) + ")"
                parts.append(text(sub[0][0], sub[0][1], at))
            return " or ".join(parts)
        return "not (" + norm(e) + ")"

    def accepted(conds, at: ast.AST) -> bool:
        ts = {text(e, pol, at) for e, pol in conds}
        same = any(t in ts for t in (f"new_parent is {sn}._parent", f"{sn}._parent is new_parent"))
        if not same:
            return False
        tail = any(f"{L}[-1] is {sn}" in ts for L in lists)
        head = any(f"{L}[0] is {sn}" in ts for L in lists)
        app = any(t in ts for t in ("before is None or before is False", "before is False or before is None", "before is None",
                                    "before is False", "before in (None, False)", "before in (False, None)"))
        first = "before is True" in ts
        return (tail and app and not head) or (head and first and not tail)

    parent_of = ctx.model.parent_of

    def inside(a: ast.AST, block: List[ast.stmt]) -> bool:
        while a is not None:
            if any(a is b for b in block):
                return True
            a = parent_of(a)
        return False

    ifs = [st for st in ast.walk(f.node) if isinstance(st, ast.If)]

    def excuse(path: List[N]) -> bool:
        last = [n for n in path if n.kind == "stmt"]
        if last and isinstance(last[-1].ast, ast.Return) and last[-1].ast.value is None and accepted(path_conds(ctx, f, last[-1].ast), last[-1].ast):
            return True
        for st in ifs:
            if st.orelse or not any(n.ast is st.test for n in path):
                continue
            if any(n.ast is not None and inside(n.ast, st.body) for n in path):
                continue  # the path went through the body
            if accepted(path_conds(ctx, f, st) + split_cond(st.test, False), st):
                return True
        return False

    return excuse


def empty_guards(ctx: Ctx, cfg: CFG, loop: ast.For) -> List[N]:
    """CFG test nodes of `if L:` / `if len(L) > 0:` whose only purpose is to skip `for x in L: ...` for an empty L
    (the If's body is exactly that loop, no else): passing the test node is as good as passing the loop."""
    out: List[N] = []
    lt = norm(loop.iter)
    for n in cfg.nodes:
        st = ctx.model.parent_of(n.ast) if n.kind == "test" and n.ast is not None else None
        if not isinstance(st, ast.If) or st.test is not n.ast:
            continue
        if st.orelse or len(st.body) != 1 or st.body[0] is not loop:
            continue
        t = norm(st.test)
        if t in (lt, f"len({lt}) > 0", f"len({lt}) != 0", f"len({lt}) >= 1", f"{lt} is not None and {lt}"):
            out.append(n)
        # a walk of X's descendants is empty exactly when X has no children
        it = loop.iter
        if isinstance(it, ast.Call) and isinstance(it.func, ast.Attribute) and it.func.attr in ("_iter_post", "_iter_pre", "_iter_level", "iterator", "__iter__") \
                and not any(k.arg == "add_self" and not (isinstance(k.value, ast.Constant) and not k.value.value) for k in it.keywords):
            recv = norm(it.func.value)
            if t in (f"{recv}._children", f"{recv}.children", f"{recv}.has_children()", f"not {recv}.is_leaf()"):
                out.append(n)
    return out


NODE_FIELDS_INIT = ("_data", "_parent", "_tree", "_children", "_data_id", "_node_id", "_meta")
POST_ORDER_WALKERS = {"Node._iter_post"}


def _loop_calls(ctx: Ctx, f: Func, loop: ast.For, quals: Set[str], on_loopvar: bool = True) -> bool:
    """The loop body calls (a function in quals) with/on the loop variable."""
    lv = {x.id for x in ast.walk(loop.target) if isinstance(x, ast.Name)}
    for st in loop.body:
        for c in ast.walk(st):
            if isinstance(c, ast.Call):
                gs = {g.qualname for g, _ in ctx.env.callees(f, c)}
                if gs & quals:
                    if not on_loopvar:
                        return True
                    used = {x.id for x in ast.walk(c) if isinstance(x, ast.Name)}
                    if used & lv:
                        return True
    return False


def _every_item_handled(ctx: Ctx, f: Func, loop: ast.For, quals: Set[str]) -> bool:
    """Every normal path through the loop body calls one of `quals` on the loop variable (a child that is neither moved
    nor removed - skipped by a condition or a `continue` - stays below a node that is about to be unregistered)."""
    lv = {x.id for x in ast.walk(loop.target) if isinstance(x, ast.Name)}

    def call_here(st: ast.stmt) -> bool:
        if isinstance(st, (ast.If, ast.For, ast.While, ast.Try, ast.With)):
            return False
        for c in ast.walk(st):
            if isinstance(c, ast.Call) and {g.qualname for g, _ in ctx.env.callees(f, c)} & quals and {x.id for x in ast.walk(c) if isinstance(x, ast.Name)} & lv:
                return True
        return False

    def handled(block: List[ast.stmt]) -> bool:
        for st in block:
            if call_here(st):
                return True
            if isinstance(st, ast.If):
                if st.orelse and handled(st.body) and handled(st.orelse):
                    return True
                # a branch that leaves the iteration without handling the item
                for blk in (st.body, st.orelse):
                    if blk and isinstance(blk[-1], (ast.Continue, ast.Break)) and not handled(blk):
                        return False
            elif isinstance(st, (ast.With, ast.Try)):
                if handled(st.body):
                    return True
            elif isinstance(st, (ast.Continue, ast.Break)):
                return False
        return False

    return handled(loop.body)


def _iter_is_post_order(ctx: Ctx, f: Func, it: ast.AST) -> Tuple[bool, str]:
    """The iterated expression is a complete post-order descendant walk of self
    (or a materialised copy of any complete walk)."""
    e = it
    copied = False
    if isinstance(e, ast.Name):
        # a local that holds the walk (`nodes = self._iter_post()`): what reaches the loop
        from .util import reaching_values

        vals = reaching_values(ctx, f, it, e)
        if len(vals) == 1:
            e = vals[0]
    if isinstance(e, ast.Call) and isinstance(e.func, ast.Name) and e.func.id in ("list", "tuple") and e.args:
        e = e.args[0]
        copied = True
    if isinstance(e, ast.Call):
        gs = {g.qualname for g, _ in ctx.env.callees(f, e)}
        if gs and gs <= POST_ORDER_WALKERS:
            return True, "post-order walker"
        if gs and gs <= {"Node.iterator", "TypedNode.iterator"}:
            m = e.args[0] if e.args else None
            for k in e.keywords:
                if k.arg == "method":
                    m = k.value
            if m is not None and norm(m).endswith("POST_ORDER"):
                return True, "iterator(POST_ORDER)"
            if copied:
                return True, "materialised copy of a full walk"
            return False, "pre-order walk of a structure that the loop body dismantles"
        if copied and gs and all(q.startswith("Node._iter_") for q in gs):
            return True, "materialised copy of a full walk"
    return False, f"`{norm(it)}` is not a complete post-order walk of the descendants"


@rule("MUST", ["C01", "C02", "C03", "C04", "C07", "C08", "C09", "C10", "C13", "C15"], floor=30, section="3.1")
def must(ctx: Ctx) -> List[Ob]:
    """must-pass-through: every normal path of each primitive mutator performs the writes / calls that keep links and registries in step (link=>register, unlink=>unregister children-first)"""
    obs: List[Ob] = []
    m = ctx.model

    # --- Node.__init__
    f = m.func("Node.__init__")
    si = stmt_index(ctx, f)
    for fld in NODE_FIELDS_INIT:
        _must(ctx, obs, f, f"sets self.{fld}", P_effect(si, ["rebind"], [fld]), ["C01"] + (["C02"] if fld in ("_data", "_data_id") else []),
              f"a node without {fld} breaks every later operation")
    reg = P_call(si, ["Tree._register"])
    _must(ctx, obs, f, "registers the node (Tree._register)", reg, ["C01", "C02", "C03"],
          "a linked node must be in the id map and the clone index (count == reachable)")
    for fld in ("_data_id", "_node_id", "_parent", "_tree"):
        _dominates(ctx, obs, f, f"{fld} is set before _register reads it", reg, P_effect(si, ["rebind"], [fld]),
                   ["C01", "C02", "C03"], f"_register keys the maps by {fld}/compares parents: it must be assigned first")

    # --- TypedNode.__init__
    f = m.func("TypedNode.__init__")
    si = stmt_index(ctx, f)
    _must(ctx, obs, f, "delegates to Node.__init__", P_call(si, ["Node.__init__"]), ["C01", "C02"], "typed nodes must be registered too")
    _must(ctx, obs, f, "sets self._kind", P_effect(si, ["rebind"], ["_kind"]), ["C15", "C01"], "kind-aware queries read _kind")

    # --- Tree._register
    f = m.func("Tree._register")
    si = stmt_index(ctx, f)
    _must(ctx, obs, f, "stores node in _node_by_id", P_effect(si, ["setitem"], ["_node_by_id"]), ["C01", "C02"], "count is the size of this map")
    _must(ctx, obs, f, "adds node to its clone list", P_or(P_effect(si, ["append"], [SLOT]), P_effect(si, ["setitem"], ["_nodes_by_data_id"])),
          ["C02"], "lookups by data / data_id read the clone lists")

    # --- Tree._unregister
    f = m.func("Tree._unregister")
    si = stmt_index(ctx, f)
    _must(ctx, obs, f, "deletes node from _node_by_id", P_effect(si, ["delitem", "pop"], ["_node_by_id"]), ["C01", "C02"], "removed nodes must not be counted")
    _must(ctx, obs, f, "detaches node._tree", P_effect(si, ["rebind"], ["_tree"]), ["C01"], "a removed node must not report the tree as owner")
    _must(ctx, obs, f, "detaches node._parent", P_effect(si, ["rebind"], ["_parent"]), ["C01"], "a removed node must not keep a parent")

    # --- Node.remove
    f = m.func("Node.remove")
    si = stmt_index(ctx, f)
    unreg = P_call(si, ["Tree._unregister"])
    _must(ctx, obs, f, "unregisters self (Tree._unregister)", unreg, ["C01", "C02"], "removed nodes are neither reachable nor counted")
    unlink = P_effect(si, ["remove", "pop", "delitem"], ["_children"], trans=True)
    _must(ctx, obs, f, "takes self out of the parent's child list", unlink, ["C01", "C04"], "an unregistered node must not stay reachable")

    def _children_handled(n: N) -> bool:
        if si.calls_resolving_to(n, ["Node.remove_children"]):
            return True
        if n.kind == "iter" and _loop_calls(ctx, f, n.ast, {"Node.move_to"}) and _every_item_handled(ctx, f, n.ast, {"Node.move_to", "TypedNode.move_to", "Node.remove"}):
            return True
        return False

    _must(ctx, obs, f, "handles the children first (remove_children() or move them up)", _children_handled, ["C01", "C04"],
          "descendants of a removed node must be unregistered or re-parented")
    _dominates(ctx, obs, f, "children are handled before self is unregistered", unreg, _children_handled, ["C01"],
               "_unregister nulls _children: descendants would stay registered (count > reachable)")

    # the position at which a node is taken out of a child list is its identity position in the *full* list: a method that
    # TypedNode overrides (get_index() counts the siblings of the same kind only) gives another node's position there
    for f_ in [g_ for g_ in m.all_funcs() if g_.cls == "Node" and g_.parent is None]:
        q_ = f_.qualname
        for c_ in ctx.env.calls_in.get(f_, []):
            if isinstance(c_.func, ast.Attribute) and c_.func.attr == "pop" and c_.args and isinstance(c_.func.value, (ast.Attribute, ast.Name)):
                from .util import resolve_expr as _rx

                try:
                    idx_ = _rx(ctx, f_, c_, c_.args[0])
                except Exception:  # noqa: BLE001
                    idx_ = c_.args[0]
                over = [g_.qualname for x_ in ast.walk(idx_) if isinstance(x_, ast.Call) for g_, _r in ctx.env.callees(f_, x_)
                        if g_.qualname.startswith("TypedNode.") or (g_.cls == "Node" and g_.name in m.classes["TypedNode"].methods)]
                if q_ not in ("Node.remove", "Node.move_to") and not over:
                    continue  # (elsewhere only the witness is reported)
                obs.append(ctx.ob("MUST", ["C01", "C04", "C15", "C10"] if q_ not in ("Node.remove", "Node.move_to") else ["C01", "C04", "C15"], f_,
                                  f"{q_}: the node is unlinked at its identity position in the full child list", c_, not over,
                                  "" if not over else f"`{norm(c_)}`: the index comes from {sorted(set(over))[0]}, which TypedNode overrides (position among the siblings of "
                                  "the same kind): in a typed tree with mixed kinds another node is taken out of the list and the removed one stays linked"))

    # --- Node.remove_children
    f = m.func("Node.remove_children")
    si = stmt_index(ctx, f)

    def _unreg_loop(n: N) -> bool:
        return n.kind == "iter" and _loop_calls(ctx, f, n.ast, {"Tree._unregister"})

    cfg = ctx.cfg(f)
    _eg = [g_ for n_ in cfg.stmt_nodes() if _unreg_loop(n_) for g_ in empty_guards(ctx, cfg, n_.ast)]

    # `if self._children is not None: <everything>`: for a node whose list is None there is nothing to unregister and nothing
    # to clear (the test node stands for the work it guards)
    for n_ in cfg.nodes:
        st_ = ctx.model.parent_of(n_.ast) if n_.kind == "test" and n_.ast is not None else None
        if isinstance(st_, ast.If) and st_.test is n_.ast and not st_.orelse and norm(st_.test) in ("self._children is not None", "not self._children is None") \
                and any(_unreg_loop(b_) for b_ in cfg.stmt_nodes() if b_.ast is not None and any(b_.ast is x for y in st_.body for x in ast.walk(y))):
            _eg.append(n_)
    _none_guards = [g_ for g_ in _eg if norm(g_.ast) in ("self._children is not None", "not self._children is None")]

    def _unreg_loop_or_leaf(n: N) -> bool:
        return _unreg_loop(n) or any(n is g_ for g_ in _eg)

    _must(ctx, obs, f, "unregisters every descendant", _unreg_loop_or_leaf, ["C01", "C02"], "descendants of removed nodes must leave the maps")
    for n in cfg.stmt_nodes():
        if _unreg_loop(n):
            ok, why = _iter_is_post_order(ctx, f, n.ast.iter)
            obs.append(ctx.ob("MUST", ["C01", "C02"], f, f"descendant walk is complete and children-first: {norm(n.ast.iter)}", n.ast, ok,
                              "" if ok else why + " (_unregister nulls node._children while the walk still needs it)"))
    clear = P_effect(si, ["rebind"], ["_children"])
    _must(ctx, obs, f, "clears self._children", P_or(clear, lambda n: any(n is g_ for g_ in _none_guards)), ["C01", "C04"], "the removed children must not stay reachable")
    _dominates(ctx, obs, f, "descendants are unregistered before the list is dropped", clear, _unreg_loop_or_leaf, ["C01"],
               "after self._children = None the walk finds nothing to unregister")

    # --- Node.move_to
    f = m.func("Node.move_to")
    si = stmt_index(ctx, f)
    unlink = P_effect(si, ["remove", "pop", "delitem"], ["_children"])
    noop = _noop_move_excuse(ctx, f)
    _must(ctx, obs, f, "takes self out of the old parent's child list", unlink, ["C01", "C04"], "a moved node must appear exactly once", excuse=noop)
    rebind = P_effect(si, ["rebind"], ["_parent"])
    _must(ctx, obs, f, "sets self._parent", rebind, ["C01", "C04"], "the parent pointer must follow the child list", excuse=noop)
    link = P_or(P_effect(si, ["insert", "append"], ["_children"]),
                lambda n: any(e.op == "rebind" and e.field == "_children" and "[self]" in e.text.replace(" ", "")
                              for e in si.direct.get(n.id, [])))
    _must(ctx, obs, f, "inserts self into the new parent's child list", link, ["C01", "C04"], "a moved node must stay reachable", excuse=noop)
    _dominates(ctx, obs, f, "self is unlinked from the old list before it is linked into the new one", link, unlink, ["C01"],
               "the node would appear twice")

    # --- add_child (both): the returned, constructed node is linked
    for q in ("Node.add_child", "TypedNode.add_child"):
        f = m.func(q)
        si = stmt_index(ctx, f)
        cfg = ctx.cfg(f)
        link = P_or(P_effect(si, ["insert", "append"], ["_children"]), P_effect(si, ["rebind"], ["_children"]))
        rets = []
        for n in cfg.stmt_nodes():
            a = n.ast
            if n.kind == "stmt" and isinstance(a, ast.Return) and isinstance(a.value, ast.Name):
                vals = ctx.env.reaching(f, a, a.value.id)
                cons = False
                if vals is not None:
                    for v in vals[0]:
                        if isinstance(v, ast.Call) and NODECLS in ctx.env.types(f, v.func):
                            cons = True
                if cons:
                    rets.append(n)
        if not rets:
            raise AnalysisError(f"{q}: no `return <constructed node>` found (shape not recognised)")
        for r in rets:
            ok = cfg.dominated_by(r, link)
            p = None if ok else cfg.find_path(cfg.entry, r, avoid=lambda n: n is not r and link(n))
            obs.append(ctx.ob("MUST", ["C01", "C04"], f, "the constructed node is linked into self._children before it is returned", r.ast, ok,
                              "" if ok else "a registered node that is not in any child list (count > reachable)",
                              describe_path(p) if p else None))
        deep_calls = [c for c in ctx.env.calls_in[f] if any(g.qualname == "Node._add_from" for g, _ in ctx.env.callees(f, c))]
        ok = bool(deep_calls)
        obs.append(ctx.ob("MUST", ["C07"], f, "deep copies recurse through _add_from", None, ok,
                          "" if ok else "deep=True would copy the top node only"))

    # --- shortcuts that must reach the primitives
    f = m.func("Tree.clear")
    _must(ctx, obs, f, "delegates to root.remove_children()", P_call(stmt_index(ctx, f), ["Node.remove_children"]), ["C01", "C04"], "clear must unregister everything")
    f = m.func("Tree.__delitem__")
    _must(ctx, obs, f, "delegates to node.remove()", P_call(stmt_index(ctx, f), ["Node.remove"]), ["C01", "C04", "C09"], "del tree[x] must remove the node")
    from ..pat import has as _has

    dp = [p_ for p_ in f.positional_params() if p_ != f.self_name][0]
    ok = _has(f"self[{dp}].remove()", f.node)
    obs.append(ctx.ob("MUST", ["C09", "C13"], f, "del tree[x] resolves the key through tree[x] (same refusals: KeyError, AmbiguousMatchError, ValueError)", None, ok,
                      "" if ok else "a different lookup silently removes the first of several matches instead of refusing"))

    # --- Node.filter: removals go through remove()
    f = m.func("Node.filter._visit")
    si = stmt_index(ctx, f)

    def _remove_loop(n: N) -> bool:
        return n.kind == "iter" and _loop_calls(ctx, f, n.ast, {"Node.remove"})

    # (C13: Node.remove() unlinks and unregisters in one step with no user callback in between - a predicate that raises
    # later finds every node either fully present or fully gone)
    _must(ctx, obs, f, "rejected nodes are removed through Node.remove()", _remove_loop, ["C01", "C08", "C13"], "filter must unregister what it drops")
    return obs


# ------------------------------------------------------------------ PAIR-1
@rule("PAIR-1", ["C01", "C03", "C07"], floor=10, section="3.1")
def pair1(ctx: Ctx) -> List[Ob]:
    """link => registered: every value inserted into a _children list is a node constructed (hence registered) in this function, or self in the move idiom; never an existing node of another list"""
    obs: List[Ob] = []
    env = ctx.env
    for f in ctx.model.all_funcs():
        for e, node in ctx.fx.direct_nodes[f]:
            if e.field != "_children" or e.op not in ("insert", "append", "rebind", "extend", "setitem"):
                continue
            val: Optional[ast.AST] = None
            if e.op == "insert" and isinstance(node, ast.Call) and len(node.args) == 2:
                val = node.args[1]
            elif e.op == "append" and isinstance(node, ast.Call) and len(node.args) == 1:
                val = node.args[0]
            elif e.op == "rebind" and isinstance(node, (ast.Assign, ast.AnnAssign)):
                v = node.value
                if isinstance(v, ast.Constant) and v.value is None:
                    continue
                if isinstance(v, ast.List) and len(v.elts) == 0:
                    continue
                if isinstance(v, ast.List) and len(v.elts) == 1:
                    val = v.elts[0]
                else:
                    obs.append(ctx.ob("PAIR-1", ["C01", "C07"], f, node, node, False,
                                      "a child list is bound to something other than None, [] or [new node]"))
                    continue
            else:
                obs.append(ctx.ob("PAIR-1", ["C01", "C03", "C07"], f, node, node, False,
                                  f"a child list is filled with `{e.op}`: the added values are not nodes constructed here, existing nodes would get a second parent"))
                continue
            ok = False
            why = ""
            if isinstance(val, ast.Name):
                if val.id == f.self_name:
                    # move idiom: self was taken out of its former list before
                    si = stmt_index(ctx, f)
                    cfg = ctx.cfg(f)
                    t = cfg.stmt_node_of(node, ctx.model.parent_of)
                    unlink = P_effect(si, ["remove", "pop", "delitem"], ["_children"])
                    ok = t is not None and cfg.dominated_by(t, unlink)
                    why = "self is linked without having been unlinked from its former parent"
                else:
                    r = env.reaching(f, node, val.id)
                    vals = r[0] if r is not None else [b.expr for b in env.scope(f).resolve(val.id)[1] if b.kind == "val"]
                    from_entry = r[1] if r is not None else True
                    ok = bool(vals) and not (from_entry and val.id in f.param_names()) and all(
                        isinstance(v, ast.Call) and NODECLS in env.types(f, v.func) for v in vals
                    )
                    why = f"`{val.id}` is not (only) a node constructed here: an existing node would get a second parent"
            else:
                why = f"inserted value `{norm(val)}` is not a freshly constructed node"
            obs.append(ctx.ob("PAIR-1", ["C01", "C03", "C07"], f, node, node, ok, "" if ok else why))
    return obs


# ------------------------------------------------------------------ REG-CHK
@rule("REG-CHK", ["C01", "C02", "C03", "C13"], floor=4, section="3.1")
def regchk(ctx: Ctx) -> List[Ob]:
    """Tree._register: id uniqueness is tested before the id map is written; the clone list is scanned for a same-parent clone (typed refusal) before appending; the refusal rolls the id map back"""
    obs: List[Ob] = []
    f = ctx.model.func("Tree._register")
    si = stmt_index(ctx, f)
    cfg = ctx.cfg(f)
    env = ctx.env
    store = P_effect(si, ["setitem"], ["_node_by_id"])

    def membership_test(n: N) -> bool:
        for x in walk_node_exprs(n):
            if isinstance(x, ast.Compare) and len(x.ops) == 1 and isinstance(x.ops[0], (ast.NotIn, ast.In)):
                if any(fld == "_node_by_id" for _, fld in env.fields(f, x.comparators[0])):
                    return True
        return False

    _dominates(ctx, obs, f, "node_id membership is tested before the id map is written", store, membership_test,
               ["C01", "C02"], "a duplicate node_id would silently replace a registered node", "REG-CHK")

    # the scan loop
    loops = [n for n in cfg.stmt_nodes() if n.kind == "iter" and any(fld == SLOT for _, fld in env.fields(f, n.ast.iter))]
    if not loops:
        raise AnalysisError("Tree._register: no scan loop over the clone list found (shape not recognised)")
    for lp in loops:
        loop: ast.For = lp.ast
        lv = {x.id for x in ast.walk(loop.target) if isinstance(x, ast.Name)}
        raises = [x for st in loop.body for x in ast.walk(st) if isinstance(x, ast.Raise)]
        typed = [r for r in raises if raised_class(r) == "UniqueConstraintError"]
        obs.append(ctx.ob("REG-CHK", ["C03"], f, "scan of the clone list refuses with UniqueConstraintError", loop, bool(typed),
                          "" if typed else "the same-parent scan does not raise the library's uniqueness error"))
        # condition compares parents by identity
        cond_ok = False
        for st in loop.body:
            if isinstance(st, ast.If) and any(isinstance(x, ast.Raise) for y in st.body for x in ast.walk(y)):
                t = st.test
                if isinstance(t, ast.Compare) and len(t.ops) == 1 and isinstance(t.ops[0], ast.Is):
                    sides = [t.left, t.comparators[0]]
                    attrs = [s.attr if isinstance(s, ast.Attribute) else None for s in sides]
                    bases = [norm(s.value) if isinstance(s, ast.Attribute) else "" for s in sides]
                    if all(a in ("parent", "_parent") for a in attrs) and attrs[0] == attrs[1]:
                        if (bases[0] in lv) != (bases[1] in lv):
                            cond_ok = True
        obs.append(ctx.ob("REG-CHK", ["C03"], f, "refusal condition: clone.parent is node.parent", loop, cond_ok,
                          "" if cond_ok else "the scan must compare the parent of every existing clone with the new node's parent by identity"))
        app = P_effect(si, ["append"], [SLOT])
        eg = empty_guards(ctx, cfg, loop)
        _dominates(ctx, obs, f, "clone list is scanned before the node is appended", app, lambda n: n is lp or any(n is g_ for g_ in eg),
                   ["C03", "C02"], "a same-parent clone would be accepted", "REG-CHK")
        # rollback: between the id-map store and the raise lies the inverse delete
        for r in typed:
            rn = cfg.node_for(r)
            stores = [n for n in cfg.stmt_nodes() if store(n)]
            inv = P_effect(si, ["delitem", "pop"], ["_node_by_id"])
            ok = True
            path = None
            for s in stores:
                p = cfg.find_path(s, rn, avoid=inv, strict=True)
                if p is not None:
                    ok = False
                    path = describe_path(p)
            obs.append(ctx.ob("REG-CHK", ["C13", "C01", "C03"], f, "refusal rolls back the id map (del before raise)", r, ok,
                              "" if ok else "a refused node stays in _node_by_id: count exceeds the reachable nodes", path))
    return obs


# -------------------------------------------------------------- UNREG-SHAPE
@rule("UNREG-SHAPE", ["C01", "C02"], floor=4, section="3.1")
def unreg_shape(ctx: Ctx) -> List[Ob]:
    """Tree._unregister removes exactly `node` from its clone list (identity idiom with the matching index), deletes an emptied slot under the old key, and reads the old keys before nulling them"""
    obs: List[Ob] = []
    f = ctx.model.func("Tree._unregister")
    env = ctx.env
    cfg = ctx.cfg(f)
    si = stmt_index(ctx, f)
    pname = [p for p in f.positional_params() if p != f.self_name][0]
    loops = [n for n in cfg.stmt_nodes() if n.kind == "iter"]
    found = False
    for lp in loops:
        loop: ast.For = lp.ast
        it = loop.iter
        idx_var = elem_var = None
        lst = None
        if isinstance(it, ast.Call) and isinstance(it.func, ast.Name) and it.func.id == "enumerate" and it.args:
            lst = it.args[0]
            if isinstance(loop.target, ast.Tuple) and len(loop.target.elts) == 2:
                idx_var, elem_var = [getattr(x, "id", None) for x in loop.target.elts]
            start = it.args[1] if len(it.args) > 1 else None
            for k in it.keywords:
                if k.arg == "start":
                    start = k.value
            if start is not None and not (isinstance(start, ast.Constant) and start.value == 0):
                obs.append(ctx.ob("UNREG-SHAPE", ["C02", "C01"], f, "enumerate starts at 0", it, False,
                                  "the popped index would be off by the start value"))
        else:
            continue
        if not any(fld == SLOT for _, fld in env.fields(f, lst)):
            continue
        found = True
        ok_test = ok_pop = False
        for st in loop.body:
            if isinstance(st, ast.If):
                t = st.test
                if (isinstance(t, ast.Compare) and len(t.ops) == 1 and isinstance(t.ops[0], ast.Is)
                        and {norm(t.left), norm(t.comparators[0])} == {elem_var, pname}):
                    ok_test = True
                    for x in st.body:
                        for c in ast.walk(x):
                            if (isinstance(c, ast.Call) and isinstance(c.func, ast.Attribute) and c.func.attr == "pop"
                                    and norm(c.func.value) == norm(lst) and len(c.args) == 1 and norm(c.args[0]) == idx_var):
                                ok_pop = True
                            if isinstance(c, ast.Delete) and any(
                                isinstance(t2, ast.Subscript) and norm(t2.value) == norm(lst) and norm(t2.slice) == idx_var
                                for t2 in c.targets
                            ):
                                ok_pop = True
        obs.append(ctx.ob("UNREG-SHAPE", ["C02", "C01"], f, "clone is located by identity (`n is node`)", loop, ok_test,
                          "" if ok_test else "list.remove()/== would drop the first equal clone instead of this node"))
        obs.append(ctx.ob("UNREG-SHAPE", ["C02", "C01"], f, "the element popped is the one that matched (pop(i) with the loop index)", loop, ok_pop,
                          "" if ok_pop else "a different clone than `node` is dropped from the index"))
    if not found:
        # other accepted idiom: slice assignment with an identity filter
        alt = False
        for n in iter_own(f.node):
            if isinstance(n, ast.Assign) and isinstance(n.value, ast.ListComp):
                for g in n.value.generators:
                    for c in g.ifs:
                        if isinstance(c, ast.Compare) and isinstance(c.ops[0], ast.IsNot) and pname in {norm(c.left), norm(c.comparators[0])}:
                            alt = True
        if not alt:
            raise AnalysisError("Tree._unregister: identity-removal idiom not recognised")
        obs.append(ctx.ob("UNREG-SHAPE", ["C02", "C01"], f, "clone list rebuilt with an identity filter", None, True))
    # the id map entry is deleted under the node's own node_id
    dl = [(e, node) for e, node in ctx.fx.direct_nodes[f] if e.field == "_node_by_id" and e.op in ("delitem", "pop")]
    okd = len(dl) == 1
    if okd:
        nd = dl[0][1]
        k = None
        if isinstance(nd, ast.Delete) and isinstance(nd.targets[0], ast.Subscript):
            k = norm(nd.targets[0].slice)
        elif isinstance(nd, ast.Call) and nd.args:
            k = norm(nd.args[0])
        okd = k == f"{pname}._node_id"
    obs.append(ctx.ob("UNREG-SHAPE", ["C01", "C02"], f, "the id map entry is deleted under node._node_id", None, okd,
                      "" if okd else "a node registered under an explicit node_id would stay in the id map (counted, and found by tree[node_id]) after removal"))
    # emptied slot is deleted, under an emptiness test
    dels = [(e, node) for e, node in ctx.fx.direct_nodes[f] if e.op == "delitem" and e.field == "_nodes_by_data_id"]
    ok = False
    for e, node in dels:
        p = ctx.model.parent_of(node)
        while p is not None and not isinstance(p, ast.If) and p is not f.node:
            p = ctx.model.parent_of(p)
        if isinstance(p, ast.If):
            t = p.test
            if isinstance(t, ast.UnaryOp) and isinstance(t.op, ast.Not) and any(fld == SLOT for _, fld in env.fields(f, t.operand)):
                ok = True
            if isinstance(t, ast.Compare) and "len(" in norm(t) and norm(t).replace(" ", "").endswith("==0"):
                ok = True
    obs.append(ctx.ob("UNREG-SHAPE", ["C02"], f, "a clone list emptied by the removal is deleted from the index", None, ok,
                      "" if ok else "count_unique is the size of the index: an empty slot would be counted, and `id in index` would be true for an absent id"))
    # old keys are read before they are nulled
    for fld in ("_data_id", "_node_id"):
        rebinds = [n for n in cfg.stmt_nodes() if any(e.op == "rebind" and e.field == fld for e in si.direct.get(n.id, []))]
        reads = []
        for n in cfg.stmt_nodes():
            if n in rebinds:
                continue
            for x in walk_node_exprs(n):
                if isinstance(x, ast.Attribute) and x.attr == fld and isinstance(x.ctx, ast.Load) and norm(x.value) == pname:
                    if not isinstance(n.ast, ast.Assert):
                        reads.append(n)
                        break
        ok = True
        path = None
        for rb in rebinds:
            for rd in reads:
                p = cfg.find_path(rb, rd, strict=True)
                if p is not None:
                    ok = False
                    path = describe_path(p)
        obs.append(ctx.ob("UNREG-SHAPE", ["C02", "C01"], f, f"node.{fld} is read for the map keys before it is nulled", None, ok,
                          "" if ok else "the maps would be searched under the nulled key", path))
    return obs


# ------------------------------------------------------------------- PAIR-3
def _slot_key_text(node: ast.AST, ctx: Optional[Ctx] = None, f: Optional[Func] = None) -> Optional[str]:
    """Key text of `index[key]` / `index.get(key)` / `index.setdefault(key, ..)` inside an index-slot
    expression or store; a local that holds the slot is resolved through its reaching definitions."""
    for x in ast.walk(node):
        if isinstance(x, ast.Subscript):
            return norm(x.slice)
        if isinstance(x, ast.Call) and isinstance(x.func, ast.Attribute) and x.func.attr in ("get", "setdefault") and x.args \
                and norm(x.func.value).endswith("_nodes_by_data_id"):
            return norm(x.args[0])
    if ctx is not None and f is not None:
        from .util import reaching_values

        for x in ast.walk(node):
            if isinstance(x, ast.Call) and isinstance(x.func, ast.Attribute) and x.func.attr in ("append", "extend") and isinstance(x.func.value, ast.Name):
                keys = {_slot_key_text(v) for v in reaching_values(ctx, f, node, x.func.value) if v is not x.func.value}
                if len(keys) == 1:
                    return keys.pop()
    return None


@rule("PAIR-3", ["C02", "C04"], floor=2, section="3.1")
def pair3(ctx: Ctx) -> List[Ob]:
    """re-key pairing: every assignment of a new _data_id to a registered node is preceded on every path by its removal from the old clone list / slot and by its insertion under exactly the new key"""
    obs: List[Ob] = []
    for f in ctx.model.all_funcs():
        if f.name == "__init__" or f.qualname == "Tree._unregister":
            continue
        si = None
        for e, node in ctx.fx.direct_nodes[f]:
            if not (e.op == "rebind" and e.field == "_data_id" and e.root != "fresh"):
                continue
            si = si or stmt_index(ctx, f)
            cfg = ctx.cfg(f)
            t = cfg.stmt_node_of(node, ctx.model.parent_of)
            newv = norm(node.value) if isinstance(node, (ast.Assign, ast.AnnAssign)) and node.value is not None else "?"
            rem = P_or(P_effect(si, ["delitem", "pop"], ["_nodes_by_data_id"]), P_effect(si, ["remove", "pop", "delitem"], [SLOT]))
            ok1 = cfg.dominated_by(t, rem, may_raise=lambda n: True, exc_through=True)
            obs.append(ctx.ob("PAIR-3", ["C02"], f, f"{norm(node)}: old slot is left first", node, ok1,
                              "" if ok1 else "the node stays listed under its old data_id (stale lookup)"))

            def merged_by_setdefault(n: N) -> bool:
                """`slot = index.setdefault(<new key>, moved)` followed by `if slot is not moved: slot.extend(moved)`:
                the moved list becomes the slot, or is merged into the existing one."""
                a_ = n.ast
                if not (n.kind == "stmt" and isinstance(a_, ast.Assign) and len(a_.targets) == 1 and isinstance(a_.targets[0], ast.Name) and isinstance(a_.value, ast.Call)):
                    return False
                c_ = a_.value
                if not (isinstance(c_.func, ast.Attribute) and c_.func.attr == "setdefault" and norm(c_.func.value).endswith("_nodes_by_data_id") and len(c_.args) == 2
                        and norm(c_.args[0]) == newv and isinstance(c_.args[1], ast.Name)):
                    return False
                slot_, moved_ = a_.targets[0].id, c_.args[1].id
                for x in iter_own(f.node):
                    if isinstance(x, ast.If) and norm(x.test) in (f"{slot_} is not {moved_}", f"{moved_} is not {slot_}") \
                            and any(norm(y) == f"{slot_}.extend({moved_})" for y in x.body):
                        return cfg.find_path(n, cfg.node_for(x.body[0]) or n) is not None
                return False

            def add_new(n: N) -> bool:
                if merged_by_setdefault(n):
                    return True
                for e2 in si.direct.get(n.id, []):
                    if (e2.op in ("append", "extend") and e2.field == SLOT) or (e2.op == "setitem" and e2.field == "_nodes_by_data_id"):
                        k = _slot_key_text(n.ast, ctx, f)
                        if k == newv:
                            return True
                return False

            ok2 = cfg.dominated_by(t, add_new, may_raise=lambda n: True, exc_through=True)
            obs.append(ctx.ob("PAIR-3", ["C02", "C04"], f, f"{norm(node)}: listed under the new key `{newv}` first", node, ok2,
                              "" if ok2 else "the node is not findable under its new data_id (or is filed under another key)"))
    return obs


# -------------------------------------------------------------- GUARD rules
ANCESTRY_FUNCS = {"Node.is_descendant_of", "Node.is_ancestor_of", "Node.get_parent_list"}


def _is_cond_raise(n: N, cfg: CFG, model) -> Optional[ast.If]:
    """n is a raise statement directly under an `if`: return that if."""
    if n.kind == "stmt" and isinstance(n.ast, ast.Raise):
        p = model.parent_of(n.ast)
        if isinstance(p, ast.If):
            return p
    return None


@rule("GUARD-CYCLE", ["C01", "C13"], floor=1, section="3.1")
def guard_cycle(ctx: Ctx) -> List[Ob]:
    """re-parenting is guarded: every write of a registered node's _parent is dominated by a refusal whose condition tests ancestry (the new parent is neither the node nor one of its descendants)"""
    obs: List[Ob] = []
    env = ctx.env
    for f in ctx.model.all_funcs():
        if f.name == "__init__" or f.qualname == "Tree._unregister":
            continue
        for e, node in ctx.fx.direct_nodes[f]:
            if not (e.op == "rebind" and e.field == "_parent" and e.root != "fresh"):
                continue
            cfg = ctx.cfg(f)
            t = cfg.stmt_node_of(node, ctx.model.parent_of)

            def anc_guard(n: N) -> bool:
                if n.kind != "test":
                    return False
                # the test must lead to a raise and mention an ancestry query
                parent_if = ctx.model.parent_of(n.ast)
                if not isinstance(parent_if, ast.If):
                    return False
                if not any(isinstance(x, ast.Raise) for st in parent_if.body for x in ast.walk(st)):
                    return False
                for c in ast.walk(n.ast):
                    if isinstance(c, ast.Call):
                        if {g.qualname for g, _ in env.callees(f, c)} & ANCESTRY_FUNCS:
                            return True
                return False

            ok = cfg.dominated_by(t, anc_guard)
            # ... and the guard covers the node itself (is_descendant_of / is_ancestor_of are strict)
            newp = norm(node.value) if isinstance(node, ast.Assign) else "?"

            def self_guard(n: N) -> bool:
                if n.kind != "test":
                    return False
                pi = ctx.model.parent_of(n.ast)
                if not isinstance(pi, ast.If) or not any(isinstance(x, ast.Raise) for st in pi.body for x in ast.walk(st)):
                    return False
                # the self test refuses on its own: a top-level disjunct of the refusal's condition, not one that
                # only counts together with something else (`self._children and (p is self or ...)` lets a leaf through)
                from .util import split_cond

                def disjuncts(e: ast.AST) -> List[ast.AST]:
                    if isinstance(e, ast.BoolOp) and isinstance(e.op, ast.Or):
                        return [d for v in e.values for d in disjuncts(v)]
                    return [e]

                for d in disjuncts(n.ast):
                    txt = norm(d)
                    if txt in (f"{newp} is self", f"self is {newp}") or ("add_self=True" in txt and not isinstance(d, ast.BoolOp)):
                        return True
                # nested form: `if c:` ... enclosing tests are conjuncts as well
                return False

            ok2 = cfg.dominated_by(t, self_guard)
            obs.append(ctx.ob("GUARD-CYCLE", ["C01", "C13"], f, f"{norm(node)}: the ancestry refusal also covers the node itself", node, ok2,
                              "" if ok2 else "n.move_to(n) is not refused: the branch becomes a detached self-cycle that is still registered"))
            obs.append(ctx.ob("GUARD-CYCLE", ["C01", "C13"], f, f"{norm(node)} is guarded by an ancestry refusal", node, ok,
                              "" if ok else "moving a node below itself or one of its descendants detaches the branch: "
                              "nodes stay counted but are no longer reachable, and the node becomes its own ancestor"))
    return obs


def _may_raise_unique(ctx: Ctx) -> Set[Func]:
    out: Set[Func] = set()
    for f in ctx.model.all_funcs():
        for n in iter_own(f.node):
            if isinstance(n, ast.Raise) and raised_class(n) == "UniqueConstraintError":
                out.add(f)
    changed = True
    while changed:
        changed = False
        for f in ctx.model.all_funcs():
            if f in out:
                continue
            for c in ctx.env.calls_in[f]:
                if any(g in out for g, _ in ctx.env.callees(f, c)):
                    out.add(f)
                    changed = True
                    break
    return out


@rule("GUARD-UNIQ", ["C03"], floor=2, section="3.1")
def guard_uniq(ctx: Ctx) -> List[Ob]:
    """sibling uniqueness on every route: each statement that changes a registered node's (parent, data_id) pair is dominated by a uniqueness refusal (a scan that can raise UniqueConstraintError)"""
    obs: List[Ob] = []
    uniq = _may_raise_unique(ctx)
    for f in ctx.model.all_funcs():
        if f.name == "__init__" or f.qualname == "Tree._unregister":
            continue
        for e, node in ctx.fx.direct_nodes[f]:
            if not (e.op == "rebind" and e.field in ("_parent", "_data_id") and e.root != "fresh"):
                continue
            cfg = ctx.cfg(f)
            si = stmt_index(ctx, f)
            t = cfg.stmt_node_of(node, ctx.model.parent_of)

            def uniq_guard(n: N) -> bool:
                if n.kind == "stmt" and isinstance(n.ast, ast.Raise):
                    return False
                if n.kind == "test":
                    p = ctx.model.parent_of(n.ast)
                    if isinstance(p, ast.If) and any(
                        isinstance(x, ast.Raise) and raised_class(x) == "UniqueConstraintError"
                        for st in p.body + p.orelse for x in ast.walk(st)
                    ):
                        return True
                if n.kind == "iter":
                    if any(isinstance(x, ast.Raise) and raised_class(x) == "UniqueConstraintError"
                           for st in n.ast.body for x in ast.walk(st)):
                        return True
                for c in si.calls_at(n):
                    if any(g in uniq for g, _ in ctx.env.callees(f, c)):
                        return True
                return False

            ok = cfg.dominated_by(t, uniq_guard)
            what = "parent" if e.field == "_parent" else "data_id"
            obs.append(ctx.ob("GUARD-UNIQ", ["C03"], f, f"{norm(node)} is preceded by a sibling-uniqueness refusal", node, ok,
                              "" if ok else f"the node's {what} changes without checking the (new) siblings: "
                              "a parent can end up with two children of the same data_id"))
    return obs
