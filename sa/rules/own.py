"""Ownership, purity, identity and aliasing rules (DESIGN 3.1, 3.2, 3.4)."""
from __future__ import annotations

import ast
from typing import Dict, List, Set, Tuple

from ..core import Ctx, Ob, rule
from ..effects import Effects
from ..infer import CONTAINER_FIELDS, Env, NODE, NODELIST, SLOT
from ..model import AnalysisError, Func, Model, iter_own, norm

OWNER_EXTRA = {"Tree.__init__", "TypedTree.__init__", "Tree._register", "Tree._unregister"}


def in_owner_layer(model: Model, f: Func) -> bool:
    t = f.top
    if model.is_family(t.cls, "Node"):
        return True
    return t.qualname in OWNER_EXTRA


_CONTROL_SRC = '''
from __future__ import annotations
from .node import Node

def zz_foreign_writer(n: Node, m: Node) -> None:
    lst = n._parent._children
    lst.append(m)
    m._parent = n
'''


@rule("OWN-1", ["C01", "C02"], floor=60, section="3.1")
def own1(ctx: Ctx) -> List[Ob]:
    """writer confinement: only the owner layer (Node family, Tree.__init__/_register/_unregister) writes the structural fields"""
    obs: List[Ob] = []
    m = ctx.model
    for f in m.all_funcs():
        for e in ctx.fx.direct[f]:
            ok = in_owner_layer(m, f)
            if e.root == "fresh" and ok:
                continue  # the owner layer initialising an object it just built
            props = ["C01"]
            if e.field in ("_nodes_by_data_id", SLOT, "_data_id", "_data", "_node_by_id"):
                props.append("C02")
            obs.append(
                ctx.ob("OWN-1", props, f, f"{e.op} {e.field}: {e.text}", None, ok,
                       "" if ok else f"structural field {e.field} written outside the owner layer "
                       f"(root {e.root}); the tree invariant is only maintained by Node/Tree._register/_unregister")
            )
            obs[-1].loc = f"nutree/{f.module}.py:{e.line}"
    # positive control: a synthetic foreign writer must be reported
    cm = Model(ctx.root, extra_sources={"zz_control": _CONTROL_SRC})
    cenv = Env(cm)
    cfx = Effects(cenv)
    cf = cm.func("zz_foreign_writer")
    hit = [e for e in cfx.direct[cf] if e.root != "fresh"]
    fields = {e.field for e in hit}
    if not ({"_children", "_parent"} <= fields):
        raise AnalysisError("OWN-1 positive control not detected: the effect layer lost its teeth")
    obs.append(ctx.ob("OWN-1", ["C01", "C02"], "control:zz_foreign_writer", "synthetic foreign writer is detected",
                      None, True, f"control reported {sorted(fields)}"))
    return obs


# --------------------------------------------------------------------- ID-EQ
IDEQ_ALLOW = {"Tree._self_check": "debug helper, not API"}
#: functions where two nodes are compared with == on purpose
IDEQ_EQ_ALLOW = {"_find_child": "diff matches peers of two different trees by their data (that is what == is for)", "Node.__eq__": "the definition"}


#: operation family of the enclosing API function -> the properties whose behaviour it implements
#: (used to attribute an identity-discipline finding to the operation it corrupts)
_FAMILIES = [
    (r"(^|\.)(filter|filtered|_add_filtered)($|\.)", ["C08"]),
    (r"(^|\.)(copy|copy_to|_add_from|add_child)($|\.)", ["C07"]),  # add_child is the primitive every copy goes through
    (r"(^|\.)(find_all|find_first|find|_search|__getitem__|__contains__)($|\.)", ["C09"]),
    (r"(^|\.)(iterator|visit|_iter_\w+|_visit_\w+|__iter__)($|\.)", ["C06"]),
    (r"(^|\.)(format|format_iter|_get_prefix|_render_lines)($|\.)", ["C16"]),
    (r"(^|\.)(add_child|add|append_child|prepend_child|prepend_sibling|append_sibling|move_to|remove|remove_children|set_data|rename|sort_children|clear)($|\.)", ["C04"]),
    (r"(^|\.)(add_child|move_to|set_data|rename|remove|_register)($|\.)", ["C03"]),  # the sibling-uniqueness checks live in these
    (r"(^|\.)(to_dict|to_dict_list|from_dict)($|\.)", ["C14"]),
    (r"(^|\.)(to_list_iter|save|load|_from_list)($|\.)", ["C05", "C12"]),
    (r"(^|\.)(diff)($|\.)", ["C11"]),
    (r"^Node\.name$", ["C09", "C16"]),  # what searches match and what the default rendering shows
    (r"(^|\.)(depth|calc_depth|calc_height|count_descendants|get_parent_list|get_path|get_common_ancestor|is_descendant_of|is_ancestor_of|get_top|get_index|get_siblings|"
     r"first_child|last_child|first_sibling|last_sibling|prev_sibling|next_sibling|is_first_sibling|is_last_sibling)($|\.)", ["C10"]),
    (r"(^|\.)(to_dot|to_dotfile|to_mermaid_flowchart|to_rdf_graph)($|\.)", ["C17"]),
    (r"(^|\.)(count|count_unique|__len__|get_clones|is_clone)($|\.)", ["C02"]),
]
_FAMILY_MODULES = {"diff": ["C11"], "dot": ["C17"], "mermaid": ["C17"], "rdf": ["C17"], "fs": ["C19"], "tree_generator": ["C20"]}


def family_props(f: Func) -> List[str]:
    import re as _re

    out = list(_FAMILY_MODULES.get(f.module, []))
    q = f.qualname
    for rx, ps in _FAMILIES:
        if _re.search(rx, q):
            out += ps
    return sorted(set(out))


def _ideq_props(f: Func, op: str, operand: ast.AST, slot: bool) -> List[str]:
    if f.top.cls is None and f.module == "node":
        # the shared identity-lookup helper: every position / unlink operation depends on it
        return ["C01", "C02", "C03", "C04", "C07", "C08", "C09", "C10", "C15"]
    cls = f.top.cls or ""
    typed = cls.startswith("Typed") or cls == "_SystemRootTypedNode"
    is_self = isinstance(operand, ast.Name) and operand.id == f.self_name
    fam = family_props(f)
    if op == "remove":
        return sorted(set(["C02", "C09"] if slot else ["C01", "C03", "C08"]) | set(fam))
    if op == "index" and is_self:
        return sorted(set(["C15"] if typed else ["C10"]) | set(fam))
    if op == "index":
        return sorted(set(["C04"]) | set(fam))
    if op == "in":
        return sorted(set(["C01", "C10"]) | set(family_props(f)))
    return ["C10"]


@rule("ID-EQ", ["C01", "C02", "C03", "C04", "C05", "C06", "C07", "C08", "C09", "C10", "C11", "C12", "C14", "C15", "C16", "C17", "C19", "C20"], floor=6, section="3.2")
def ideq(ctx: Ctx) -> List[Ob]:
    """identity discipline: no implicit-equality list operation (remove/index/count/in) on a node list with a node operand (Node.__eq__ compares data)"""
    obs: List[Ob] = []
    env = ctx.env
    for f in ctx.model.all_funcs():
        if f.top.qualname in IDEQ_ALLOW:
            continue
        for n in iter_own(f.node):
            if isinstance(n, ast.Call) and isinstance(n.func, ast.Attribute) and n.func.attr in ("remove", "index", "count") and len(n.args) >= 1:
                rt = env.types(f, n.func.value)
                ot = env.types(f, n.args[0])
                if NODELIST in rt and NODE in ot:
                    slot = any(fld == SLOT for _, fld in env.fields(f, n.func.value))
                    props = _ideq_props(f, n.func.attr, n.args[0], slot)
                    obs.append(ctx.ob("ID-EQ", props, f, n, n, False,
                                      f"list.{n.func.attr}() compares with ==, and Node.__eq__ compares data: "
                                      "an equal-comparing sibling / another clone is found instead of the node itself"))
            elif isinstance(n, ast.Compare) and len(n.ops) == 1 and isinstance(n.ops[0], (ast.In, ast.NotIn)):
                rt = env.types(f, n.comparators[0])
                ot = env.types(f, n.left)
                if NODELIST in rt and not ot and isinstance(n.left, ast.Attribute) and n.left.attr in ("_parent", "parent"):
                    ot = {NODE}  # (the parent link of whatever it is read from is a node)
                if NODELIST in rt and NODE in ot:
                    obs.append(ctx.ob("ID-EQ", _ideq_props(f, "in", n.left, False), f, n, n, False,
                                      "`in` on a node list compares data, not identity"))
            # == / != between two nodes compares their data objects (Node.__eq__), not the nodes
            if isinstance(n, ast.Compare) and len(n.ops) == 1 and isinstance(n.ops[0], (ast.Eq, ast.NotEq)):
                lt, rt = env.types(f, n.left), env.types(f, n.comparators[0])
                if NODE in lt and NODE in rt and f.top.qualname not in IDEQ_EQ_ALLOW:
                    obs.append(ctx.ob("ID-EQ", sorted(set(["C01", "C10"]) | set(family_props(f))), f, n, n, False,
                                      f"`{norm(n)}` compares two nodes with {'==' if isinstance(n.ops[0], ast.Eq) else '!='}: Node.__eq__ compares the data objects, so a clone "
                                      "or an equal-data node counts as the same node"))
            # `is` / `is not` between two data ids compares object identity of ints / strings, not their values
            if isinstance(n, ast.Compare) and len(n.ops) == 1 and isinstance(n.ops[0], (ast.Is, ast.IsNot)):
                def _is_id(e_):
                    return isinstance(e_, ast.Attribute) and e_.attr in ("_data_id", "data_id", "_node_id", "node_id")
                if _is_id(n.left) and _is_id(n.comparators[0]):
                    obs.append(ctx.ob("ID-EQ", sorted(set(["C02", "C03"]) | set(family_props(f))), f, n, n, False,
                                      f"`{norm(n)}` compares two ids by object identity: equal ids that were computed independently (large hashes, strings built at "
                                      "run time) are different objects, so the test fails although the ids are equal"))
        # identity idioms count as discharged instances
        for n in iter_own(f.node):
            if isinstance(n, ast.Compare) and len(n.ops) == 1 and isinstance(n.ops[0], (ast.Is, ast.IsNot)):
                lt = env.types(f, n.left)
                rt = env.types(f, n.comparators[0])
                if NODE in lt and NODE in rt:
                    cls = f.top.cls or ""
                    props = ["C15"] if cls.startswith("Typed") else ["C01", "C10"]
                    if f.top.qualname in ("Tree._unregister", "Node.get_clones"):
                        props = ["C02", "C01"]
                    obs.append(ctx.ob("ID-EQ", sorted(set(props) | set(family_props(f))), f, n, n, True))
    return obs


# ---------------------------------------------------------------------- PURE
#: read-only entry points: qualname -> (read-only roots, properties)
def _pure_table(m: Model) -> Dict[str, Tuple[Tuple[str, ...], Tuple[str, ...]]]:
    t: Dict[str, Tuple[Tuple[str, ...], Tuple[str, ...]]] = {}

    def add(names, roots, props):
        for q in names:
            old = t.get(q)
            if old:
                t[q] = (tuple(sorted(set(old[0]) | set(roots))), tuple(sorted(set(old[1]) | set(props))))
            else:
                t[q] = (tuple(roots), tuple(props))

    S = ("self",)
    add(["Node.iterator", "Node.visit", "Node._iter_pre", "Node._iter_post", "Node._iter_level",
         "Node._iter_level_rtl", "Node._iter_zigzag", "Node._iter_zigzag_rtl", "Node._visit_pre",
         "Node._visit_post", "Node._visit_level", "Tree.iterator", "Tree.visit", "TypedNode.iterator"],
        S, ["C06", "C13"])
    add(["Node.find_all", "Node.find_first", "Node._search", "Tree.find_all", "Tree.find_first",
         "Tree.__getitem__", "Tree.__contains__"], S, ["C09", "C13", "C02"])
    add(["Node.get_clones", "Node.is_clone", "Tree.count_unique", "Tree.count", "Tree.__len__"], S, ["C02", "C10"])
    rel = ["parent", "up", "children", "get_children", "first_child", "last_child", "get_siblings",
           "first_sibling", "prev_sibling", "next_sibling", "last_sibling", "depth", "count_descendants",
           "calc_depth", "calc_height", "get_index", "is_system_root", "is_top", "is_leaf",
           "is_first_sibling", "is_last_sibling", "has_children", "get_top", "is_descendant_of",
           "is_ancestor_of", "get_parent_list", "get_path", "name", "path", "tree", "data", "data_id",
           "node_id", "meta", "get_meta"]
    add([f"Node.{x}" for x in rel], S, ["C10"])
    add(["Node.get_common_ancestor"], ("self", "p:other"), ["C10"])
    add(["Tree.children", "Tree.get_toplevel_nodes", "Tree.first_child", "Tree.last_child",
         "Tree.calc_height", "Tree.system_root", "Tree.get_random_node"], S, ["C10"])
    trel = ["parent", "children", "get_children", "first_child", "last_child", "has_children",
            "get_siblings", "first_sibling", "last_sibling", "prev_sibling", "next_sibling", "get_index",
            "is_first_sibling", "is_last_sibling", "kind"]
    add([f"TypedNode.{x}" for x in trel], S, ["C15"])
    add(["TypedTree.first_child", "TypedTree.last_child", "TypedTree.iter_by_type"], S, ["C15"])
    add(["Node._get_prefix", "Node._render_lines", "Node.format_iter", "Node.format", "Tree.format_iter",
         "Tree.format", "Tree.print"], S, ["C16", "C13"])
    add(["Tree.save", "Tree.to_list_iter", "Node.to_list_iter", "TypedTree.save"], S, ["C05", "C12", "C13"])
    add(["Node._make_list_entry", "TypedNode._make_list_entry"], ("p:node",), ["C05", "C12"])
    add(["Node.to_dict", "Tree.to_dict_list"], S, ["C14", "C13"])
    add(["Node.to_dot", "TypedNode.to_dot", "Node.to_rdf_graph", "Node.to_mermaid_flowchart", "Tree.to_dot",
         "Tree.to_dotfile", "Tree.to_mermaid_flowchart", "Tree.to_rdf_graph"], S, ["C17", "C13"])
    add(["node_to_dot", "node_to_mermaid_flowchart", "_node_to_mermaid_flowchart_iter"], ("p:node",), ["C17"])
    add(["tree_to_dotfile", "tree_to_rdf"], ("p:tree",), ["C17"])
    add(["node_to_rdf", "_add_child_nodes", "_add_child_node"], ("p:tree_node",), ["C17"])
    add(["diff_tree"], ("p:t0", "p:t1"), ["C11"])
    add(["Tree.diff"], ("self", "p:other"), ["C11"])
    add(["Tree.copy", "Node.copy", "Node.copy_to", "Tree.copy_to", "TypedNode.copy"], S, ["C07", "C13"])
    add(["Node.add_child", "TypedNode.add_child", "Tree.add_child", "TypedTree.add_child",
         "Node.append_child", "Node.prepend_child", "Node.prepend_sibling", "Node.append_sibling",
         "TypedNode.append_child", "TypedNode.prepend_child", "TypedNode.prepend_sibling",
         "TypedNode.append_sibling"], ("p:child",), ["C07", "C04", "C13"])
    add(["Node._add_from"], ("p:other",), ["C07", "C08"])
    add(["Node._add_filtered"], ("p:other",), ["C08", "C07"])
    add(["Node.filtered", "Tree.filtered", "TypedNode.filtered"], S, ["C08"])
    return t


@rule("PURE", ["C02", "C04", "C05", "C06", "C07", "C08", "C09", "C10", "C11", "C12", "C13", "C14", "C15", "C16", "C17"],
      floor=120, section="3.4")
def pure(ctx: Ctx) -> List[Ob]:
    """read-only footprint: the instantiated effect summary of each read-only entry point contains no structural write rooted at its read-only arguments (self / source / both diff inputs)"""
    obs: List[Ob] = []
    m = ctx.model
    table = _pure_table(m)
    bad: Dict[Tuple[str, str], Tuple[Set[str], object, Set[str]]] = {}
    for q, (roots, props) in sorted(table.items()):
        f = m.func(q)  # vanished anchor -> AnalysisError
        es = [e for e in ctx.fx.of(f) if e.root in roots]
        obs.append(ctx.ob("PURE", props, f, f"{q} leaves {', '.join(roots)} unwritten", None, not es,
                          "" if not es else f"{len(es)} write(s): " + es[0].describe()))
        if es:
            # the finding is keyed at the writing construct, once
            obs.pop()
            for e in es:
                k = (e.origin, f"{e.op} {e.field}: {e.text}")
                ent = bad.setdefault(k, (set(), e, set()))
                ent[0].add(q)
                ent[2].update(props)
    for (origin, text), (entries, e, props) in sorted(bad.items(), key=lambda kv: kv[0]):
        ob = Ob("PURE", tuple(sorted(props)), origin, text, f"nutree/{origin.split(':')[0]}.py:{e.line}", False,
                f"structural write reachable from read-only entry point(s) {sorted(entries)} on a read-only "
                f"argument (root {e.root})", [*e.chain, e.describe()])
        obs.append(ob)
    return obs


# -------------------------------------------------------------------- ESCAPE
@rule("ESCAPE", ["C02", "C09"], floor=40, section="3.4")
def escape(ctx: Ctx) -> List[Ob]:
    """no public function hands out an alias of index storage (a clone list or the id maps)"""
    obs: List[Ob] = []
    m = ctx.model
    for f in m.all_funcs():
        if f.parent is not None or f.cls is None:
            continue
        if not (m.is_family(f.cls, "Node") or m.is_family(f.cls, "Tree")):
            continue
        if f.name.startswith("_") and not f.name.startswith("__"):
            continue
        rf = ctx.env.ret_fields.get(f, frozenset())
        leaks = sorted({fld for _r, fld in rf if fld in (SLOT, "_nodes_by_data_id", "_node_by_id")})
        has_ret = any(isinstance(n, (ast.Return, ast.Yield, ast.YieldFrom)) and n.value is not None
                      for n in iter_own(f.node))
        if not has_ret:
            continue
        if leaks:
            for n in iter_own(f.node):
                if isinstance(n, ast.Return) and n.value is not None:
                    fl = {fld for _r, fld in ctx.env.fields(f, n.value)}
                    if fl & set(leaks):
                        obs.append(ctx.ob("ESCAPE", ["C02", "C09"] if "find" in f.name or f.name == "__getitem__" else ["C02"], f, n, n, False,
                                          f"returns the internal {sorted(fl & set(leaks))} container itself: a caller that "
                                          "mutates the result corrupts the data_id index (get_clones copies)"))
        else:
            obs.append(ctx.ob("ESCAPE", ["C02"], f, f"{f.qualname} returns no index storage", None, True))
    return obs


# --------------------------------------------------------------- ALIAS-STORE
@rule("ALIAS-STORE", ["C07", "C04"], floor=10, section="3.5")
def alias_store(ctx: Ctx) -> List[Ob]:
    """independence: a node's mutable container field (_children, _meta) is only ever bound to a fresh container, never to an alias of another node's container or of a caller's argument"""
    obs: List[Ob] = []
    env = ctx.env
    for f in ctx.model.all_funcs():
        for n in iter_own(f.node):
            if not isinstance(n, (ast.Assign, ast.AnnAssign)):
                continue
            targets = n.targets if isinstance(n, ast.Assign) else [n.target]
            value = n.value
            if value is None:
                continue
            for t in targets:
                if isinstance(t, ast.Attribute) and t.attr in ("_children", "_meta"):
                    aliases = env.fields(f, value)
                    is_param = isinstance(value, ast.Name) and value.id in f.top.param_names() and value.id != f.self_name
                    if is_param:
                        # (the parameter was rebound to a fresh copy - `meta = dict(meta)` - on every path that reaches the store)
                        from .util import reaching_values as _rv

                        vals_ = _rv(ctx, f, n, value)
                        if vals_ and not (len(vals_) == 1 and vals_[0] is value) and all(isinstance(v_, (ast.Dict, ast.List, ast.DictComp, ast.ListComp)) or (isinstance(v_, ast.Call) and (
                                norm(v_.func) in ("dict", "list", "copy.copy", "copy.deepcopy", "copy", "deepcopy") or (isinstance(v_.func, ast.Attribute) and v_.func.attr == "copy")))
                                or (isinstance(v_, ast.Constant) and v_.value is None) for v_ in vals_):
                            is_param = False
                        if is_param and (vals_ is None or (len(vals_) == 1 and vals_[0] is value)):
                            # `if p is not None: p = dict(p) or None` ... `if p is not None: x._meta = p`: the untouched parameter
                            # reaches the store only when it is None, i.e. not at all
                            from .util import path_conds as _pc

                            def _fresh(v_):
                                if isinstance(v_, ast.BoolOp):
                                    return all(_fresh(x_) for x_ in v_.values)
                                return isinstance(v_, (ast.Dict, ast.DictComp)) or (isinstance(v_, ast.Constant) and v_.value is None) or (isinstance(v_, ast.Call) and (
                                    norm(v_.func) in ("dict", "copy.copy", "copy.deepcopy") or (isinstance(v_.func, ast.Attribute) and v_.func.attr == "copy")))

                            bs_ = [b_ for b_ in env.scope(f).bindings.get(value.id, []) if b_.kind == "val" and b_.expr is not None]
                            guarded = lambda st_: any((not pol_) and norm(e_) == f"{value.id} is None" for e_, pol_ in _pc(ctx, f, st_))  # noqa: E731
                            if bs_ and all(_fresh(b_.expr) for b_ in bs_) and guarded(n) and all(guarded(ctx.model.parent_of(b_.expr)) for b_ in bs_):
                                is_param = False
                    in_init = f.name == "__init__"
                    ok = not aliases and not (is_param and not in_init)
                    props = ["C07", "C04"] if t.attr == "_meta" else ["C07"]
                    obs.append(ctx.ob("ALIAS-STORE", props, f, n, n, ok,
                                      "" if ok else f"{t.attr} is bound to an existing container "
                                      f"({sorted(aliases) or value.id}): two owners would share one mutable object"))
    return obs
