"""Shared helpers for path rules: statement-level effects, refusals, idioms."""
from __future__ import annotations

import ast
from typing import Callable, Dict, Iterable, List, Optional, Set, Tuple

from ..cfg import CFG, N
from ..core import Ctx
from ..effects import Effect
from ..infer import NODE, NODECLS, NODELIST, SLOT
from ..model import Func, iter_own, norm

REFUSAL_ERRORS = {
    "UniqueConstraintError", "AmbiguousMatchError", "ValueError", "NotImplementedError",
    "TypeError", "KeyError", "RuntimeError", "TreeError",
}


def own_stmt_node(ctx: Ctx, f: Func, node: ast.AST) -> Optional[N]:
    return ctx.cfg(f).stmt_node_of(node, ctx.model.parent_of)


class StmtIndex:
    """Per function: CFG node -> direct effects, call sites with mapped
    (transitive) effects, and refusal classification."""

    def __init__(self, ctx: Ctx, f: Func):
        self.ctx = ctx
        self.f = f
        self.cfg: CFG = ctx.cfg(f)
        self.direct: Dict[int, List[Effect]] = {}
        self.calls: Dict[int, List[ast.Call]] = {}
        self.trans: Dict[int, List[Effect]] = {}
        fx = ctx.fx
        for e, node in fx.direct_nodes[f]:
            n = own_stmt_node(ctx, f, node)
            if n is not None:
                self.direct.setdefault(n.id, []).append(e)
        for call in ctx.env.calls_in[f]:
            n = own_stmt_node(ctx, f, call)
            if n is None:
                continue
            self.calls.setdefault(n.id, []).append(call)
            for g, recv in ctx.env.callees(f, call):
                for e in fx.summary[g].values():
                    for e2 in fx._map_effect(f, call, g, recv, e):
                        self.trans.setdefault(n.id, []).append(e2)

    def effects_at(self, n: N, *, include_fresh: bool = False) -> List[Effect]:
        es = [e for e in self.direct.get(n.id, []) + self.trans.get(n.id, []) if e.op != "refuse"]
        if not include_fresh:
            es = [e for e in es if e.root != "fresh"]
        if self.f.top.name == "__init__":
            # the object under construction is fresh from every caller's view
            es = [e for e in es if e.root != "self"]
        return es

    def refusals_at(self, n: N) -> List[Effect]:
        out = [e for e in self.trans.get(n.id, []) if e.op == "refuse"]
        for e, node in self.ctx.fx.refusals[self.f]:
            sn = own_stmt_node(self.ctx, self.f, node)
            if sn is n:
                out.append(e)
        return out

    def writes(self, n: N) -> bool:
        return bool(self.effects_at(n))

    def calls_at(self, n: N) -> List[ast.Call]:
        return self.calls.get(n.id, [])

    def calls_resolving_to(self, n: N, quals: Iterable[str]) -> List[ast.Call]:
        qs = set(quals)
        out = []
        for c in self.calls_at(n):
            if any(g.qualname in qs for g, _ in self.ctx.env.callees(self.f, c)):
                out.append(c)
        return out


_stmt_index_cache: Dict[Tuple[int, str], StmtIndex] = {}


def stmt_index(ctx: Ctx, f: Func) -> StmtIndex:
    k = (id(ctx), f.site)
    if k not in _stmt_index_cache:
        _stmt_index_cache[k] = StmtIndex(ctx, f)
    return _stmt_index_cache[k]


# ------------------------------------------------------------------ refusals
def raised_class(st: ast.Raise) -> Optional[str]:
    e = st.exc
    if e is None:
        return None
    if isinstance(e, ast.Call):
        e = e.func
    if isinstance(e, ast.Name):
        return e.id
    if isinstance(e, ast.Attribute):
        return e.attr
    return None


def _names(e: ast.AST) -> Set[str]:
    return {x.id for x in ast.walk(e) if isinstance(x, ast.Name)}


def is_param_assert(f: Func, st: ast.AST) -> bool:
    """assert whose condition mentions a parameter other than self:
    argument validation (asserts over self only are internal beliefs)."""
    if not isinstance(st, ast.Assert):
        return False
    ps = set(f.top.param_names()) - {f.self_name}
    if f.parent is not None:
        ps |= set(f.param_names())
    return bool(_names(st.test) & ps)


def may_refuse_map(ctx: Ctx) -> Dict[Func, str]:
    """Functions that may refuse (raise a library/argument error) — direct or
    through a resolved callee.  Value: a short reason."""
    cached = getattr(ctx, "_may_refuse", None)
    if cached is not None:
        return cached
    env = ctx.env
    out: Dict[Func, str] = {}
    for f in ctx.model.all_funcs():
        in_handler_reraise: Set[int] = set()
        for n in iter_own(f.node):
            if isinstance(n, ast.Raise):
                rc = raised_class(n)
                if rc in REFUSAL_ERRORS:
                    out[f] = f"raise {rc} at L{n.lineno}"
                    break
                if rc is None or rc in ("res", "e"):
                    continue
            elif isinstance(n, ast.Assert) and not f.name.startswith("_") and is_param_assert(f, n):
                out[f] = f"assert on argument at L{n.lineno}"
                break
    changed = True
    while changed:
        changed = False
        for f in ctx.model.all_funcs():
            if f in out:
                continue
            for g in f.nested:
                if g in out:
                    out[f] = f"nested {g.name}: {out[g]}"
                    changed = True
                    break
            if f in out:
                continue
            for c in env.calls_in[f]:
                for g, _ in env.callees(f, c):
                    if g in out and g is not f:
                        out[f] = f"calls {g.qualname} ({out[g].split(' (')[0]})"
                        changed = True
                        break
                if f in out:
                    break
    ctx._may_refuse = out  # type: ignore[attr-defined]
    return out


def list_search_on_param(ctx: Ctx, f: Func, n: N) -> Optional[ast.Call]:
    """`lst.index(x)` / `lst.remove(x)` where x is (derived from) a parameter
    other than self: raises ValueError when absent."""
    if n.ast is None:
        return None
    ps = set(f.top.param_names()) - {f.self_name}
    for c in ast.walk(n.ast) if n.kind == "stmt" else []:
        if isinstance(c, ast.Call) and isinstance(c.func, ast.Attribute) and c.func.attr in ("index", "remove") and c.args:
            if isinstance(c.args[0], ast.Name) and c.args[0].id in ps:
                return c
    return None


def stmt_exprs(n: N) -> List[ast.AST]:
    """Expressions evaluated *at* a CFG node (headers only evaluate their own
    expression, not their bodies)."""
    a = n.ast
    if a is None:
        return []
    if n.kind == "iter":
        return [a.iter]
    if n.kind == "with":
        return [i.context_expr for i in a.items]
    if n.kind == "handler":
        return [a.type] if a.type is not None else []
    if n.kind == "test":
        return [a]
    if isinstance(a, (ast.FunctionDef, ast.AsyncFunctionDef, ast.ClassDef)):
        return []
    return [a]


def walk_node_exprs(n: N):
    for e in stmt_exprs(n):
        for x in ast.walk(e):
            yield x


def is_copy_expr(e: ast.AST) -> bool:
    """list(x), x.copy(), x[:], sorted(x), tuple(x), [.. for ..]"""
    if isinstance(e, ast.Call):
        if isinstance(e.func, ast.Name) and e.func.id in ("list", "tuple", "sorted", "set", "frozenset"):
            return True
        if isinstance(e.func, ast.Attribute) and e.func.attr == "copy" and not e.args:
            return True
    if isinstance(e, ast.Subscript) and isinstance(e.slice, ast.Slice):
        return True
    if isinstance(e, (ast.ListComp, ast.SetComp, ast.List, ast.Tuple)):
        return True
    return False
