"""Shared helpers for path rules: statement-level effects, refusals, idioms."""
from __future__ import annotations

import ast
from typing import Callable, Dict, Iterable, List, Optional, Set, Tuple

from ..cfg import CFG, N
from ..core import Ctx
from ..effects import Effect
from ..infer import NODE, NODECLS, NODELIST, SLOT
from ..model import Func, iter_own, norm

REFUSAL_ERRORS = {
    "UniqueConstraintError", "AmbiguousMatchError", "ValueError", "NotImplementedError",
    "TypeError", "KeyError", "RuntimeError", "TreeError",
}


def own_stmt_node(ctx: Ctx, f: Func, node: ast.AST) -> Optional[N]:
    return ctx.cfg(f).stmt_node_of(node, ctx.model.parent_of)


class StmtIndex:
    """Per function: CFG node -> direct effects, call sites with mapped
    (transitive) effects, and refusal classification."""

    def __init__(self, ctx: Ctx, f: Func):
        self.ctx = ctx
        self.f = f
        self.cfg: CFG = ctx.cfg(f)
        self.direct: Dict[int, List[Effect]] = {}
        self.calls: Dict[int, List[ast.Call]] = {}
        self.trans: Dict[int, List[Effect]] = {}
        fx = ctx.fx
        for e, node in fx.direct_nodes[f]:
            n = own_stmt_node(ctx, f, node)
            if n is not None:
                self.direct.setdefault(n.id, []).append(e)
        for call in ctx.env.calls_in[f]:
            n = own_stmt_node(ctx, f, call)
            if n is None:
                continue
            self.calls.setdefault(n.id, []).append(call)
            for g, recv in ctx.env.callees(f, call):
                for e in fx.summary[g].values():
                    for e2 in fx._map_effect(f, call, g, recv, e):
                        self.trans.setdefault(n.id, []).append(e2)

    def effects_at(self, n: N, *, include_fresh: bool = False) -> List[Effect]:
        es = [e for e in self.direct.get(n.id, []) + self.trans.get(n.id, []) if e.op != "refuse"]
        if not include_fresh:
            es = [e for e in es if e.root != "fresh"]
        if self.f.top.name == "__init__":
            # the object under construction is fresh from every caller's view
            es = [e for e in es if e.root != "self"]
        return es

    def refusals_at(self, n: N) -> List[Effect]:
        out = [e for e in self.trans.get(n.id, []) if e.op == "refuse"]
        for e, node in self.ctx.fx.refusals[self.f]:
            sn = own_stmt_node(self.ctx, self.f, node)
            if sn is n:
                out.append(e)
        return out

    def writes(self, n: N) -> bool:
        return bool(self.effects_at(n))

    def calls_at(self, n: N) -> List[ast.Call]:
        return self.calls.get(n.id, [])

    def calls_resolving_to(self, n: N, quals: Iterable[str]) -> List[ast.Call]:
        qs = set(quals)
        out = []
        for c in self.calls_at(n):
            if any(g.qualname in qs for g, _ in self.ctx.env.callees(self.f, c)):
                out.append(c)
        return out


def stmt_index(ctx: Ctx, f: Func) -> StmtIndex:
    cache = ctx.__dict__.setdefault("_stmt_index_cache", {})
    if f.site not in cache:
        cache[f.site] = StmtIndex(ctx, f)
    return cache[f.site]


# ------------------------------------------------------------------ refusals
def raised_class(st: ast.Raise) -> Optional[str]:
    e = st.exc
    if e is None:
        return None
    if isinstance(e, ast.Call):
        e = e.func
    if isinstance(e, ast.Name):
        return e.id
    if isinstance(e, ast.Attribute):
        return e.attr
    return None


def _names(e: ast.AST) -> Set[str]:
    return {x.id for x in ast.walk(e) if isinstance(x, ast.Name)}


def is_param_assert(f: Func, st: ast.AST) -> bool:
    """assert whose condition mentions a parameter other than self:
    argument validation (asserts over self only are internal beliefs)."""
    if not isinstance(st, ast.Assert):
        return False
    ps = set(f.top.param_names()) - {f.self_name}
    if f.parent is not None:
        ps |= set(f.param_names())
    return bool(_names(st.test) & ps)


def may_refuse_map(ctx: Ctx) -> Dict[Func, str]:
    """Functions that may refuse (raise a library/argument error) — direct or
    through a resolved callee.  Value: a short reason."""
    cached = getattr(ctx, "_may_refuse", None)
    if cached is not None:
        return cached
    env = ctx.env
    out: Dict[Func, str] = {}
    for f in ctx.model.all_funcs():
        in_handler_reraise: Set[int] = set()
        for n in iter_own(f.node):
            if isinstance(n, ast.Raise):
                rc = raised_class(n)
                if rc in REFUSAL_ERRORS:
                    out[f] = f"raise {rc} at L{n.lineno}"
                    break
                if rc is None or rc in ("res", "e"):
                    continue
            elif isinstance(n, ast.Assert) and not f.name.startswith("_") and is_param_assert(f, n):
                out[f] = f"assert on argument at L{n.lineno}"
                break
    changed = True
    while changed:
        changed = False
        for f in ctx.model.all_funcs():
            if f in out:
                continue
            for g in f.nested:
                if g in out:
                    out[f] = f"nested {g.name}: {out[g]}"
                    changed = True
                    break
            if f in out:
                continue
            for c in env.calls_in[f]:
                for g, _ in env.callees(f, c):
                    if g in out and g is not f:
                        out[f] = f"calls {g.qualname} ({out[g].split(' (')[0]})"
                        changed = True
                        break
                if f in out:
                    break
    ctx._may_refuse = out  # type: ignore[attr-defined]
    return out


def list_search_on_param(ctx: Ctx, f: Func, n: N) -> Optional[ast.Call]:
    """`lst.index(x)` / `lst.remove(x)` where x is (derived from) a parameter
    other than self: raises ValueError when absent."""
    if n.ast is None:
        return None
    ps = set(f.top.param_names()) - {f.self_name}
    for c in ast.walk(n.ast) if n.kind == "stmt" else []:
        if isinstance(c, ast.Call) and isinstance(c.func, ast.Attribute) and c.func.attr in ("index", "remove") and c.args:
            if isinstance(c.args[0], ast.Name) and c.args[0].id in ps:
                return c
    return None


def stmt_exprs(n: N) -> List[ast.AST]:
    """Expressions evaluated *at* a CFG node (headers only evaluate their own
    expression, not their bodies)."""
    a = n.ast
    if a is None:
        return []
    if n.kind == "iter":
        return [a.iter]
    if n.kind == "with":
        return [i.context_expr for i in a.items]
    if n.kind == "handler":
        return [a.type] if a.type is not None else []
    if n.kind == "test":
        return [a]
    if isinstance(a, (ast.FunctionDef, ast.AsyncFunctionDef, ast.ClassDef)):
        return []
    return [a]


def walk_node_exprs(n: N):
    for e in stmt_exprs(n):
        for x in ast.walk(e):
            yield x


def is_copy_expr(e: ast.AST) -> bool:
    """list(x), x.copy(), x[:], sorted(x), tuple(x), [.. for ..]"""
    if isinstance(e, ast.Call):
        if isinstance(e.func, ast.Name) and e.func.id in ("list", "tuple", "sorted", "set", "frozenset"):
            return True
        if isinstance(e.func, ast.Attribute) and e.func.attr == "copy" and not e.args:
            return True
    if isinstance(e, ast.Subscript) and isinstance(e.slice, ast.Slice):
        return True
    if isinstance(e, (ast.ListComp, ast.SetComp, ast.List, ast.Tuple)):
        return True
    return False


# ------------------------------------------------------------ path conditions
_FLIP = {ast.IsNot: ast.Is, ast.NotEq: ast.Eq, ast.NotIn: ast.In}


def split_cond(e: ast.AST, pol: bool = True) -> List[Tuple[ast.AST, bool]]:
    """Conjuncts of `e` being truthy (pol) / falsy (not pol), negations pushed
    inwards: [(atom, polarity)].  `a and b` true -> both true; `a or b` false ->
    both false; `not x` flips; `x is not y` -> (`x is y`, False).  A disjunction
    that must be true (or a conjunction that must be false) stays one atom."""
    if isinstance(e, ast.UnaryOp) and isinstance(e.op, ast.Not):
        return split_cond(e.operand, not pol)
    if isinstance(e, ast.BoolOp):
        if isinstance(e.op, ast.And) and pol or isinstance(e.op, ast.Or) and not pol:
            out: List[Tuple[ast.AST, bool]] = []
            for v in e.values:
                out.extend(split_cond(v, pol))
            return out
        return [(e, pol)]
    if isinstance(e, ast.Compare) and len(e.ops) == 1 and type(e.ops[0]) in _FLIP:
        pos = ast.Compare(left=e.left, ops=[_FLIP[type(e.ops[0])]()], comparators=e.comparators)
        ast.copy_location(pos, e)
        pos._orig = e  # type: ignore[attr-defined]
        return [(pos, not pol)]
    return [(e, pol)]


def path_conds(ctx: Ctx, f: Func, node: ast.AST, _depth: int = 0) -> List[Tuple[ast.AST, bool]]:
    """What is known to hold whenever `node` (statement or expression in f's
    own scope, canonical form) is evaluated: atoms with polarity, collected from
    the tests of the enclosing if / while / conditional expressions /
    comprehension filters and from terminating guards (`if c: raise|return|
    continue|break`) that precede it in an enclosing block."""
    from ..canon import terminates

    parent_of = ctx.model.parent_of
    out: List[Tuple[ast.AST, bool]] = []
    child = node
    cur = parent_of(node)
    top = f.node
    while cur is not None and child is not top:
        if isinstance(cur, ast.If):
            if any(child is s for s in cur.body):
                out.extend(split_cond(cur.test, True))
            elif any(child is s for s in cur.orelse):
                out.extend(split_cond(cur.test, False))
        elif isinstance(cur, ast.While):
            if any(child is s for s in cur.body):
                out.extend(split_cond(cur.test, True))
        elif isinstance(cur, ast.IfExp):
            if child is cur.body:
                out.extend(split_cond(cur.test, True))
            elif child is cur.orelse:
                out.extend(split_cond(cur.test, False))
        elif isinstance(cur, ast.BoolOp):
            # `a and b`: b is evaluated only if a is truthy; `a or b`: only if a is falsy
            idx = next((i for i, v in enumerate(cur.values) if v is child), None)
            if idx:
                for v in cur.values[:idx]:
                    out.extend(split_cond(v, isinstance(cur.op, ast.And)))
        elif isinstance(cur, (ast.ListComp, ast.SetComp, ast.GeneratorExp, ast.DictComp)):
            if child is getattr(cur, "elt", None) or child is getattr(cur, "key", None) or child is getattr(cur, "value", None):
                for g in cur.generators:
                    for t in g.ifs:
                        out.extend(split_cond(t, True))
            else:
                # a later `for` clause (or its filters) runs only for items that passed the earlier filters
                for k, g in enumerate(cur.generators):
                    if child is g:
                        for g0 in cur.generators[:k]:
                            for t in g0.ifs:
                                out.extend(split_cond(t, True))
        elif isinstance(cur, ast.comprehension):
            idx = next((i for i, t in enumerate(cur.ifs) if t is child), None)
            if idx:
                for t in cur.ifs[:idx]:
                    out.extend(split_cond(t, True))
        # preceding terminating guards in the block that holds `child`
        for fld in ("body", "orelse", "finalbody"):
            blk = getattr(cur, fld, None)
            if isinstance(blk, list) and any(child is s for s in blk):
                for s in blk:
                    if s is child:
                        break
                    if isinstance(s, ast.If) and not s.orelse and terminates(s.body):
                        out.extend(split_cond(s.test, False))
                    elif isinstance(s, ast.If) and not s.orelse and s.body and isinstance(s.body[-1], ast.If) and not s.body[-1].orelse and terminates(s.body[-1].body):
                        # `if A: ...; if B: return`: whoever gets past it has not (A and B)
                        conj = ast.BoolOp(op=ast.And(), values=[s.test, s.body[-1].test])
                        ast.copy_location(conj, s)
                        out.append((conj, False))
                    elif isinstance(s, ast.Assert):
                        pass
        if isinstance(cur, (ast.FunctionDef, ast.AsyncFunctionDef, ast.Lambda)):
            break
        child, cur = cur, parent_of(cur)
    # flag variables: `v is None` (or `not v`) where the local v is bound only by plain assignments, exactly one of which
    # stores None (a falsy constant) and all others a value that cannot be None (falsy): that one assignment was the
    # last one executed, so what held there holds here (the assignment must not be inside a loop the use is outside of)
    if _depth < 2:
        for e, pol in list(out):
            v = None
            if pol and isinstance(e, ast.Compare) and len(e.ops) == 1 and isinstance(e.ops[0], ast.Is) and isinstance(e.left, ast.Name) \
                    and isinstance(e.comparators[0], ast.Constant) and e.comparators[0].value is None:
                v, mode = e.left.id, "none"
            elif (not pol) and isinstance(e, ast.Name):
                v, mode = e.id, "falsy"
            if v is None:
                continue
            try:
                bs = ctx.env.scope(f).bindings.get(v, [])
            except Exception:
                continue
            if len(bs) < 2 or any(b.kind != "val" or b.expr is None for b in bs):
                continue

            def _is_flag(x: ast.AST) -> bool:
                return isinstance(x, ast.Constant) and (x.value is None if mode == "none" else not x.value)

            def _never_flag(x: ast.AST) -> bool:
                if isinstance(x, ast.JoinedStr):
                    return mode == "none" or any(isinstance(p_, ast.Constant) and p_.value for p_ in x.values)
                if isinstance(x, ast.Constant):
                    return (x.value is not None) if mode == "none" else bool(x.value)
                return False

            flags = [b for b in bs if _is_flag(b.expr)]
            if len(flags) != 1 or not all(_never_flag(b.expr) for b in bs if b is not flags[0]):
                continue
            st = parent_of(flags[0].expr)
            if not isinstance(st, (ast.Assign, ast.AnnAssign)):
                continue
            if parent_of(st) is top:
                # the flag starts as None (falsy) unconditionally and is overwritten where something is wrong: it still is
                # None, so none of the overwriting assignments ran - the conditions of each of them do not all hold
                others = [parent_of(b.expr) for b in bs if b is not flags[0]]
                if all(isinstance(o_, (ast.Assign, ast.AnnAssign)) and getattr(o_, "lineno", 0) > getattr(st, "lineno", 0) for o_ in others):
                    looped = False
                    for o_ in others:
                        q = parent_of(o_)
                        while q is not None and q is not top:
                            if isinstance(q, (ast.For, ast.While, ast.comprehension)):
                                looped = True
                            q = parent_of(q)
                    if not looped:
                        for o_ in others:
                            cs_ = path_conds(ctx, f, o_, _depth=_depth + 1)
                            if len(cs_) == 1:
                                out.append((cs_[0][0], not cs_[0][1]))
                            elif cs_:
                                vals_ = [a_ if p_ else ast.UnaryOp(op=ast.Not(), operand=a_) for a_, p_ in cs_]
                                conj_ = ast.BoolOp(op=ast.And(), values=vals_)
                                ast.copy_location(conj_, o_)
                                for v_ in vals_:
                                    ast.copy_location(v_, o_)
                                out.append((conj_, False))
                continue
            # the assignment is not inside a loop (its last execution is its only one)
            q = parent_of(st)
            in_loop = False
            while q is not None and q is not top:
                if isinstance(q, (ast.For, ast.While, ast.comprehension)):
                    in_loop = True
                q = parent_of(q)
            if in_loop:
                continue
            for a_, p_ in path_conds(ctx, f, st, _depth=_depth + 1):
                out.append((a_, p_))
    # unit resolution: not (A and B) with A known -> not B;  (A or B) with not A known -> B
    for _ in range(8):
        known = {(norm(e), pol) for e, pol in out}
        added = False
        for e, pol in list(out):
            if isinstance(e, ast.BoolOp) and ((isinstance(e.op, ast.And) and not pol) or (isinstance(e.op, ast.Or) and pol)):
                want = isinstance(e.op, ast.And)  # conjuncts known true / disjuncts known false
                open_ = []
                for v in e.values:
                    atoms = split_cond(v, want)
                    if all((norm(a), p) in known for a, p in atoms):
                        continue
                    open_.append(v)
                if len(open_) == 1:
                    for a, p in split_cond(open_[0], not want):
                        if (norm(a), p) not in known:
                            out.append((a, p))
                            known.add((norm(a), p))
                            added = True
        if not added:
            break
    return out


def cond_texts(conds: List[Tuple[ast.AST, bool]]) -> Set[str]:
    """{'x is None', 'not isinstance(before, int)', ...} - polarity folded into the text."""
    return {(norm(e) if pol else "not " + (norm(e) if isinstance(e, (ast.Name, ast.Attribute, ast.Call, ast.Subscript, ast.Constant)) else f"({norm(e)})")) for e, pol in conds}


def holds(conds: List[Tuple[ast.AST, bool]], pattern: str, pol: bool = True, env=None) -> Optional[Dict[str, object]]:
    """Bindings if some atom matches `pattern` with polarity `pol`."""
    from ..pat import match

    for e, p in conds:
        if p is pol:
            r = match(pattern, e, env)
            if r is not None:
                return r
    return None


# ------------------------------------------------------------------ exit cases
class Case:
    """One way a function hands something back: `return v` / `yield v` /
    `raise e`, with the path conditions under which the statement runs."""

    __slots__ = ("kind", "stmt", "value", "conds")

    def __init__(self, kind: str, stmt: ast.AST, value: Optional[ast.AST], conds: List[Tuple[ast.AST, bool]]):
        self.kind, self.stmt, self.value, self.conds = kind, stmt, value, conds

    def __repr__(self) -> str:  # pragma: no cover - debugging
        return f"<{self.kind} {norm(self.value) if self.value is not None else None} when {sorted(cond_texts(self.conds))}>"


def exit_cases(ctx: Ctx, f: Func, kinds: Tuple[str, ...] = ("return", "raise", "yield")) -> List[Case]:
    out: List[Case] = []
    for n in iter_own(f.node):
        if isinstance(n, ast.Return) and "return" in kinds:
            out.append(Case("return", n, n.value, path_conds(ctx, f, n)))
        elif isinstance(n, ast.Raise) and "raise" in kinds:
            out.append(Case("raise", n, n.exc, path_conds(ctx, f, n)))
        elif isinstance(n, (ast.Yield, ast.YieldFrom)) and "yield" in kinds:
            out.append(Case("yield", n, n.value, path_conds(ctx, f, n)))
    return out


def find_cases(cases: List[Case], kind: str, value: Optional[str] = None, when: Iterable[Tuple[str, bool]] = (), env=None) -> List[Tuple[Case, Dict[str, object]]]:
    """Cases of `kind` whose value matches the pattern `value` and whose path
    conditions contain an atom for every (pattern, polarity) in `when`;
    metavariables are shared between value and conditions."""
    from ..pat import match

    res = []
    for c in cases:
        if c.kind != kind:
            continue
        e: Optional[Dict[str, object]] = dict(env or {})
        if value is not None:
            if c.value is None:
                continue
            e = match(value, c.value, e)
            if e is None:
                continue
        ok = True
        for pt, pol in when:
            hit = None
            for atom, p in c.conds:
                if p is pol:
                    hit = match(pt, atom, e)
                    if hit is not None:
                        break
            if hit is None:
                ok = False
                break
            e = hit
        if ok:
            res.append((c, e or {}))
    return res


def stmts_before(ctx: Ctx, f: Func, node: ast.AST) -> List[ast.stmt]:
    """Statements that have run (in this iteration / call) before `node`:
    earlier siblings in every enclosing block, innermost first."""
    parent_of = ctx.model.parent_of
    out: List[ast.stmt] = []
    child = node
    cur = parent_of(node)
    while cur is not None:
        for fld in ("body", "orelse", "finalbody"):
            blk = getattr(cur, fld, None)
            if isinstance(blk, list) and any(child is s for s in blk):
                for s in blk:
                    if s is child:
                        break
                    out.append(s)
        if cur is f.node or isinstance(cur, (ast.FunctionDef, ast.AsyncFunctionDef, ast.Lambda)):
            break
        child, cur = cur, parent_of(cur)
    return out


def local_value(ctx: Ctx, f: Func, e: ast.AST, depth: int = 3) -> ast.AST:
    """A plain local with exactly one value binding stands for that value."""
    while depth > 0 and isinstance(e, ast.Name):
        bs = [b for b in ctx.env.scope(f).bindings.get(e.id, []) if b.kind == "val" and b.expr is not None]
        if len(bs) != 1 or e.id in f.param_names():
            break
        e = bs[0].expr
        depth -= 1
    return e


def reaching_values(ctx: Ctx, f: Func, at: ast.AST, e: ast.AST) -> List[ast.AST]:
    """Value expressions a plain local may hold at `at` (reaching definitions
    on the CFG); the expression itself when it is not a local or unknown."""
    if isinstance(e, ast.Name) and e.id not in f.param_names():
        r = ctx.env.reaching(f, at, e.id)
        if r is not None and r[0]:
            return list(r[0])
    return [e]


def find_under(ctx: Ctx, f: Func, pattern: str, when: Iterable[Tuple[str, bool]] = (), env=None, root: Optional[ast.AST] = None) -> List[Tuple[ast.AST, Dict[str, object]]]:
    """Constructs of f matching `pattern` that are evaluated only under the
    given conditions ((atom pattern, polarity) each found among the path
    conditions); metavariables are shared."""
    from ..pat import find, match

    out = []
    for n, e in find(pattern, root if root is not None else f.node, env):
        pcs = path_conds(ctx, f, n)
        ok = True
        for pt, pol in when:
            hit = None
            for atom, p in pcs:
                if p is pol:
                    hit = match(pt, atom, e)
                    if hit is not None:
                        break
            if hit is None:
                ok = False
                break
            e = hit
        if ok:
            out.append((n, e))
    return out


# --------------------------------------------------------------- order on the CFG
def always_before(ctx: Ctx, f: Func, a: ast.AST, b: ast.AST) -> bool:
    """Every path from the function entry to construct `b` has evaluated
    construct `a` first (statement granularity; dominance on the CFG)."""
    cfg = ctx.cfg(f)
    na, nb = cfg.stmt_node_of(a, ctx.model.parent_of), cfg.stmt_node_of(b, ctx.model.parent_of)
    if na is None or nb is None:
        return False
    if na is nb:
        # same statement: order inside the expression (left to right, test before body)
        pa = [getattr(a, "lineno", 0), getattr(a, "col_offset", 0)]
        pb = [getattr(b, "lineno", 0), getattr(b, "col_offset", 0)]
        return pa <= pb
    return cfg.dominated_by(nb, lambda n: n is na)


def never_after(ctx: Ctx, f: Func, a: ast.AST, b: ast.AST) -> bool:
    """No path leads from construct `a` to construct `b` (b is never evaluated
    once a has been)."""
    cfg = ctx.cfg(f)
    na, nb = cfg.stmt_node_of(a, ctx.model.parent_of), cfg.stmt_node_of(b, ctx.model.parent_of)
    if na is None or nb is None:
        return False
    if na is nb:
        return False
    return cfg.find_path(na, nb, strict=True) is None


def resolve_expr(ctx: Ctx, f: Func, at: ast.AST, e: ast.AST, depth: int = 4, keep: Iterable[str] = ()) -> ast.AST:
    """Copy of `e` in which every plain local that has exactly one reaching
    value at `at` is replaced by that value (recursively): the expression as it
    would read with all single-definition locals inlined.  Only for matching."""
    import copy as _copy

    params = set(f.param_names()) | (set(f.top.param_names()) if f.parent is not None else set()) | set(keep)

    parent_of = ctx.model.parent_of

    def res(x: ast.AST, d: int, here: ast.AST) -> ast.AST:
        class T(ast.NodeTransformer):
            def visit_Name(self, node: ast.Name):
                if isinstance(node.ctx, ast.Load) and node.id not in params and d > 0:
                    r = ctx.env.reaching(f, here, node.id)
                    if r is not None and len(r[0]) == 1 and not r[1]:
                        v = r[0][0]
                        if not isinstance(v, (ast.List, ast.Dict, ast.Set)) or getattr(v, "elts", getattr(v, "keys", [1])):
                            # names inside the value are read where the value was computed
                            where = v
                            while where is not None and not isinstance(where, ast.stmt):
                                where = parent_of(where)
                            return res(_copy.deepcopy(v), d - 1, where if where is not None else here)
                return node

            def visit_Lambda(self, node):
                return node

        return T().visit(x)

    return res(_copy.deepcopy(e), depth, at)


def loop_var_iter(ctx: Ctx, f: Func, name: str) -> List[ast.AST]:
    """iter expressions of the for-loops / comprehensions of f that bind `name`."""
    out = []
    for n in iter_own(f.node):
        if isinstance(n, (ast.For, ast.comprehension)) and any(isinstance(x, ast.Name) and x.id == name for x in ast.walk(n.target)):
            out.append(n.iter)
    return out


def not_after(ctx: Ctx, f: Func, a: ast.AST, b: ast.AST) -> bool:
    """Within one round of every loop that encloses both, construct `a` is never
    evaluated after construct `b` (statement granularity; inside one statement,
    source order).  Use for "x happens before y whenever both happen"."""
    cfg = ctx.cfg(f)
    parent_of = ctx.model.parent_of
    na, nb = cfg.stmt_node_of(a, parent_of), cfg.stmt_node_of(b, parent_of)
    if na is None or nb is None:
        return False
    if na is nb:
        # inside one statement: evaluation order of the expression tree (operands before the operation, left to right),
        # not source positions - inlined helper bodies carry the position of the call they replaced
        order: Dict[int, int] = {}

        def post(n: ast.AST) -> None:
            kids = list(ast.iter_child_nodes(n))
            if isinstance(n, (ast.ListComp, ast.SetComp, ast.GeneratorExp)):
                kids = list(n.generators) + [n.elt]
            elif isinstance(n, ast.DictComp):
                kids = list(n.generators) + [n.key, n.value]
            for k in kids:
                post(k)
            order[id(n)] = len(order)

        root = na.ast if getattr(na, "ast", None) is not None else None
        if root is not None and any(a is x for x in ast.walk(root)) and any(b is x for x in ast.walk(root)):
            post(root)
            return order[id(a)] <= order[id(b)]
        return (getattr(a, "lineno", 0), getattr(a, "col_offset", 0)) <= (getattr(b, "lineno", 0), getattr(b, "col_offset", 0))
    hdrs = []
    p = parent_of(a)
    while p is not None and p is not f.node:
        if isinstance(p, (ast.For, ast.While, ast.AsyncFor)) and any(b is x for x in ast.walk(p)):
            h = cfg.node_for(p) or cfg.node_for(getattr(p, "test", None))
            if h is not None:
                hdrs.append(h)
        p = parent_of(p)
    return cfg.find_path(nb, na, avoid=lambda n: any(n is h for h in hdrs), strict=True) is None


def cond_texts_resolved(ctx: Ctx, f: Func, at: ast.AST, conds: List[Tuple[ast.AST, bool]], keep: Iterable[str] = ()) -> Set[str]:
    """cond_texts with single-definition locals inside the atoms replaced by what they stand for."""
    return cond_texts([(resolve_expr(ctx, f, at, e, keep=keep), pol) for e, pol in conds])


def stands_for_params(ctx: Ctx, f: Func, name: str, depth: int = 2) -> Set[str]:
    """Parameters of f (other than self) that the local `name` may hold unchanged: `name` itself if it is a parameter,
    else the parameters among the right-hand sides of its plain assignments (`pos = before`, one branch of several)."""
    params = set(f.top.param_names()) - {f.self_name}
    if name in params:
        return {name}
    out: Set[str] = set()
    if depth <= 0:
        return out
    for b in ctx.env.scope(f).bindings.get(name, []):
        if b.kind == "val" and isinstance(b.expr, ast.Name):
            out |= stands_for_params(ctx, f, b.expr.id, depth - 1)
    return out


# ------------------------------------------------------------------ new options
def new_params(f: Func) -> Set[str]:
    """Parameters of f that the reference tree's f does not have (a *new option* added by a feature commit).  What a
    new option does when it is used is not stated by any property; the pin rules read the behaviour with every new option
    at its default.  Empty for functions the reference does not have."""
    from ..known_funcs import KNOWN_PARAMS

    ref = KNOWN_PARAMS.get(f"{f.top.module}:{f.top.qualname}")
    if ref is None:
        return set()
    return {p for p in f.top.param_names() if p not in ref and p != f.top.self_name}


def only_with_new_option(f: Func, conds: List[Tuple[ast.AST, bool]]) -> bool:
    """The path conditions require a new option of f to differ from its default (falsy default and the option is tested
    truthy; default None and the option is tested `is not None`): the statement never runs for a call the reference accepts."""
    np_ = new_params(f)
    if not np_:
        return False
    for e, pol in conds:
        if isinstance(e, ast.Name) and e.id in np_ and pol:
            d = f.top.param_default(e.id)
            if d is not None and isinstance(d, ast.Constant) and not d.value:
                return True
        if isinstance(e, ast.Compare) and len(e.ops) == 1 and isinstance(e.left, ast.Name) and e.left.id in np_ \
                and isinstance(e.comparators[0], ast.Constant) and e.comparators[0].value is None:
            d = f.top.param_default(e.left.id)
            if d is not None and isinstance(d, ast.Constant) and d.value is None:
                if (isinstance(e.ops[0], ast.Is) and not pol) or (isinstance(e.ops[0], ast.IsNot) and pol):
                    return True
    return False


def strip_new_options(f: Func, call: ast.AST) -> ast.AST:
    """`call` without the keyword arguments that merely hand on a new option of f (`g(x, flag=flag)` with `flag` a
    parameter the reference's f does not have): with the option at its default this is the reference's call, provided
    the callee's default is the same - which LSP-SIG / the callee's own clauses look at."""
    np_ = new_params(f)
    if not np_ or not isinstance(call, ast.Call):
        return call
    kws = [k for k in call.keywords if not (k.arg is not None and isinstance(k.value, ast.Name) and k.value.id in np_)]
    if len(kws) == len(call.keywords):
        return call
    c2 = ast.Call(func=call.func, args=call.args, keywords=kws)
    ast.copy_location(c2, call)
    return c2
