"""Sibling cross-checks and copy rules (DESIGN 3.5, 3.7)."""
from __future__ import annotations

import ast
from typing import Dict, FrozenSet, List, Optional, Set, Tuple

from ..cfg import N, describe_path
from ..core import Ctx, Ob, rule
from ..infer import NODE, NODECLS, TREECLS
from ..model import AnalysisError, Func, iter_own, norm
from .trav import _if_chain


def _rename(text: str, mapping: Dict[str, str]) -> str:
    import re

    for a, b in mapping.items():
        text = re.sub(rf"\b{re.escape(a)}\b", b, text)
    return text


# ------------------------------------------------------------------- SIB-ADD
def _same_parent_refusal(ctx: Ctx, f: Func):
    """(raise statement, atom `<src>._parent is <x>`, all path conditions) of the
    refusal that rejects adding a node below its own parent."""
    from ..pat import match
    from .util import path_conds, raised_class

    for n in iter_own(f.node):
        if isinstance(n, ast.Raise) and raised_class(n) == "UniqueConstraintError":
            pcs = path_conds(ctx, f, n)
            for e, pol in pcs:
                if pol and (match("$$s._parent is $$x", e) is not None or match("$$s.parent is $$x", e) is not None or match("$$x is $$s._parent", e) is not None
                            or match("$$s._parent == $$x", e) is not None or match("$$s.parent == $$x", e) is not None):
                    return n, e, pcs
    return None


def _direct_operand(e: ast.AST, name: str) -> bool:
    """`name` itself (not an attribute of it) is compared / type-tested in e."""
    if isinstance(e, ast.Compare):
        return any(isinstance(x, ast.Name) and x.id == name for x in [e.left] + list(e.comparators))
    if isinstance(e, ast.Call) and isinstance(e.func, ast.Name) and e.func.id in ("isinstance", "callable", "bool"):
        return bool(e.args) and isinstance(e.args[0], ast.Name) and e.args[0].id == name
    if isinstance(e, ast.BoolOp):
        return any(_direct_operand(v, name) for v in e.values)
    return isinstance(e, ast.Name) and e.id == name


def _before_table(ctx: Ctx, f: Func) -> Dict[str, str]:
    """The dispatch on `before` that links the new node: case -> canonical
    action.  Cases are read off the path conditions of every statement that
    puts the new node into self's child list (L = that list)."""
    from ..pat import find, match
    from .util import path_conds

    def is_L(e: ast.AST) -> bool:
        if match("self._children", e) is not None:
            return True
        if isinstance(e, ast.Name):
            sc = ctx.env.scope(f)
            return any(b.kind == "val" and b.expr is not None and match("self._children", b.expr) is not None for b in sc.bindings.get(e.id, []))
        return False

    acts: List[Tuple[ast.stmt, str]] = []
    for n in iter_own(f.node):
        if not isinstance(n, (ast.Assign, ast.Expr)):
            continue
        e = match("self._children = [$node]", n)
        if e is not None:
            acts.append((n, "self._children = [node]"))
            continue
        e = match("$$L.insert($$i, $node)", n)
        if e is not None and is_L(e["$$L"]):
            i = e["$$i"]
            if match("0", i) is not None:
                acts.append((n, "L.insert(0, node)"))
            elif match("before", i) is not None:
                acts.append((n, "L.insert(before, node)"))
            elif (m_ := match("len($$L2)", i)) is not None and is_L(m_["$$L2"]):
                acts.append((n, "L.append(node)"))  # insert at the end
            else:
                iv = i
                if isinstance(i, ast.Name):
                    sc = ctx.env.scope(f)
                    bs = [b for b in sc.bindings.get(i.id, []) if b.kind == "val" and b.expr is not None]
                    if len(bs) == 1:
                        iv = bs[0].expr
                    elif len(bs) > 1:
                        # one insert fed by an index computed case by case: a different algorithm, not read by this table
                        raise AnalysisError(f"{f.qualname}: the insert position is computed into `{i.id}` by several assignments")
                good = (m := match("_index_of($$L, before)", iv)) is not None and is_L(m["$$L"])
                eq = (m := match("$$L.index(before)", iv)) is not None and is_L(m["$$L"])
                acts.append((n, "idx = position of before in L; L.insert(idx, node)" if good else ("idx = L.index(before) [==]; L.insert(idx, node)" if eq else f"L.insert({norm(i)}, node)")))
            continue
        e = match("$$L.append($node)", n)
        if e is not None and is_L(e["$$L"]):
            acts.append((n, "L.append(node)"))
    if not acts:
        raise AnalysisError(f"{f.qualname}: position dispatch not recognised")
    table: Dict[str, str] = {}
    for st, act in acts:
        pcs = path_conds(ctx, f, st)
        pos = []
        for e, pol in pcs:
            if not pol:
                continue
            m = match("$$L is None", e)
            if m is not None and is_L(m["$$L"]):
                pos.append("L is None")
            elif match("before is True", e) is not None:
                pos.append("before is True")
            elif match("isinstance(before, int)", e) is not None or match("isinstance(before, (int,))", e) is not None:
                pos.append("isinstance(before, int)")
            elif match("before", e) is not None or match("isinstance(before, Node)", e) is not None:
                pos.append("before")
            elif _direct_operand(e, "before"):
                pos.append(norm(e))
        if "L is None" in pos:
            pos = ["L is None"]  # the first child: every position means the same
        if "before is True" in pos and "isinstance(before, int)" in pos:
            pos.remove("isinstance(before, int)")  # True is an int: the narrower case names the branch
        key = pos[0] if len(pos) == 1 else ("else" if not pos else " and ".join(sorted(pos)))
        if key in table and table[key] != act:
            table[key] = table[key] + " | " + act
        else:
            table[key] = act
    # `before is True` may be folded into the int case by rebinding before = 0 first
    for n, _e in find("before = 0", f.node):
        if any(pol and match("before is True", e) is not None for e, pol in path_conds(ctx, f, n)):
            table.setdefault("before is True", "L.insert(0, node)")
    return table


@rule("SIB-ADD", ["C03", "C04", "C05", "C07"], floor=8, section="3.7")
def sib_add(ctx: Ctx) -> List[Ob]:
    """Node.add_child and TypedNode.add_child agree on the same-parent refusal and realise the documented `before` dispatch (None->append, True->0, int->insert, node->insert at its position)"""
    from ..pat import find as _find, match as _match
    from .util import path_conds

    obs: List[Ob] = []
    m = ctx.model
    fa, fb = m.func("Node.add_child"), m.func("TypedNode.add_child")
    ra, rb = _same_parent_refusal(ctx, fa), _same_parent_refusal(ctx, fb)
    if ra is None or rb is None:
        raise AnalysisError("add_child: same-parent refusal not found")
    shapes = []
    for f, (st, atom, pcs) in ((fa, ra), (fb, rb)):
        t = norm(atom)
        ok = _match("$$s._parent is self", atom) is not None or _match("$$s.parent is self", atom) is not None
        obs.append(ctx.ob("SIB-ADD", ["C03", "C05", "C07"], f, "same-parent refusal tests `<source>._parent is self`", atom, ok,
                          "" if ok else f"`{t}`: the copy becomes a child of `self`, so the refusal must test `source._parent is self`; "
                          "`is self._parent` refuses a legal add below a sibling (load() of a clone stored below a sibling of its first "
                          "occurrence fails) and misses the real conflict"))
        # the other conditions the refusal depends on, with the source variable abstracted
        src = (_match("$$s._parent is $$x", atom) or _match("$$s.parent is $$x", atom) or {}).get("$$s")
        srct = norm(src) if src is not None else "?"
        from .util import resolve_expr as _rx

        rest = sorted(("" if pol else "not ") + _rename(norm(_rx(ctx, f, st, e, keep=[srct])), {srct: "SRC"}) for e, pol in pcs
                      if e is not atom and any(isinstance(x, ast.Name) and x.id == srct for x in ast.walk(e))
                      and not norm(e).startswith("isinstance(")  # (the dispatch on the argument's type is not part of the refusal)
                      and not (isinstance(e, ast.Compare) and len(e.ops) == 1 and isinstance(e.ops[0], (ast.Is, ast.IsNot)) and isinstance(e.comparators[0], ast.Constant)
                               and e.comparators[0].value is None))  # (... nor is "there is a source node at all")
        shapes.append(rest)
    ok = shapes[0] == shapes[1]
    obs.append(ctx.ob("SIB-ADD", ["C03"], fa, "both add_child implementations refuse the same condition", ra[1], ok,
                      "" if ok else f"Node: `{shapes[0]}` vs TypedNode: `{shapes[1]}`"))
    want = {
        "L is None": "self._children = [node]",
        "before is True": "L.insert(0, node)",
        "isinstance(before, int)": "L.insert(before, node)",
        "before": "idx = position of before in L; L.insert(idx, node)",
        "else": "L.append(node)",
    }
    for f in (fa, fb):
        try:
            tb = _before_table(ctx, f)
        except AnalysisError as e_:
            obs.append(ctx.tri("SIB-ADD", ["C04"], f, "position dispatch on `before` (None/False->append, True->0, int->insert, node->insert at its position)", None, None, str(e_)))
            continue
        for case, act in want.items():
            got = tb.get(case)
            ok = got == act
            obs.append(ctx.ob("SIB-ADD", ["C04"], f, f"position `{case}` -> {act}", None, ok,
                              "" if ok else f"got `{got}`: the new node does not land at the documented place"))
        # `False` is an int: it must be normalised to "append" before the int case
        ok = any(any(pol and _match("before is False", e) is not None for e, pol in path_conds(ctx, f, n)) for n, _e in _find("before = None", f.node))
        obs.append(ctx.ob("SIB-ADD", ["C04"], f, "position `before is False` -> append (False is normalised before the int case)", None, ok,
                          "" if ok else "isinstance(False, int) is true: before=False is inserted at index 0 although it is documented to append"))
        # whole-tree argument: the top nodes are reversed only when they are inserted at a fixed index
        revs = [rn for rn, _e in _find("$$t.reverse()", f.node)] + [rn for rn, _e in _find("reversed($$t)", f.node)] + [rn for rn, _e in _find("$$t[::-1]", f.node)]
        for rn in revs:
            pcs = path_conds(ctx, f, rn)
            texts = [("" if pol else "not ") + norm(e) for e, pol in pcs if any(isinstance(x, ast.Name) and x.id == "before" for x in ast.walk(e))]
            is_int = any(pol and (_match("isinstance(before, int)", e) is not None or _match("isinstance(before, (int,))", e) is not None) for e, pol in pcs)
            is_node = any(pol and "Node" in norm(e) for e, pol in pcs)
            # guards that a node-valued `before` passes as well: witnessed too weak
            weak = all(t in ("not before is None", "before is not None", "before", "not before is False", "before is not False") for t in texts)
            # `type(before) is int` leaves out before=True, which is an index (0) as well
            exact = any("type(before)" in t for t in texts)
            ok = True if is_int and not is_node else (False if is_node or weak or exact else None)
            obs.append(ctx.tri("SIB-ADD", ["C07", "C04"], f, "add_child(tree, before=...): the top nodes are reversed only for a fixed index position", rn, ok,
                               "" if ok else f"`{texts}`: inserting every node before the same *node* already keeps their order; reversing first "
                               "adds them in reverse order (and before=False must not count as an index)"))
        # (a case that spells out a documented value separately, with the documented action, is not an extra case)
        spelled = {"before is None": "L.append(node)", "before is False": "L.append(node)", "before is None or before is False": "L.append(node)",
                   "before is False or before is None": "L.append(node)"}
        extra = {k for k in set(tb) - set(want) if not (k in spelled and tb[k] == spelled[k])}
        obs.append(ctx.ob("SIB-ADD", ["C04"], f, "no undocumented position case", None, not extra, "" if not extra else f"extra cases {sorted(extra)}"))
    return obs


# ---------------------------------------------------------------- SIB-FILTER
VERDICTS = ["falsy", "true", "select", "skip_keep_self", "skip", "stop"]


_ALLV = frozenset({"falsy", "true", "select", "stop", "skip_keep_self", "skip"})


def _atom_verdicts(t: str) -> Optional[FrozenSet[str]]:
    """Verdict classes for which the atom (text, verdict variable written `res`) is true; None: not a verdict atom."""
    if t in ("res in (None, False)", "res in (False, None)", "res is None or res is False", "res is False or res is None", "not res"):
        return frozenset({"falsy"})
    if t in ("res is None", "res is False"):
        return frozenset({"falsy"})  # (each is one half of the falsy verdict)
    if t == "res is True":
        return frozenset({"true"})
    if t == "isinstance(res, SelectBranch)":
        return frozenset({"select"})
    if t == "isinstance(res, StopTraversal)":
        return frozenset({"stop"})
    if t == "isinstance(res, SkipBranch)":
        return frozenset({"skip_keep_self", "skip"})
    if t == "res.and_self is False":
        return _ALLV - {"skip"}
    if t == "res.and_self is True":
        return _ALLV - {"skip_keep_self"}
    if t == "res":
        return _ALLV - {"falsy"}
    return None


def _verdicts_of(ctx: Ctx, f: Func, node: ast.AST, resv: str) -> Tuple[Set[str], List[Tuple[ast.AST, bool]]]:
    """Verdict classes under which `node` runs: the intersection, over its path
    conditions on the verdict variable, of the classes each condition admits
    (a disjunction admits the union of its disjuncts); plus the remaining
    (non-verdict) conditions.  Conditions on the verdict that are not
    understood come back as '?<text>' classes."""
    from .util import path_conds
    import re as _re

    def txt(e: ast.AST) -> str:
        t = norm(e)
        return _re.sub(rf"\b{_re.escape(resv)}\b", "res", t) if resv != "res" else t

    def classes(e: ast.AST) -> Optional[FrozenSet[str]]:
        if isinstance(e, ast.BoolOp):
            parts = [classes(v) for v in e.values]
            if any(p is None for p in parts):
                return None
            out = set(parts[0])
            for p in parts[1:]:
                out = (out | p) if isinstance(e.op, ast.Or) else (out & p)
            return frozenset(out)
        if isinstance(e, ast.UnaryOp) and isinstance(e.op, ast.Not):
            c = classes(e.operand)
            return None if c is None else _ALLV - c
        return _atom_verdicts(txt(e))

    allowed: Set[str] = set(_ALLV)
    rest: List[Tuple[ast.AST, bool]] = []
    unknown: Set[str] = set()
    constrained = False
    for e, pol in path_conds(ctx, f, node):
        t = txt(e)
        if t == "res.and_self":
            unknown.add(("not " if not pol else "") + "res.and_self  [truthiness: the default SkipBranch() has and_self=None, which must drop the node]")
            continue
        c = classes(e)
        if c is None:
            if "res" in [x.id for x in ast.walk(e) if isinstance(x, ast.Name)] or resv in [x.id for x in ast.walk(e) if isinstance(x, ast.Name)]:
                if pol:
                    unknown.add(t)
            else:
                rest.append((e, pol))
            continue
        constrained = True
        allowed &= (c if pol else (_ALLV - c))
    out: Set[str] = set(allowed) if (constrained or not unknown) else set()
    out |= {"?" + u for u in unknown}
    return out, rest


def _is_rec(x: ast.AST, rec: str, lv: str) -> bool:
    """`rec(lv)` (closure) or `lv.rec(...)` (method): the walker recursing on the loop variable."""
    if not isinstance(x, ast.Call):
        return False
    if isinstance(x.func, ast.Name) and x.func.id == rec and x.args and norm(x.args[0]) == lv:
        return True
    return isinstance(x.func, ast.Attribute) and x.func.attr == rec and norm(x.func.value) == lv


def _filter_table(ctx: Ctx, f: Func, lp: ast.For, kind: str, N: Dict[str, str]) -> Dict[str, Set[str]]:
    """verdict class -> set of actions the loop body performs for it."""
    from ..pat import match

    lv = lp.target.id
    resv = N["res"]
    table: Dict[str, Set[str]] = {}

    def add(node: ast.AST, flag: str, need_rec: Optional[bool] = None) -> None:
        vs, rest = _verdicts_of(ctx, f, node, resv)
        rec_conds = [(pol) for e, pol in rest if _is_rec(e, N['rec'], lv)]
        if not rec_conds:
            # `lv._children and rec(lv)` as one (negated) atom: the walk of a childless node is vacuous, so the guard
            # does not change the walker's answer
            for e, pol in rest:
                if isinstance(e, ast.BoolOp) and isinstance(e.op, ast.And) and any(_is_rec(v, N['rec'], lv) for v in e.values) and all(
                        _is_rec(v, N['rec'], lv) or norm(v) in (f"{lv}._children", f"{lv}.children", f"{lv}.has_children()") for v in e.values):
                    rec_conds.append(pol)
        if need_rec is not None:
            if not rec_conds or rec_conds[0] is not need_rec:
                return
        elif rec_conds and flag in ("keeps_self", "drops_self"):
            return  # handled as keeps_if_descendant
        for v in vs:
            table.setdefault(v, set()).add(flag)

    inside = [x for st in lp.body for x in ast.walk(st)]
    for x in inside:
        if isinstance(x, ast.Raise):
            add(x, "stops")
        if _is_rec(x, N['rec'], lv):
            add(x, "descends")
        if isinstance(x, (ast.Continue, ast.Break, ast.Return)) and kind == "copy":
            add(x, "BUG:leaves the loop body early")
    if kind == "inplace":
        keep, acc = N["keep"], N["acc"]
        for x in inside:
            if isinstance(x, ast.Assign) and match(f"{keep} = True", x) is not None:
                add(x, "keeps_self")
                add(x, "keeps_if_descendant:keep", need_rec=True)
            if isinstance(x, ast.Call) and match(f"{acc}.append({lv})", x) is not None:
                add(x, "drops_self")
                add(x, "keeps_if_descendant:drop", need_rec=False)
            if isinstance(x, (ast.Call, ast.AugAssign)) and any(match(p_, x) is not None for p_ in (
                    f"{acc}.extend({lv}.children)", f"{acc} += {lv}.children", f"{acc}.extend({lv}._children or ())",
                    f"{acc}.extend({lv}.children.copy())", f"{acc}.extend(list({lv}.children))", f"{acc}.extend({lv}._children)")):
                add(x, "drops_children")
            if isinstance(x, ast.Assign) and match(f"{acc} = {lv}.children", x) is not None:
                add(x, "drops_children")
                add(x, "BUG:rebinds accumulator")
            if isinstance(x, ast.For) and x is not lp and any(isinstance(y, ast.Call) and isinstance(y.func, ast.Attribute) and y.func.attr == "remove" for y in ast.walk(x)):
                add(x, "BUG:removes while iterating the live child list")
        for v, fl in table.items():
            if {"keeps_if_descendant:keep", "keeps_if_descendant:drop"} <= fl:
                fl.add("keeps_if_descendant")
            fl.discard("keeps_if_descendant:keep")
            fl.discard("keeps_if_descendant:drop")
    else:
        mat = N["materialise"]
        for x in inside:
            if isinstance(x, ast.Call) and match(f"{mat}()", x) is not None:
                add(x, "keeps_self")
            if isinstance(x, ast.Call) and match(f"$$p._add_from({lv})", x) is not None:
                add(x, "whole_branch")
    return table


@rule("SIB-FILTER", ["C08"], floor=10, section="3.7")
def sib_filter(ctx: Ctx) -> List[Ob]:
    """Node.filter (in place) and Node._add_filtered (copy) realise the same, documented verdict table: True keeps+descends, False/None descends and keeps on an accepted descendant, SelectBranch keeps the branch, SkipBranch drops node and branch, SkipBranch(and_self=False) keeps the node (with its ancestors) and drops its descendants, StopTraversal stops"""
    obs: List[Ob] = []
    m = ctx.model
    fi = m.func("Node.filter._visit")
    fc = m.func("Node._add_filtered._visit")

    def loop_of(f):
        lps = [n for n in iter_own(f.node) if isinstance(n, ast.For) and "children" in norm(n.iter) and isinstance(n.target, ast.Name)]
        if not lps:
            raise AnalysisError(f"{f.qualname}: child loop not found")
        return lps[0]

    li, lc = loop_of(fi), loop_of(fc)
    want_inplace = {
        "falsy": {"descends", "keeps_if_descendant"},
        "true": {"descends", "keeps_self"},
        "select": {"keeps_self"},
        "skip_keep_self": {"keeps_self", "drops_children"},
        "skip": {"drops_self"},
        "stop": {"stops"},
    }
    want_copy = {
        "falsy": {"descends"},
        "true": {"descends", "keeps_self"},
        "select": {"keeps_self", "whole_branch"},
        "skip_keep_self": {"keeps_self"},
        "skip": set(),
        "stop": {"stops"},
    }
    from ..pat import find, one

    def res_var(f, lp):
        for st in lp.body:
            for x in ast.walk(st):
                if isinstance(x, ast.Assign) and isinstance(x.value, ast.Call) and norm(x.value.func) == "call_predicate" and isinstance(x.targets[0], ast.Name):
                    return x.targets[0].id
        raise AnalysisError(f"{f.qualname}: verdict variable (`res = call_predicate(...)`) not found")

    # witness: the verdict does not come from asking the predicate about *this* node, but from a table filled by an
    # earlier call (memoised per data_id / per key): two nodes that share the key get one answer
    for f, lp in ((fi, li), (fc, lc)):
        for st in lp.body:
            for x in ast.walk(st):
                if not (isinstance(x, ast.Assign) and isinstance(x.value, ast.Call) and len(x.targets) == 1 and isinstance(x.targets[0], ast.Name)):
                    continue
                cal = x.value
                gs = [g for g, _ in ctx.env.callees(f, cal)] if norm(cal.func) != "call_predicate" else []
                for g in gs:
                    body = list(ast.walk(g.node))
                    asks = any(isinstance(y, ast.Call) and norm(y.func) == "call_predicate" for y in body)
                    table_read = any((isinstance(y, ast.Subscript) and isinstance(y.ctx, ast.Load) and isinstance(y.value, ast.Name)) or
                                     (isinstance(y, ast.Call) and isinstance(y.func, ast.Attribute) and y.func.attr == "get" and isinstance(y.func.value, ast.Name)) for y in body)
                    table_write = any(isinstance(y, ast.Subscript) and isinstance(y.ctx, ast.Store) and isinstance(y.value, ast.Name) for y in body)
                    if asks and table_read and table_write:
                        obs.append(ctx.ob("SIB-FILTER", ["C08"], f, "predicate evaluated once per child via call_predicate", x, False,
                                          f"`{norm(x)}`: {g.qualname} answers from a table it filled on an earlier call: nodes that share the key (clones) get the verdict "
                                          "of the first one, although the predicate may decide by position"))
                        return obs
    # ... or the predicate itself is wrapped, on its way to the walkers, by something that answers from such a table
    def _memoising(g) -> bool:
        body = list(ast.walk(g.node))
        asks = any(isinstance(y, ast.Call) and (norm(y.func) == "call_predicate" or (isinstance(y.func, ast.Name) and y.func.id in g.top.param_names())) for y in body)
        table_read = any((isinstance(y, ast.Subscript) and isinstance(y.ctx, ast.Load) and isinstance(y.value, ast.Name)) or
                         (isinstance(y, ast.Call) and isinstance(y.func, ast.Attribute) and y.func.attr == "get" and isinstance(y.func.value, ast.Name)) for y in body)
        table_write = any(isinstance(y, ast.Subscript) and isinstance(y.ctx, ast.Store) and isinstance(y.value, ast.Name) for y in body)
        return asks and table_read and table_write

    for q in ("Tree.copy", "Node.copy", "Tree.filtered", "Node.filtered", "Tree.filter", "Node.filter", "Node._add_from", "Node._add_filtered"):
        try:
            g0 = m.func(q)
        except Exception:  # noqa: BLE001
            continue
        for c in ctx.env.calls_in.get(g0, []):
            if not any(isinstance(a_, ast.Name) and a_.id == "predicate" for a_ in list(c.args) + [k.value for k in c.keywords]):
                continue
            for h, _r in ctx.env.callees(g0, c):
                if h.qualname.split(".")[-1] in ("copy", "filter", "filtered", "_add_from", "_add_filtered", "call_predicate"):
                    continue
                if _memoising(h):
                    obs.append(ctx.ob("SIB-FILTER", ["C08"], g0, "predicate evaluated once per child via call_predicate", c, False,
                                      f"`{norm(c)}`: {h.qualname} answers from a table it filled on an earlier call: nodes that share the key (clones) get the verdict "
                                      "of the first one, although the predicate may decide by position"))
                    return obs
    accs = find(f"$acc.append({li.target.id})", li)
    keepv = [n for n in iter_own(fi.node) if isinstance(n, ast.Return) and isinstance(n.value, ast.Name)]
    mats = [g for g in m.func("Node._add_filtered").nested if not g.param_names()]
    # the in-place table is read off the flag-and-removal-list representation; another representation
    # (a keep list, a generator of survivors ...) is answered "undecided", not "violated"
    inplace_known = bool(accs) and len(keepv) == 1
    names_i = {"rec": fi.name, "keep": keepv[0].value.id if keepv else "_", "acc": accs[0][1]["$acc"] if accs else "_", "res": res_var(fi, li)}
    if not mats:
        raise AnalysisError("Node._add_filtered: the parent materialiser (a nested function without parameters) was not found")
    names_c = {"rec": fc.name, "materialise": mats[0].name, "res": res_var(fc, lc)}
    ti = _filter_table(ctx, fi, li, "inplace", names_i)
    tc = _filter_table(ctx, fc, lc, "copy", names_c)
    for v in VERDICTS:
        for f, tb, want in ((fi, ti, want_inplace), (fc, tc, want_copy)):
            got = tb.get(v, set())
            bugs = {x for x in got if x.startswith("BUG:")}
            hard = {x for x in bugs if "rebinds" not in x}
            ok = (got - bugs) == want[v] and not hard
            if f is fi and not inplace_known and not hard:
                ok = None
            obs.append(ctx.tri("SIB-FILTER", ["C08"], f, f"verdict {v}: {sorted(want[v]) or ['nothing kept, no descent']}", None, ok,
                              "" if ok else f"branch does {sorted(got - bugs)}{' ' + str(sorted(hard)) if hard else ''}; documented: {sorted(want[v])} "
                              "(the in-place and the copying form must give the same result as the user-guide table)"))
    unknown = [k for k in list(ti) + list(tc) if k.startswith("?")]
    obs.append(ctx.ob("SIB-FILTER", ["C08"], fi, "no undocumented verdict case", None, not unknown, "" if not unknown else f"{unknown}"))
    # the predicate is evaluated once per child through the normaliser
    for f, lp in ((fi, li), (fc, lc)):
        calls = [x for st in lp.body for x in ast.walk(st) if isinstance(x, ast.Call) and norm(x.func) == "call_predicate"]
        ok = len(calls) == 1 and len(calls[0].args) == 2 and norm(calls[0].args[1]) == lp.target.id and norm(calls[0].args[0]) == "predicate"
        obs.append(ctx.ob("SIB-FILTER", ["C08"], f, "predicate evaluated once per child via call_predicate", lp, ok,
                          "" if ok else "each node must get exactly one verdict"))
    # StopTraversal handler at the top of both, outside the recursion
    for q in ("Node.filter", "Node._add_filtered"):
        f = m.func(q)
        ok = False
        for n in iter_own(f.node):
            wname = (fi if q == "Node.filter" else fc).name
            if isinstance(n, ast.Try) and any(isinstance(st, ast.Expr) and isinstance(st.value, ast.Call) and norm(st.value.func).split(".")[-1] == wname for st in n.body):
                ok = any(h.type is not None and norm(h.type) == "StopTraversal" and all(isinstance(s, ast.Pass) for s in h.body) for h in n.handlers)
        obs.append(ctx.ob("SIB-FILTER", ["C08"], f, "a stop signal ends the scan at the top level and keeps what was done", None, ok,
                          "" if ok else "StopTraversal must be caught once, outside the recursion, without undoing anything"))
    # the documentation oracle still lists the five cases
    doc = ctx.doc_text("ug_advanced.rst")
    phrases = ["Keep the node and visit children", "keep this node if at least one", "Skip node and its descendants",
               "keep the node, but skip descendants", "Unconditionally accept node and all descendants"]
    missing = [p for p in phrases if p not in doc]
    obs.append(ctx.ob("SIB-FILTER", ["C08"], "docs:ug_advanced.rst", "user guide documents the five predicate verdicts", None, not missing,
                      "" if not missing else f"oracle text changed: {missing}", note=bool(missing)))
    # Tree.filtered / Node.filtered are copy(predicate=)
    return obs


# --------------------------------------------------------------- COPY-LINEAR
@rule("COPY-LINEAR", ["C08", "C07"], floor=5, section="3.5")
def copy_linear(ctx: Ctx) -> List[Ob]:
    """each source node is copied at most once per visit: in _add_filtered a pending stack entry materialised by _create_parents() is not copied again by a direct add_child(n); the pending entry is popped on every path to the next iteration; _add_from copies each child once and recurses once"""
    from ..pat import find, has, match, one

    obs: List[Ob] = []
    m = ctx.model
    f = m.func("Node._add_filtered._visit")
    lps = [n for n in iter_own(f.node) if isinstance(n, ast.For) and isinstance(n.target, ast.Name)]
    if not lps:
        raise AnalysisError("_add_filtered._visit: loop not found")
    lp = lps[0]
    lv = lp.target.id
    pend = one(f"$ps.append((False, {lv}))", lp)
    pending = pend is not None
    ps = pend[1]["$ps"] if pending else "parent_stack"
    mats = [g for g in m.func("Node._add_filtered").nested if not g.param_names()]
    if not mats:
        raise AnalysisError("_add_filtered: the parent materialiser was not found")
    cp = mats[0]
    idempotent = has(f"{ps}[$i] = (True, $p)", cp.node)
    # (the two stack clauses read the (is_existing, node) tuple stack; another bookkeeping - two lists, a counter - is undecided)
    obs.append(ctx.tri("COPY-LINEAR", ["C08"], cp, "the parent materialiser marks materialised entries (idempotent)", None, idempotent if pending else None,
                       "without the (True, node) overwrite every call re-copies all pending ancestors"))
    resv = None
    for st in lp.body:
        for x in ast.walk(st):
            if isinstance(x, ast.Assign) and isinstance(x.value, ast.Call) and norm(x.value.func) == "call_predicate" and isinstance(x.targets[0], ast.Name):
                resv = x.targets[0].id
    if resv is None:
        raise AnalysisError("_add_filtered._visit: verdict variable not found")
    per: Dict[str, List[str]] = {v: [] for v in VERDICTS}
    for st in lp.body:
        for x in ast.walk(st):
            if not isinstance(x, ast.Call):
                continue
            site = None
            if match(f"{cp.name}()", x) is not None and pending:
                site = f"{cp.name}()"
            elif isinstance(x.func, ast.Attribute) and x.func.attr in ("add_child", "add", "append_child") and x.args and norm(x.args[0]) == lv:
                site = f".{x.func.attr}({lv})"
            if site is None:
                continue
            vs, _rest = _verdicts_of(ctx, f, x, resv)
            for v in vs:
                per.setdefault(v, []).append(site)
    for v, sites in per.items():
        ok = len(sites) <= 1
        obs.append(ctx.ob("COPY-LINEAR", ["C08", "C07"], f, f"verdict {v}: the visited node is copied at most once", None, ok,
                          "" if ok else f"copies: {' + '.join(sites)}: `{lv}` is already on the pending stack and is materialised by {cp.name}(); "
                          f"`{sites[-1]}` copies it a second time below its own copy: every accepted node appears twice"))
    # the pending entry is popped on every normal path from the push to the next iteration / the end of the loop
    cfg = ctx.cfg(f)
    ok = False
    path = None
    if pending:
        push = cfg.stmt_node_of(pend[0], m.parent_of)
        hdr = cfg.node_for(lp)
        pops = [cfg.stmt_node_of(x, m.parent_of) for x, _ in find(f"{ps}.pop()", lp)]
        if push is not None and hdr is not None and pops:
            p_ = cfg.find_path(push, hdr, avoid=lambda n: any(n is q for q in pops), strict=True)
            ok = p_ is None
            if p_ is not None:
                from ..cfg import describe_path

                path = describe_path(p_)
    obs.append(ctx.tri("COPY-LINEAR", ["C08"], f, "the pending entry is popped on every path to the next iteration", lp, ok if pending else None,
                       "a stale stack entry stays behind: later accepted nodes are materialised below the wrong parent", path))
    g = m.func("Node._add_from")
    src = [p for p in g.positional_params() if p != g.self_name][0]
    lps = [n for n in iter_own(g.node) if isinstance(n, ast.For) and isinstance(n.target, ast.Name)]
    if lps:
        lp = lps[0]
        lv = lp.target.id
        adds = [x for st in lp.body for x in ast.walk(st) if isinstance(x, ast.Call) and isinstance(x.func, ast.Attribute)
                and x.func.attr in ("add_child", "add", "append_child") and x.args and lv in norm(x.args[0])]
        recs = [x for st in lp.body for x in ast.walk(st) if isinstance(x, ast.Call) and isinstance(x.func, ast.Attribute) and x.func.attr == "_add_from"]
        ok = len(adds) == 1 and len(recs) == 1 and norm(recs[0].args[0]) == lv and norm(lp.iter) in (f"{src}.children", f"{src}._children")
        obs.append(ctx.ob("COPY-LINEAR", ["C07"], g, "_add_from: one copy and one recursion per source child, in child order", lp, ok,
                          "" if ok else f"{len(adds)} copies / {len(recs)} recursions per child"))
    return obs


# ------------------------------------------------------------ COPY-ID / KIND
def _mentions(e: Optional[ast.AST], texts: Set[str]) -> bool:
    if e is None:
        return False
    return any(norm(x) in texts for x in ast.walk(e))


@rule("COPY-ID", ["C07", "C05", "C02", "C08", "C13"], floor=3, section="3.5")
def copy_id(ctx: Ctx) -> List[Ob]:
    """wherever a node is created from a source node's data, the source's data_id travels with it (an explicit id is not recomputed from hash(data)); typed copies carry the source's kind"""
    obs: List[Ob] = []
    env = ctx.env
    for f in ctx.model.all_funcs():
        for c in env.calls_in[f]:
            if not c.args and not any(k.arg in ("data",) for k in c.keywords):
                continue
            # data argument: X.data / X._data with X a Node
            cands = list(c.args[:2])
            src = None
            for a in cands:
                if isinstance(a, ast.Attribute) and a.attr in ("data", "_data") and NODE in env.types(f, a.value):
                    src = a.value
            if src is None:
                continue
            callee_is_ctor = NODECLS in env.types(f, c.func)
            callee_is_add = isinstance(c.func, ast.Attribute) and c.func.attr in ("add_child", "add", "append_child", "prepend_child")
            if not (callee_is_ctor or callee_is_add):
                continue
            s = norm(src)
            # a stable name for the report key: parameters keep their (API) name, locals are "<source>"
            sk = s if (isinstance(src, ast.Name) and src.id in f.top.param_names() + f.param_names()) else "<source>"
            idtexts = {f"{s}._data_id", f"{s}.data_id"}
            a_id = None
            for k in c.keywords:
                if k.arg == "data_id":
                    a_id = k.value
            ok = _mentions(a_id, idtexts)
            if not ok and isinstance(a_id, ast.Name):
                r = env.reaching(f, c, a_id.id)
                vals = r[0] if r is not None else [b.expr for b in env.scope(f).resolve(a_id.id)[1] if b.kind == "val"]
                ok = any(_mentions(v, idtexts) for v in vals)
            # (in the batch copies a recomputed id can also collide half-way: a refusal that leaves a partial branch, C13)
            obs.append(ctx.ob("COPY-ID", ["C07", "C05", "C02"] + (["C08", "C13"] if "_add_filtered" in f.qualname or f.name == "_add_from" else []), f, f"copy of {sk}.data carries {sk}._data_id", c, ok,
                              "" if ok else f"the copy of `{s}` gets data_id={norm(a_id) if a_id is not None else 'None'} -> recomputed by calc_data_id(data): "
                              "a node with an explicit data_id is copied under hash(data) and leaves its clone group"))
            # kind for typed code
            typed_callees = [g for g, _ in env.callees(f, c) if "kind" in g.param_names()]
            typed_ctx = any(x.startswith("Typed") or x.startswith("_SystemRootTyped") for x in ctx.model.runtime_classes_for(f))
            if typed_callees and typed_ctx:
                a_kind = None
                for k in c.keywords:
                    if k.arg == "kind":
                        a_kind = k.value
                if a_kind is None and callee_is_ctor and c.args:
                    a_kind = c.args[0]
                kt = {f"{s}.kind", f"{s}._kind"}
                okk = _mentions(a_kind, kt)
                if not okk and isinstance(a_kind, ast.Name):
                    vals = [b.expr for b in env.scope(f).resolve(a_kind.id)[1] if b.kind == "val"]
                    okk = any(_mentions(v, kt) for v in vals)
                obs.append(ctx.ob("COPY-KIND", ["C07"], f, f"copy of {sk}.data carries {sk}.kind", c, okk,
                                  "" if okk else f"typed copy of `{s}` gets kind={norm(a_kind) if a_kind is not None else 'default'}: "
                                  "copied nodes lose their kind (become DEFAULT_CHILD_TYPE)"))
                obs[-1].rule = "COPY-ID"
                obs[-1].construct = "[kind] " + obs[-1].construct
    return obs


@rule("CLS-HARD", ["C07", "C05"], floor=3, section="3.5")
def cls_hard(ctx: Ctx) -> List[Ob]:
    """a copying method of a class that has in-package subclasses instantiates the receiver's class, not a hard-coded base class"""
    obs: List[Ob] = []
    m = ctx.model
    for q in ("Tree.copy", "Node.copy", "Tree._from_list", "TypedTree._from_list"):
        f = m.func(q)
        ctors = [c for c in ctx.env.calls_in[f] if TREECLS in ctx.env.types(f, c.func) or (isinstance(c.func, ast.Name) and m.is_family(c.func.id, "Tree"))]
        if not ctors:
            if any(isinstance(c.func, ast.Attribute) and c.func.attr == f.name and isinstance(c.func.value, ast.Call) and norm(c.func.value.func) == "super" for c in ctx.env.calls_in[f]):
                obs.append(ctx.ob("CLS-HARD", ["C05"], f, f"{q} delegates to the base class (which constructs cls)", None, True, note=True))
                continue
            raise AnalysisError(f"{q}: tree construction not found")
        for c in ctors:
            hard = isinstance(c.func, ast.Name) and c.func.id in m.classes
            props = ["C07"] if "copy" in q else ["C05"]
            obs.append(ctx.ob("CLS-HARD", props, f, f"{q} constructs {norm(c.func)}(...)", c, not hard,
                              "" if not hard else f"`{norm(c.func)}(...)` is hard-coded: the copy of a TypedTree is a plain Tree of plain Nodes (kinds are lost)"))
    return obs


# ---------------------------------------------------------------- SIB-ENTRY
@rule("SIB-ENTRY", ["C05", "C12"], floor=4, section="3.7")
def sib_entry(ctx: Ctx) -> List[Ob]:
    """both _make_list_entry builders emit a custom data_id on every path that returns an entry (or delegate to the base builder)"""
    obs: List[Ob] = []
    m = ctx.model
    for q in ("Node._make_list_entry", "TypedNode._make_list_entry"):
        f = m.func(q)
        cfg = ctx.cfg(f)
        custom_names = set()
        for n in iter_own(f.node):
            if isinstance(n, ast.Assign) and isinstance(n.value, ast.Compare) and "_data_id" in norm(n.value) and "hash(" in norm(n.value):
                for t in n.targets:
                    if isinstance(t, ast.Name):
                        custom_names.add(t.id)

        def discharges(n: N) -> bool:
            if n.kind == "test":
                t = norm(n.ast)
                if ("_data_id" in t and "hash(" in t) or any(nm in {x.id for x in ast.walk(n.ast) if isinstance(x, ast.Name)} for nm in custom_names):
                    return True
            if n.kind == "stmt" and n.ast is not None:
                for c in ast.walk(n.ast):
                    if isinstance(c, ast.Call) and any(g.qualname == "Node._make_list_entry" and g is not f for g, _ in ctx.env.callees(f, c)):
                        return True
            return False

        def is_test(n: N) -> bool:
            if n.kind != "test":
                return False
            t = norm(n.ast)
            return ("_data_id" in t and "hash(" in t) or any(nm in {x.id for x in ast.walk(n.ast) if isinstance(x, ast.Name)} for nm in custom_names)

        rets = [n for n in cfg.stmt_nodes() if n.kind == "stmt" and isinstance(n.ast, ast.Return)]
        for r in rets:
            ok = cfg.dominated_by(r, discharges)
            p = None if ok else cfg.find_path(cfg.entry, r, avoid=lambda n: n is not r and discharges(n))
            if ok and isinstance(r.ast.value, ast.Name):
                # what is returned must be the delegate's entry, or an entry built here that passed the custom-id test
                from .util import reaching_values

                for v_ in reaching_values(ctx, f, r.ast, r.ast.value):
                    deleg = isinstance(v_, ast.Call) and any(g.qualname == "Node._make_list_entry" and g is not f for g, _ in ctx.env.callees(f, v_))
                    if deleg or not isinstance(v_, (ast.Dict, ast.Call)):
                        continue
                    dn = cfg.stmt_node_of(v_, m.parent_of)
                    if dn is not None:
                        p2 = cfg.find_path(dn, r, avoid=lambda n: n is not r and is_test(n), strict=True)
                        if p2 is not None:
                            ok, p = False, p2
            obs.append(ctx.ob("SIB-ENTRY", ["C05", "C12"], f, f"{norm(r.ast)}: custom data_id considered on every path", r.ast, ok,
                              "" if ok else "an entry is returned without testing for / storing a custom data_id: the node reloads under hash(data)",
                              describe_path(p) if p else None))
        if q == "Node._make_list_entry":
            stores = [n for n in iter_own(f.node) if isinstance(n, ast.Assign) and norm(n.targets[0]) == "data['data_id']"]
            ok = len(stores) == 1 and norm(stores[0].value) in ("node._data_id", "node.data_id")
            obs.append(ctx.ob("SIB-ENTRY", ["C05", "C12"], f, "custom id is stored as data['data_id'] = node._data_id", None, ok,
                              "" if ok else "the stored id must be the node's data_id under the key the readers use"))
        else:
            stores = [n for n in iter_own(f.node) if isinstance(n, ast.Assign) and norm(n.targets[0]) == "data['kind']"]
            ok = len(stores) == 1 and norm(stores[0].value) in ("node.kind", "node._kind")
            obs.append(ctx.ob("SIB-ENTRY", ["C05", "C12"], f, "typed entries store data['kind'] = node.kind", None, ok,
                              "" if ok else "the kind must be stored under the key the typed reader uses"))
    return obs
