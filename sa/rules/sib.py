"""Sibling cross-checks and copy rules (DESIGN 3.5, 3.7)."""
from __future__ import annotations

import ast
from typing import Dict, List, Optional, Set, Tuple

from ..cfg import N, describe_path
from ..core import Ctx, Ob, rule
from ..infer import NODE, NODECLS, TREECLS
from ..model import AnalysisError, Func, iter_own, norm
from .trav import _if_chain


def _rename(text: str, mapping: Dict[str, str]) -> str:
    import re

    for a, b in mapping.items():
        text = re.sub(rf"\b{re.escape(a)}\b", b, text)
    return text


# ------------------------------------------------------------------- SIB-ADD
def _same_parent_cond(ctx: Ctx, f: Func) -> Optional[ast.AST]:
    """Condition of the `Same parent not allowed` refusal."""
    for n in iter_own(f.node):
        if isinstance(n, ast.If) and "._tree is self._tree" in norm(n.test):
            for st in n.body:
                if isinstance(st, ast.If) and any(isinstance(x, ast.Raise) and "UniqueConstraintError" in norm(x) for y in st.body for x in ast.walk(y)):
                    return st.test
    return None


def _before_table(ctx: Ctx, f: Func) -> Dict[str, str]:
    """The dispatch on `before` that links the new node: case -> canonical
    action (locals abstracted: L = the child list, node = the new node)."""
    from ..pat import find, has, match, one

    chain = None
    for n in iter_own(f.node):
        if isinstance(n, ast.If):
            e = match("$L is None", n.test)
            if e is not None and has("self._children = [$node]", n.body):
                chain = _if_chain(n)
                L = e["$L"]
                node = one("self._children = [$node]", n.body)[1]["$node"]
    if chain is None:
        raise AnalysisError(f"{f.qualname}: position dispatch not recognised")
    B = {"$L": L, "$node": node}
    table: Dict[str, str] = {}
    for test, body in chain:
        key = "else" if test is None else _rename(norm(test), {L: "L"})
        stm = [st for st in body if not isinstance(st, (ast.Assert, ast.If))]
        act = "?"
        if len(stm) == 1 and match("self._children = [$node]", stm[0], B) is not None:
            act = "self._children = [node]"
        elif len(stm) == 1 and match("$L.insert(0, $node)", stm[0], B) is not None:
            act = "L.insert(0, node)"
        elif len(stm) == 1 and match("$L.insert(before, $node)", stm[0], B) is not None:
            act = "L.insert(before, node)"
        elif len(stm) == 1 and match("$L.append($node)", stm[0], B) is not None:
            act = "L.append(node)"
        elif len(stm) == 2:
            e = match("$i = _index_of($L, before)", stm[0], B) or match("$i = $L.index(before)", stm[0], B)
            if e is not None and match("$L.insert($i, $node)", stm[1], e) is not None:
                act = "idx = position of before in L; L.insert(idx, node)"
        table[key] = act
    if has("if before is True:\n    before = 0", f.node):
        table.setdefault("before is True", "L.insert(0, node)")
    return table


@rule("SIB-ADD", ["C03", "C04", "C05", "C07"], floor=8, section="3.7")
def sib_add(ctx: Ctx) -> List[Ob]:
    """Node.add_child and TypedNode.add_child agree on the same-parent refusal and realise the documented `before` dispatch (None->append, True->0, int->insert, node->insert at its position)"""
    obs: List[Ob] = []
    m = ctx.model
    fa, fb = m.func("Node.add_child"), m.func("TypedNode.add_child")
    ca, cb = _same_parent_cond(ctx, fa), _same_parent_cond(ctx, fb)
    if ca is None or cb is None:
        raise AnalysisError("add_child: same-parent refusal not found")
    for f, c in ((fa, ca), (fb, cb)):
        t = norm(c)
        ok = t.endswith("._parent is self") or t.endswith(".parent is self")
        obs.append(ctx.ob("SIB-ADD", ["C03", "C05", "C07"], f, f"same-parent refusal: {t}", c, ok,
                          "" if ok else "the copy becomes a child of `self`, so the refusal must test `source._parent is self`; "
                          "`is self._parent` refuses a legal add below a sibling (load() of a clone stored below a sibling of its first "
                          "occurrence fails) and misses the real conflict"))
    ok = norm(ca) == norm(cb)
    obs.append(ctx.ob("SIB-ADD", ["C03"], fa, "both add_child implementations refuse the same condition", ca, ok,
                      "" if ok else f"Node: `{norm(ca)}` vs TypedNode: `{norm(cb)}`"))
    want = {
        "L is None": "self._children = [node]",
        "before is True": "L.insert(0, node)",
        "isinstance(before, int)": "L.insert(before, node)",
        "before": "idx = position of before in L; L.insert(idx, node)",
        "else": "L.append(node)",
    }
    for f in (fa, fb):
        tb = _before_table(ctx, f)
        for case, act in want.items():
            got = tb.get(case)
            ok = got == act
            obs.append(ctx.ob("SIB-ADD", ["C04"], f, f"position `{case}` -> {act}", None, ok,
                              "" if ok else f"got `{got}`: the new node does not land at the documented place"))
        # `False` is an int: it must be normalised to "append" before the int case
        from ..pat import has as _has, find as _find

        ok = _has("if before is False:\n    before = None", f.node) or any(
            isinstance(n_, ast.If) and norm(n_.test) == "before is False" and any(norm(x) == "before = None" for x in n_.body) for n_ in ast.walk(f.node))
        obs.append(ctx.ob("SIB-ADD", ["C04"], f, "position `before is False` -> append (False is normalised before the int case)", None, ok,
                          "" if ok else "isinstance(False, int) is true: before=False is inserted at index 0 although it is documented to append"))
        # whole-tree argument: the top nodes are reversed only when they are inserted at a fixed index
        revs = _find("$t.reverse()", f.node)
        for rn, _e in revs:
            g_ = ctx.model.parent_of(ctx.model.parent_of(rn))
            t_ = norm(g_.test) if isinstance(g_, ast.If) else "?"
            ok = isinstance(g_, ast.If) and "Node" not in t_ and "isinstance(before, int)" in t_.replace("(int,)", "int")
            obs.append(ctx.ob("SIB-ADD", ["C07", "C04"], f, "add_child(tree, before=...): the top nodes are reversed only for a fixed index position", rn, ok,
                              "" if ok else f"`{t_}`: inserting every node before the same *node* already keeps their order; reversing first "
                              "adds them in reverse order (and before=False must not count as an index)"))
        extra = set(tb) - set(want)
        obs.append(ctx.ob("SIB-ADD", ["C04"], f, "no undocumented position case", None, not extra, "" if not extra else f"extra cases {sorted(extra)}"))
        # order of the cases: True before int (True is an int), int before node truthiness
        keys = [k for k in tb if k in want]
        seq = [k for k in ("L is None", "before is True", "isinstance(before, int)", "before", "else") if k in keys]
    return obs


# ---------------------------------------------------------------- SIB-FILTER
VERDICTS = ["falsy", "true", "select", "skip_keep_self", "skip", "stop"]


def _verdict_branches(ctx: Ctx, f: Func, loop: ast.For) -> Dict[str, List[ast.stmt]]:
    chain = None
    for st in loop.body:
        if isinstance(st, ast.If) and "res" in norm(st.test):
            chain = _if_chain(st)
    if chain is None:
        raise AnalysisError(f"{f.qualname}: verdict chain not recognised")
    out: Dict[str, List[ast.stmt]] = {}
    for test, body in chain:
        if test is None:
            continue
        t = norm(test)
        if t in ("res in (None, False)", "res in (False, None)", "res is None or res is False", "not res"):
            out["falsy"] = body
        elif t == "res is True":
            out["true"] = body
        elif t == "isinstance(res, SelectBranch)":
            out["select"] = body
        elif t == "isinstance(res, StopTraversal)":
            out["stop"] = body
        elif t == "isinstance(res, SkipBranch)":
            inner = [s for s in body if isinstance(s, ast.If) and "and_self" in norm(s.test)]
            if len(inner) == 1 and norm(inner[0].test) == "res.and_self is False":
                out["skip_keep_self"] = inner[0].body
                out["skip"] = inner[0].orelse
            else:
                out["skip"] = body
        else:
            out[f"?{t}"] = body
    return out


def _flags_inplace(body: List[ast.stmt], lv: str, N: Dict[str, str]) -> Set[str]:
    """N: names of the in-place helper: rec (recursive function), keep (the
    returned flag), acc (the deferred-removal list)."""
    from ..pat import has, match

    rec, keep, acc = N["rec"], N["keep"], N["acc"]
    fl: Set[str] = set()
    for st in body:
        if match(f"{keep} = True", st) is not None:
            fl.add("keeps_self")
        if match(f"{rec}({lv})", st) is not None:
            fl.add("descends")
        if isinstance(st, ast.If) and match(f"{rec}({lv})", st.test) is not None:
            fl.add("descends")
            if any(match(f"{keep} = True", x) is not None for x in st.body) and any(match(f"{acc}.append({lv})", x) is not None for x in st.orelse):
                fl.add("keeps_if_descendant")
        if match(f"{acc}.append({lv})", st) is not None:
            fl.add("drops_self")
        if any(match(p_, st) is not None for p_ in (f"{acc}.extend({lv}.children)", f"{acc} += {lv}.children", f"{acc}.extend({lv}._children or ())",
                                                     f"{acc}.extend({lv}.children.copy())", f"{acc}.extend(list({lv}.children))")):
            fl.add("drops_children")
        if match(f"{acc} = {lv}.children", st) is not None:
            fl.add("drops_children")
            fl.add("BUG:rebinds accumulator")
        if isinstance(st, ast.For) and any(isinstance(x, ast.Call) and isinstance(x.func, ast.Attribute) and x.func.attr == "remove" for x in ast.walk(st)):
            fl.add("BUG:removes while iterating the live child list")
        if isinstance(st, ast.Raise):
            fl.add("stops")
    return fl


def _flags_copy(body: List[ast.stmt], lv: str, N: Dict[str, str]) -> Set[str]:
    from ..pat import has, match

    rec, mat = N["rec"], N["materialise"]
    fl: Set[str] = set()
    for st in body:
        if has(f"{mat}()", st):
            fl.add("keeps_self")
        if match(f"{rec}({lv})", st) is not None:
            fl.add("descends")
        if match(f"$p._add_from({lv})", st) is not None:
            fl.add("whole_branch")
        if isinstance(st, ast.Raise):
            fl.add("stops")
        if isinstance(st, (ast.Continue, ast.Break, ast.Return)):
            fl.add("BUG:leaves the loop body early")
    return fl


@rule("SIB-FILTER", ["C08"], floor=10, section="3.7")
def sib_filter(ctx: Ctx) -> List[Ob]:
    """Node.filter (in place) and Node._add_filtered (copy) realise the same, documented verdict table: True keeps+descends, False/None descends and keeps on an accepted descendant, SelectBranch keeps the branch, SkipBranch drops node and branch, SkipBranch(and_self=False) keeps the node (with its ancestors) and drops its descendants, StopTraversal stops"""
    obs: List[Ob] = []
    m = ctx.model
    fi = m.func("Node.filter._visit")
    fc = m.func("Node._add_filtered._visit")

    def loop_of(f):
        lps = [n for n in iter_own(f.node) if isinstance(n, ast.For) and "children" in norm(n.iter) and isinstance(n.target, ast.Name)]
        if not lps:
            raise AnalysisError(f"{f.qualname}: child loop not found")
        return lps[0]

    li, lc = loop_of(fi), loop_of(fc)
    bi = _verdict_branches(ctx, fi, li)
    bc = _verdict_branches(ctx, fc, lc)
    want_inplace = {
        "falsy": {"descends", "keeps_if_descendant"},
        "true": {"descends", "keeps_self"},
        "select": {"keeps_self"},
        "skip_keep_self": {"keeps_self", "drops_children"},
        "skip": {"drops_self"},
        "stop": {"stops"},
    }
    want_copy = {
        "falsy": {"descends"},
        "true": {"descends", "keeps_self"},
        "select": {"keeps_self", "whole_branch"},
        "skip_keep_self": {"keeps_self"},
        "skip": set(),
        "stop": {"stops"},
    }
    from ..pat import find, one

    acc = one(f"$acc.append({li.target.id})", li)
    keepv = [n for n in iter_own(fi.node) if isinstance(n, ast.Return) and isinstance(n.value, ast.Name)]
    mats = [g for g in m.func("Node._add_filtered").nested if not g.param_names()]
    if acc is None and not find(f"$acc.append({li.target.id})", li):
        raise AnalysisError("Node.filter._visit: deferred-removal list not recognised")
    names_i = {"rec": fi.name, "keep": keepv[0].value.id if keepv else "?", "acc": (acc[1]["$acc"] if acc else find(f"$acc.append({li.target.id})", li)[0][1]["$acc"])}
    names_c = {"rec": fc.name, "materialise": mats[0].name if mats else "?"}
    for v in VERDICTS:
        for f, br, want, flags, NN in ((fi, bi, want_inplace, _flags_inplace, names_i), (fc, bc, want_copy, _flags_copy, names_c)):
            lv = (li if f is fi else lc).target.id
            if v not in br:
                if v == "skip" and f is fc and "skip_keep_self" in br:
                    got: Set[str] = set()
                else:
                    obs.append(ctx.ob("SIB-FILTER", ["C08"], f, f"verdict {v} is handled", None, False,
                                      f"no branch for the `{v}` verdict: it is treated like another one"))
                    continue
            else:
                got = flags(br[v], lv, NN)
            bugs = {x for x in got if x.startswith("BUG:")}
            hard = {x for x in bugs if "rebinds" not in x}
            ok = (got - bugs) == want[v] and not hard
            obs.append(ctx.ob("SIB-FILTER", ["C08"], f, f"verdict {v}: {sorted(want[v]) or ['nothing kept, no descent']}", None, ok,
                              "" if ok else f"branch does {sorted(got - bugs)}; documented: {sorted(want[v])} "
                              "(the in-place and the copying form must give the same result as the user-guide table)"))
    unknown = [k for k in list(bi) + list(bc) if k.startswith("?")]
    obs.append(ctx.ob("SIB-FILTER", ["C08"], fi, "no undocumented verdict case", None, not unknown, "" if not unknown else f"{unknown}"))
    # the predicate is evaluated once per child through the normaliser
    for f, lp in ((fi, li), (fc, lc)):
        calls = [x for st in lp.body for x in ast.walk(st) if isinstance(x, ast.Call) and norm(x.func) == "call_predicate"]
        ok = len(calls) == 1 and len(calls[0].args) == 2 and norm(calls[0].args[1]) == lp.target.id and norm(calls[0].args[0]) == "predicate"
        obs.append(ctx.ob("SIB-FILTER", ["C08"], f, "predicate evaluated once per child via call_predicate", lp, ok,
                          "" if ok else "each node must get exactly one verdict"))
    # StopTraversal handler at the top of both, outside the recursion
    for q in ("Node.filter", "Node._add_filtered"):
        f = m.func(q)
        ok = False
        for n in iter_own(f.node):
            if isinstance(n, ast.Try) and any(norm(st) == f"_visit({'self' if q == 'Node.filter' else 'other'})" for st in n.body):
                ok = any(h.type is not None and norm(h.type) == "StopTraversal" and all(isinstance(s, ast.Pass) for s in h.body) for h in n.handlers)
        obs.append(ctx.ob("SIB-FILTER", ["C08"], f, "a stop signal ends the scan at the top level and keeps what was done", None, ok,
                          "" if ok else "StopTraversal must be caught once, outside the recursion, without undoing anything"))
    # the documentation oracle still lists the five cases
    doc = ctx.doc_text("ug_advanced.rst")
    phrases = ["Keep the node and visit children", "keep this node if at least one", "Skip node and its descendants",
               "keep the node, but skip descendants", "Unconditionally accept node and all descendants"]
    missing = [p for p in phrases if p not in doc]
    obs.append(ctx.ob("SIB-FILTER", ["C08"], "docs:ug_advanced.rst", "user guide documents the five predicate verdicts", None, not missing,
                      "" if not missing else f"oracle text changed: {missing}", note=bool(missing)))
    # Tree.filtered / Node.filtered are copy(predicate=)
    return obs


# --------------------------------------------------------------- COPY-LINEAR
@rule("COPY-LINEAR", ["C08", "C07"], floor=5, section="3.5")
def copy_linear(ctx: Ctx) -> List[Ob]:
    """each source node is copied at most once per visit: in _add_filtered a pending stack entry materialised by _create_parents() is not copied again by a direct add_child(n); the pending entry is popped on every path to the next iteration; _add_from copies each child once and recurses once"""
    from ..pat import find, has, match, one

    obs: List[Ob] = []
    m = ctx.model
    f = m.func("Node._add_filtered._visit")
    lps = [n for n in iter_own(f.node) if isinstance(n, ast.For) and isinstance(n.target, ast.Name)]
    if not lps:
        raise AnalysisError("_add_filtered._visit: loop not found")
    lp = lps[0]
    lv = lp.target.id
    pend = one(f"$ps.append((False, {lv}))", lp)
    pending = pend is not None
    ps = pend[1]["$ps"] if pending else "parent_stack"
    mats = [g for g in m.func("Node._add_filtered").nested if not g.param_names()]
    if not mats:
        raise AnalysisError("_add_filtered: the parent materialiser was not found")
    cp = mats[0]
    idempotent = has(f"{ps}[$i] = (True, $p)", cp.node)
    obs.append(ctx.ob("COPY-LINEAR", ["C08"], cp, "the parent materialiser marks materialised entries (idempotent)", None, idempotent,
                      "" if idempotent else "without the (True, node) overwrite every call re-copies all pending ancestors"))
    branches = _verdict_branches(ctx, f, lp)
    for v, body in branches.items():
        copies = 0
        sites = []
        for st in body:
            for x in ast.walk(st):
                if isinstance(x, ast.Call):
                    if match(f"{cp.name}()", x) is not None and pending:
                        copies += 1
                        sites.append(f"{cp.name}()")
                    elif isinstance(x.func, ast.Attribute) and x.func.attr in ("add_child", "add", "append_child") and x.args and norm(x.args[0]) == lv:
                        copies += 1
                        sites.append(f".{x.func.attr}({lv})")
        ok = copies <= 1
        obs.append(ctx.ob("COPY-LINEAR", ["C08", "C07"], f, f"verdict {v}: the visited node is copied at most once", None, ok,
                          "" if ok else f"copies: {' + '.join(sites)}: `{lv}` is already on the pending stack and is materialised by {cp.name}(); "
                          f"`{sites[-1]}` copies it a second time below its own copy: every accepted node appears twice"))
    # the pending entry is popped on every normal path from the push to the next iteration / the end of the loop
    cfg = ctx.cfg(f)
    ok = False
    path = None
    if pending:
        push = cfg.stmt_node_of(pend[0], m.parent_of)
        hdr = cfg.node_for(lp)
        pops = [cfg.stmt_node_of(x, m.parent_of) for x, _ in find(f"{ps}.pop()", lp)]
        if push is not None and hdr is not None and pops:
            p_ = cfg.find_path(push, hdr, avoid=lambda n: any(n is q for q in pops), strict=True)
            ok = p_ is None
            if p_ is not None:
                from ..cfg import describe_path

                path = describe_path(p_)
    obs.append(ctx.ob("COPY-LINEAR", ["C08"], f, "the pending entry is popped on every path to the next iteration", lp, ok,
                      "" if ok else "a stale stack entry stays behind: later accepted nodes are materialised below the wrong parent", path))
    g = m.func("Node._add_from")
    src = [p for p in g.positional_params() if p != g.self_name][0]
    lps = [n for n in iter_own(g.node) if isinstance(n, ast.For) and isinstance(n.target, ast.Name)]
    if lps:
        lp = lps[0]
        lv = lp.target.id
        adds = [x for st in lp.body for x in ast.walk(st) if isinstance(x, ast.Call) and isinstance(x.func, ast.Attribute)
                and x.func.attr in ("add_child", "add", "append_child") and x.args and lv in norm(x.args[0])]
        recs = [x for st in lp.body for x in ast.walk(st) if isinstance(x, ast.Call) and isinstance(x.func, ast.Attribute) and x.func.attr == "_add_from"]
        ok = len(adds) == 1 and len(recs) == 1 and norm(recs[0].args[0]) == lv and norm(lp.iter) in (f"{src}.children", f"{src}._children")
        obs.append(ctx.ob("COPY-LINEAR", ["C07"], g, "_add_from: one copy and one recursion per source child, in child order", lp, ok,
                          "" if ok else f"{len(adds)} copies / {len(recs)} recursions per child"))
    return obs


# ------------------------------------------------------------ COPY-ID / KIND
def _mentions(e: Optional[ast.AST], texts: Set[str]) -> bool:
    if e is None:
        return False
    return any(norm(x) in texts for x in ast.walk(e))


@rule("COPY-ID", ["C07", "C05", "C02", "C08"], floor=3, section="3.5")
def copy_id(ctx: Ctx) -> List[Ob]:
    """wherever a node is created from a source node's data, the source's data_id travels with it (an explicit id is not recomputed from hash(data)); typed copies carry the source's kind"""
    obs: List[Ob] = []
    env = ctx.env
    for f in ctx.model.all_funcs():
        for c in env.calls_in[f]:
            if not c.args and not any(k.arg in ("data",) for k in c.keywords):
                continue
            # data argument: X.data / X._data with X a Node
            cands = list(c.args[:2])
            src = None
            for a in cands:
                if isinstance(a, ast.Attribute) and a.attr in ("data", "_data") and NODE in env.types(f, a.value):
                    src = a.value
            if src is None:
                continue
            callee_is_ctor = NODECLS in env.types(f, c.func)
            callee_is_add = isinstance(c.func, ast.Attribute) and c.func.attr in ("add_child", "add", "append_child", "prepend_child")
            if not (callee_is_ctor or callee_is_add):
                continue
            s = norm(src)
            idtexts = {f"{s}._data_id", f"{s}.data_id"}
            a_id = None
            for k in c.keywords:
                if k.arg == "data_id":
                    a_id = k.value
            ok = _mentions(a_id, idtexts)
            if not ok and isinstance(a_id, ast.Name):
                r = env.reaching(f, c, a_id.id)
                vals = r[0] if r is not None else [b.expr for b in env.scope(f).resolve(a_id.id)[1] if b.kind == "val"]
                ok = any(_mentions(v, idtexts) for v in vals)
            obs.append(ctx.ob("COPY-ID", ["C07", "C05", "C02"] + (["C08"] if "_add_filtered" in f.qualname or f.name == "_add_from" else []), f, f"copy of {s}.data carries {s}._data_id", c, ok,
                              "" if ok else f"the copy of `{s}` gets data_id={norm(a_id) if a_id is not None else 'None'} -> recomputed by calc_data_id(data): "
                              "a node with an explicit data_id is copied under hash(data) and leaves its clone group"))
            # kind for typed code
            typed_callees = [g for g, _ in env.callees(f, c) if "kind" in g.param_names()]
            typed_ctx = any(x.startswith("Typed") or x.startswith("_SystemRootTyped") for x in ctx.model.runtime_classes_for(f))
            if typed_callees and typed_ctx:
                a_kind = None
                for k in c.keywords:
                    if k.arg == "kind":
                        a_kind = k.value
                if a_kind is None and callee_is_ctor and c.args:
                    a_kind = c.args[0]
                kt = {f"{s}.kind", f"{s}._kind"}
                okk = _mentions(a_kind, kt)
                if not okk and isinstance(a_kind, ast.Name):
                    vals = [b.expr for b in env.scope(f).resolve(a_kind.id)[1] if b.kind == "val"]
                    okk = any(_mentions(v, kt) for v in vals)
                obs.append(ctx.ob("COPY-KIND", ["C07"], f, f"copy of {s}.data carries {s}.kind", c, okk,
                                  "" if okk else f"typed copy of `{s}` gets kind={norm(a_kind) if a_kind is not None else 'default'}: "
                                  "copied nodes lose their kind (become DEFAULT_CHILD_TYPE)"))
                obs[-1].rule = "COPY-ID"
                obs[-1].construct = "[kind] " + obs[-1].construct
    return obs


@rule("CLS-HARD", ["C07"], floor=3, section="3.5")
def cls_hard(ctx: Ctx) -> List[Ob]:
    """a copying method of a class that has in-package subclasses instantiates the receiver's class, not a hard-coded base class"""
    obs: List[Ob] = []
    m = ctx.model
    for q in ("Tree.copy", "Node.copy", "Tree._from_list", "TypedTree._from_list"):
        f = m.func(q)
        ctors = [c for c in ctx.env.calls_in[f] if TREECLS in ctx.env.types(f, c.func) or (isinstance(c.func, ast.Name) and m.is_family(c.func.id, "Tree"))]
        if not ctors:
            raise AnalysisError(f"{q}: tree construction not found")
        for c in ctors:
            hard = isinstance(c.func, ast.Name) and c.func.id in m.classes
            props = ["C07"] if "copy" in q else ["C05"]
            obs.append(ctx.ob("CLS-HARD", props, f, f"{q} constructs {norm(c.func)}(...)", c, not hard,
                              "" if not hard else f"`{norm(c.func)}(...)` is hard-coded: the copy of a TypedTree is a plain Tree of plain Nodes (kinds are lost)"))
    return obs


# ---------------------------------------------------------------- SIB-ENTRY
@rule("SIB-ENTRY", ["C05", "C12"], floor=4, section="3.7")
def sib_entry(ctx: Ctx) -> List[Ob]:
    """both _make_list_entry builders emit a custom data_id on every path that returns an entry (or delegate to the base builder)"""
    obs: List[Ob] = []
    m = ctx.model
    for q in ("Node._make_list_entry", "TypedNode._make_list_entry"):
        f = m.func(q)
        cfg = ctx.cfg(f)
        custom_names = set()
        for n in iter_own(f.node):
            if isinstance(n, ast.Assign) and isinstance(n.value, ast.Compare) and "_data_id" in norm(n.value) and "hash(" in norm(n.value):
                for t in n.targets:
                    if isinstance(t, ast.Name):
                        custom_names.add(t.id)

        def discharges(n: N) -> bool:
            if n.kind == "test":
                t = norm(n.ast)
                if ("_data_id" in t and "hash(" in t) or any(nm in {x.id for x in ast.walk(n.ast) if isinstance(x, ast.Name)} for nm in custom_names):
                    return True
            if n.kind == "stmt" and n.ast is not None:
                for c in ast.walk(n.ast):
                    if isinstance(c, ast.Call) and any(g.qualname == "Node._make_list_entry" and g is not f for g, _ in ctx.env.callees(f, c)):
                        return True
            return False

        rets = [n for n in cfg.stmt_nodes() if n.kind == "stmt" and isinstance(n.ast, ast.Return)]
        for r in rets:
            ok = cfg.dominated_by(r, discharges)
            p = None if ok else cfg.find_path(cfg.entry, r, avoid=lambda n: n is not r and discharges(n))
            obs.append(ctx.ob("SIB-ENTRY", ["C05", "C12"], f, f"{norm(r.ast)}: custom data_id considered on every path", r.ast, ok,
                              "" if ok else "an entry is returned without testing for / storing a custom data_id: the node reloads under hash(data)",
                              describe_path(p) if p else None))
        if q == "Node._make_list_entry":
            stores = [n for n in iter_own(f.node) if isinstance(n, ast.Assign) and norm(n.targets[0]) == "data['data_id']"]
            ok = len(stores) == 1 and norm(stores[0].value) in ("node._data_id", "node.data_id")
            obs.append(ctx.ob("SIB-ENTRY", ["C05", "C12"], f, "custom id is stored as data['data_id'] = node._data_id", None, ok,
                              "" if ok else "the stored id must be the node's data_id under the key the readers use"))
        else:
            stores = [n for n in iter_own(f.node) if isinstance(n, ast.Assign) and norm(n.targets[0]) == "data['kind']"]
            ok = len(stores) == 1 and norm(stores[0].value) in ("node.kind", "node._kind")
            obs.append(ctx.ob("SIB-ENTRY", ["C05", "C12"], f, "typed entries store data['kind'] = node.kind", None, ok,
                              "" if ok else "the kind must be stored under the key the typed reader uses"))
    return obs
