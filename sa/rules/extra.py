"""Rules added after the first round of independently seeded changes
(/verif/seeded): each one is a structural necessary condition that the first
rule set did not cover."""
from __future__ import annotations

import ast
import re
from typing import Dict, List, Optional, Set, Tuple

from ..cfg import describe_path
from ..core import Ctx, Ob, rule
from ..infer import NODE, NODECLS, SLOT
from ..model import AnalysisError, Func, iter_own, norm
from ..pat import find, has, match, one
from .pair import P_effect
from .util import raised_class, stands_for_params, stmt_index


def _raises_unique(node: ast.AST) -> bool:
    return any(isinstance(x, ast.Raise) and raised_class(x) == "UniqueConstraintError" for x in ast.walk(node))


@rule("UNIQ-SCOPE", ["C03", "C01"], floor=2, section="3.1+")
def uniq_scope(ctx: Ctx) -> List[Ob]:
    """a sibling-uniqueness scan that runs for several nodes scans the siblings of *each* of them (the scanned list is derived from the outer loop variable), and compares stored data_ids of raw parent links (not the None-mapping `parent` property)"""
    obs: List[Ob] = []
    m = ctx.model
    for f in m.all_funcs():
        if not m.is_family(f.top.cls, "Node") and not m.is_family(f.top.cls, "Tree"):
            continue
        for outer in iter_own(f.node):
            if not isinstance(outer, ast.For):
                continue
            inner = [x for st in outer.body for x in ast.walk(st) if isinstance(x, ast.For) and _raises_unique(x)]
            ov = {x.id for x in ast.walk(outer.target) if isinstance(x, ast.Name)}
            for lp in inner:
                used = {x.id for x in ast.walk(lp.iter) if isinstance(x, ast.Name)}
                ok = bool(used & ov)
                if not ok:
                    # each outer node is compared with one fixed list (all of them go below the same parent): the id that is
                    # looked for is the outer node's own
                    cmp_names = {x.id for t in ast.walk(lp) if isinstance(t, ast.If) and any(isinstance(r, ast.Raise) for r in ast.walk(t))
                                 for cmp_ in ast.walk(t.test) if isinstance(cmp_, ast.Compare) and any(isinstance(o_, (ast.Eq, ast.NotEq)) for o_ in cmp_.ops)
                                 for x in ast.walk(cmp_) if isinstance(x, ast.Name)}
                    ok = bool(cmp_names & ov)
                # ... and it is the raw list of all siblings, not a (kind-aware) query
                raw = isinstance(lp.iter, ast.Attribute) and lp.iter.attr in ("_children", "children")
                if ok and not raw:
                    kinded = [g for c_ in ast.walk(lp.iter) if isinstance(c_, ast.Call) for g, _ in ctx.env.callees(f, c_)
                              if {"kind", "any_kind"} & set(g.param_names())]
                    if kinded:
                        obs.append(ctx.ob("UNIQ-SCOPE", ["C03"], f, f"uniqueness scan covers all siblings ({f.qualname})", lp, False,
                                          f"`{norm(lp.iter)}` resolves to {kinded[0].qualname}, which only returns siblings of the same kind in a typed tree: "
                                          "a conflicting sibling of another kind is not seen"))
                        continue
                obs.append(ctx.ob("UNIQ-SCOPE", ["C03"], f, f"uniqueness scan inside a loop over several nodes ({f.qualname})", lp, ok,
                                  "" if ok else f"the scan iterates `{norm(lp.iter)}`, which does not depend on the outer loop variable "
                                  f"{sorted(ov)}: only one node's siblings are checked, a conflict at another clone's parent is accepted"))
        # a scan that leaves out one node by identity (`s is not q`) and compares data_ids looks for a conflicting *sibling of q*:
        # the list it walks must be q's own sibling list (a helper that takes q but walks `self._parent._children` checks the
        # wrong parent for every other q)
        for lp in ast.walk(f.node):
            if not (isinstance(lp, ast.For) and isinstance(lp.target, ast.Name) and isinstance(lp.iter, ast.Attribute) and lp.iter.attr in ("_children", "children")):
                continue
            sv = lp.target.id
            qs = set()
            has_id_cmp = False
            for t in ast.walk(lp):
                if isinstance(t, ast.Compare) and len(t.ops) == 1:
                    l_, r_ = t.left, t.comparators[0]
                    if isinstance(t.ops[0], ast.IsNot) and isinstance(l_, ast.Name) and isinstance(r_, ast.Name) and sv in (l_.id, r_.id):
                        qs.add(r_.id if l_.id == sv else l_.id)
                    if isinstance(t.ops[0], (ast.Eq, ast.NotEq)) and any(isinstance(y, ast.Attribute) and y.attr in ("_data_id", "data_id") for y in ast.walk(t)):
                        has_id_cmp = True
            if not has_id_cmp or len(qs) != 1:
                continue
            q = next(iter(qs))
            used = {x.id for x in ast.walk(lp.iter) if isinstance(x, ast.Name)}
            okq = q in used
            if not okq and not any(isinstance(x, ast.Attribute) and x.attr in ("_parent", "parent") for x in ast.walk(lp.iter)):
                # the list walked is some node's *own children* (a parent-side scan that merely leaves one child out), not the
                # sibling list of another node
                continue
            obs.append(ctx.ob("UNIQ-SCOPE", ["C03"], f, f"sibling scan that excludes `{q}` walks `{q}`'s own siblings ({f.qualname})", lp, okq,
                              "" if okq else f"the scan leaves out `{q}` but walks `{norm(lp.iter)}`: for any `{q}` other than the one that list belongs to, the wrong parent's "
                              "children are checked and a real conflict below its own parent is accepted"))
        # scans that compare the `parent` property with a raw node
        for n in iter_own(f.node):
            if isinstance(n, ast.Compare) and len(n.ops) == 1 and isinstance(n.ops[0], (ast.Is, ast.IsNot)):
                sides = [n.left, n.comparators[0]]
                prop = [s for s in sides if isinstance(s, ast.Attribute) and s.attr == "parent" and NODE in ctx.env.types(f, s.value)]
                other = [s for s in sides if s not in prop]
                if len(prop) == 1 and other and not (isinstance(other[0], ast.Constant) and other[0].value is None):
                    obs.append(ctx.ob("UNIQ-SCOPE", ["C03", "C01"], f, f"`.parent` compared with a node in {f.qualname}", n, False,
                                      f"`{norm(n)}`: the public `parent` property maps the system root to None, so a node whose parent is the "
                                      "(invisible) root never compares equal to it: top-level conflicts are missed"))
                elif len(prop) == 2:
                    obs.append(ctx.ob("UNIQ-SCOPE", ["C03"], f, f"`.parent` compared with `.parent` in {f.qualname}", n, True))
    # set_data(with_clones=True) renames every clone: each refusal that can be reached with with_clones set sits in a scan over the clone list
    try:
        from .util import cond_texts, path_conds, resolve_expr

        f = m.func("Node.set_data")
        raises = [r for r in ast.walk(f.node) if isinstance(r, ast.Raise) and raised_class(r) == "UniqueConstraintError"]
        ok: Optional[bool] = True if raises else None
        for r in raises:
            texts = cond_texts(path_conds(ctx, f, r))
            if any(t in ("not with_clones", "with_clones is None", "with_clones is False") or t.startswith("not with_clones") for t in texts):
                continue  # only this node changes on that path
            encl = []
            cur = m.parent_of(r)
            while cur is not None and cur is not f.node:
                if isinstance(cur, ast.For):
                    encl.append(cur)
                cur = m.parent_of(cur)
            its = [norm(resolve_expr(ctx, f, lp, lp.iter)) for lp in encl]
            if any("_nodes_by_data_id[self._data_id]" in t or "get_clones(" in t for t in its):
                continue  # the scan runs once per clone
            mentions_self = any("self._parent" in t for t in its) or any("self._parent" in t for t in texts)
            if mentions_self and not any("with_clones" in t and not t.startswith("not (") for t in texts):
                ok = False  # witness: refusal decided from this node's own parent alone although all clones are renamed
            elif ok:
                ok = None
        obs.append(ctx.tri("UNIQ-SCOPE", ["C03"], f, "set_data(with_clones=True) checks the new data_id below the parent of every clone it renames", None, ok,
                           "the refusal looks at `self._parent` only: a conflict below another clone's parent is accepted and two siblings share a data_id"))
    except AnalysisError:
        raise
    return obs


@rule("SLOT-NEW", ["C02", "C03"], floor=3, section="3.1+")
def slot_new(ctx: Ctx) -> List[Ob]:
    """a clone list is stored under a key of the data_id index only where that key is known to be absent (in the `except KeyError` of a lookup of the same key, or under `key not in index`): an existing slot is extended, never overwritten"""
    obs: List[Ob] = []
    m = ctx.model
    for f in m.all_funcs():
        for e, node in ctx.fx.direct_nodes[f]:
            if not (e.op == "setitem" and e.field == "_nodes_by_data_id"):
                continue
            tgt = node.targets[0] if isinstance(node, ast.Assign) else None
            key = norm(tgt.slice) if isinstance(tgt, ast.Subscript) else "?"
            base = norm(tgt.value) if isinstance(tgt, ast.Subscript) else "?"
            ok = False
            p = m.parent_of(node)
            while p is not None and p is not f.node:
                if isinstance(p, ast.ExceptHandler) and p.type is not None and norm(p.type) == "KeyError":
                    tr = m.parent_of(p)
                    if isinstance(tr, ast.Try) and any(isinstance(x, ast.Subscript) and isinstance(x.ctx, ast.Load) and norm(x.value) == base and norm(x.slice) == key
                                                       for st in tr.body for x in ast.walk(st)):
                        ok = True
                if isinstance(p, ast.If) and has(f"{key} not in {base}", p.test) and any(node is x for st in p.body for x in ast.walk(st)):
                    ok = True
                if isinstance(p, ast.If) and any(node is x for st in p.body for x in ast.walk(st)):
                    e_ = match("$v is None", p.test)
                    if e_ is not None and has(f"$v = {base}.get({key})", f.node, e_):
                        ok = True
                p = m.parent_of(p)
            if not ok:
                # known absent through the path conditions: `key in index` is false, or the looked-up slot is None
                from .util import path_conds, reaching_values

                for a_, pol in path_conds(ctx, f, node):
                    if (not pol) and norm(a_) == f"{key} in {base}":
                        ok = True
                    if pol and isinstance(a_, ast.Compare) and len(a_.ops) == 1 and isinstance(a_.ops[0], ast.Is) and norm(a_.comparators[0]) == "None":
                        if any(norm(v_) == f"{base}.get({key})" for v_ in reaching_values(ctx, f, node, a_.left)) or norm(a_.left) == f"{base}.get({key})":
                            ok = True
            obs.append(ctx.ob("SLOT-NEW", ["C02", "C03"], f, f"index slot store in {f.qualname}", node, ok,
                              "" if ok else f"`{norm(node)}` may overwrite an existing clone list: the nodes already filed under that data_id vanish from "
                              "the index (lookups miss them, and _register no longer sees them when checking sibling uniqueness)"))
    # slots are created by these stores only: the two indexes are plain dicts (a defaulting mapping creates an empty slot on
    # every lookup of an absent key, and count_unique is the number of slots)
    for f in m.all_funcs():
        for x in ast.walk(f.node):
            if isinstance(x, (ast.Assign, ast.AnnAssign)):
                tg = x.targets if isinstance(x, ast.Assign) else [x.target]
                for t in tg:
                    if isinstance(t, ast.Attribute) and t.attr in ("_nodes_by_data_id", "_node_by_id") and x.value is not None:
                        v = x.value
                        plain = (isinstance(v, ast.Dict) and not v.keys) or (isinstance(v, ast.Call) and norm(v.func) == "dict" and not v.args and not v.keywords)
                        defaulting = isinstance(v, ast.Call) and norm(v.func).split(".")[-1] in ("defaultdict", "Counter")
                        obs.append(ctx.tri("SLOT-NEW", ["C02"], f, f"{t.attr} is a plain dict", x, True if plain else False if defaulting else None,
                                           f"`{norm(x)}`: a lookup of an absent key inserts an empty slot, so count_unique (the number of slots) grows with every miss "
                                           "and `in` / find answer from a slot that holds no node"))
    return obs


#: recursion parameters that are deliberately not forwarded (one line of reason each)
REC_ALLOW = {
    ("Tree.save", "compression"): "the recursion writes to the stream that was just opened with that compression",
    ("Tree.load", "auto_uncompress"): "the recursion reads from the stream that was just opened",
    ("tree_to_dotfile", "format"): "the recursion writes the DOT text; conversion happens in the outer call",
    ("node_to_mermaid_flowchart", "format"): "conversion happens in the outer call",
    ("Node.add_child", "data_id"): "ids cannot apply to the several nodes of a tree argument",
    ("Node.add_child", "node_id"): "ids cannot apply to the several nodes of a tree argument",
    ("TypedNode.add_child", "data_id"): "ids cannot apply to the several nodes of a tree argument",
    ("TypedNode.add_child", "node_id"): "ids cannot apply to the several nodes of a tree argument",
    ("TypedNode.add_child", "kind"): "each copied node takes its kind from the default / its source",
    ("Tree.save", "target"): "replaced by the opened stream",
}


@rule("REC-FWD", ["C01", "C03", "C04", "C05", "C06", "C07", "C08", "C09", "C10", "C11", "C12", "C14", "C15", "C16", "C17", "C19", "C20"], floor=8, section="3.6+")
def rec_fwd(ctx: Ctx) -> List[Ob]:
    """a function that calls itself (on another object or stream) passes every one of its options on explicitly; an omitted option silently falls back to its default for the inner call"""
    obs: List[Ob] = []
    env = ctx.env
    m = ctx.model
    for w in m.all_funcs():
        if w.parent is not None:
            continue
        params = [p for p in w.param_names() if p != w.self_name and p not in ("cls",)]
        from ..known_funcs import KNOWN_PARAMS

        ref = KNOWN_PARAMS.get(f"{w.module}:{w.qualname}")
        if ref is not None:
            params = [p for p in params if p in ref]  # a new option: what it does in the inner call is not stated anywhere
        if not params:
            continue
        for c in env.calls_in[w]:
            cs = env.callees(w, c)
            if not any(g is w for g, _ in cs):
                continue
            if any(isinstance(a, ast.Starred) for a in c.args) or any(k.arg is None for k in c.keywords):
                continue
            recv = [r for g, r in cs if g is w][0]
            bound = recv is not None or w.kind == "classmethod"
            for p in params:
                a = env._actual_for(w, c, p, bound=bound)
                ok = a is not None or (w.qualname, p) in REC_ALLOW
                if not ok:
                    # omitted where the caller's own value is known to equal the default: `p` is falsy / None on this
                    # path and the default is None (e.g. the unfiltered branch of _add_from recursing without predicate)
                    from .util import path_conds

                    d = w.param_default(p)
                    if d is not None and isinstance(d, ast.Constant) and d.value is None:
                        for a_, pol in path_conds(ctx, w, c):
                            if ((not pol) and norm(a_) == p) or (pol and norm(a_) == f"{p} is None"):
                                ok = True
                n = w.name
                props = ["C05", "C12"] if n in ("save", "load") else ["C17"] if "dot" in n or "mermaid" in n or w.module in ("rdf", "dot", "mermaid") \
                    else ["C07"] if n in ("_add_from", "copy_to") else ["C04", "C01"]
                from .own import family_props

                fam = family_props(w)
                if fam and props == ["C04", "C01"]:
                    props = fam  # the operation family the function belongs to, when it is not a mutator
                obs.append(ctx.ob("REC-FWD", props, w, f"recursive call of {w.qualname} passes `{p}`", c, ok,
                                  "" if ok else f"`{norm(c)}` omits `{p}`: the inner call runs with the default instead of the caller's choice"))
    return obs


@rule("MOVE-ORDER", ["C04", "C01"], floor=1, section="3.3+")
def move_order(ctx: Ctx) -> List[Ob]:
    """in move_to the target position is looked up after the node was taken out of its old list (for a move within one parent the indices shift)"""
    obs: List[Ob] = []
    f = ctx.model.func("Node.move_to")
    cfg = ctx.cfg(f)
    si = stmt_index(ctx, f)
    unlink = P_effect(si, ["remove", "pop", "delitem"], ["_children"])
    looks = []
    for n in cfg.stmt_nodes():
        if n.kind != "stmt" or unlink(n):
            continue
        for x in ast.walk(n.ast):
            if isinstance(x, ast.Call) and ((isinstance(x.func, ast.Name) and x.func.id == "_index_of") or (isinstance(x.func, ast.Attribute) and x.func.attr == "index")) \
                    and any(isinstance(a, ast.Name) and "before" in stands_for_params(ctx, f, a.id) for a in x.args):
                looks.append(n)
    for n in looks:
        ok = cfg.dominated_by(n, unlink)
        obs.append(ctx.ob("MOVE-ORDER", ["C04", "C01"], f, "position of `before` is looked up after self left its old list", n.ast, ok,
                          "" if ok else "a same-parent move with before=<sibling to the right> lands one slot too far right"))
    if not looks:
        obs.append(ctx.ob("MOVE-ORDER", ["C04"], f, "move_to looks up the position of `before`", None, False, "before=<node> is not honoured"))
    return obs


@rule("ALIAS-ARG", ["C07", "C04", "C11"], floor=2, section="3.5+")
def alias_arg(ctx: Ctx) -> List[Ob]:
    """no node is constructed with another node's mutable container (meta dict, child list) as argument: copies get their own containers"""
    obs: List[Ob] = []
    env = ctx.env
    for f in ctx.model.all_funcs():
        for c in env.calls_in[f]:
            if NODECLS not in env.types(f, c.func) and not (isinstance(c.func, ast.Name) and ctx.model.is_family(c.func.id, "Node")):
                continue
            bad = None
            for a in list(c.args) + [k.value for k in c.keywords]:
                fl = {fld for _r, fld in env.fields(f, a)}
                if fl & {"_meta", "_children"}:
                    bad = (a, fl)
            obs.append(ctx.ob("ALIAS-ARG", ["C07", "C04", "C11"], f, f"node construction in {f.qualname}: {norm(c.func)}(...)", c, bad is None,
                              "" if bad is None else f"`{norm(bad[0])}` hands the source's {sorted(bad[1])} container to the new node: "
                              "a later in-place metadata edit on either side shows on the other"))
    return obs


@rule("PRED-NORM", ["C08"], floor=1, section="3.8+")
def pred_norm(ctx: Ctx) -> List[Ob]:
    """call_predicate also normalises control *classes* that are returned (SkipBranch, SelectBranch, StopTraversal without parentheses) into instances, as the user guide allows for returned and raised values alike"""
    obs: List[Ob] = []
    f = ctx.model.func("call_predicate")
    names = set()
    for c in ast.walk(f.node):
        if isinstance(c, ast.Call) and isinstance(c.func, ast.Name) and c.func.id == "issubclass" and len(c.args) == 2:
            names |= {x.id for x in ast.walk(c.args[1]) if isinstance(x, ast.Name)}
        if isinstance(c, ast.Compare) and len(c.ops) == 1 and isinstance(c.ops[0], ast.Is) and isinstance(c.comparators[0], ast.Name) and c.comparators[0].id[:1].isupper():
            names.add(c.comparators[0].id)
    controls = {"SkipBranch", "SelectBranch", "StopTraversal"}
    if "IterationControl" in names or controls <= names:
        ok = True
    elif names & controls:
        ok = False  # some control classes are normalised, others forgotten
    elif has("isinstance($r, type)", f.node):
        ok = True
    else:
        ok = False
    missing = sorted(controls - names) if names & controls and "IterationControl" not in names else []
    obs.append(ctx.ob("PRED-NORM", ["C08"], f, "a returned control class is turned into an instance", None, ok,
                      "" if ok else f"`return {missing[0] if missing else 'SkipBranch'}` (the class) matches no isinstance() case of filter()/copy(): the verdict is silently ignored"))
    return obs


@rule("GUARD-TREE", ["C01"], floor=1, section="3.1+")
def guard_tree(ctx: Ctx) -> List[Ob]:
    """re-parenting stays inside one tree: every write of a registered node's _parent is dominated (on every path, for node and tree targets alike) by a refusal that compares the target's tree with self's tree"""
    obs: List[Ob] = []
    for f in ctx.model.all_funcs():
        if f.name == "__init__" or f.qualname == "Tree._unregister":
            continue
        for e, node in ctx.fx.direct_nodes[f]:
            if not (e.op == "rebind" and e.field == "_parent" and e.root != "fresh"):
                continue
            cfg = ctx.cfg(f)
            t = cfg.stmt_node_of(node, ctx.model.parent_of)

            def tree_guard(n) -> bool:
                if n.kind != "test":
                    return False
                pi = ctx.model.parent_of(n.ast)
                if not isinstance(pi, ast.If) or not any(isinstance(x, ast.Raise) for st in pi.body for x in ast.walk(st)):
                    return False
                txt = norm(n.ast)
                return "._tree is not self._tree" in txt or "self._tree is not " in txt and "._tree" in txt.split("self._tree is not ")[1]

            ok = cfg.dominated_by(t, tree_guard)
            obs.append(ctx.ob("GUARD-TREE", ["C01"], f, f"{norm(node)} is preceded by a same-tree refusal on every path", node, ok,
                              "" if ok else "a node can be moved below a node of another tree: it stays registered (and counted) in the old tree "
                              "and is reachable but uncounted in the new one"))
    return obs


@rule("DATA-IS", ["C02", "C04"], floor=1, section="3.2+")
def data_is(ctx: Ctx) -> List[Ob]:
    """set_data recognises 'same data object' by identity: an equal-but-distinct data object (different id) is a change and must be applied"""
    obs: List[Ob] = []
    f = ctx.model.func("Node.set_data")
    cmps = [n for n in iter_own(f.node) if isinstance(n, ast.Compare) and len(n.ops) == 1 and
            {norm(n.left), norm(n.comparators[0])} == {"data", "self._data"}]
    if not cmps:
        obs.append(ctx.ob("DATA-IS", ["C02", "C04"], f, "set_data compares the new data with the current data object", None, False, "test not found"))
    for c in cmps:
        ok = isinstance(c.ops[0], (ast.Is, ast.IsNot))
        obs.append(ctx.ob("DATA-IS", ["C02", "C04"], f, "set_data: `data is self._data` (identity) decides that nothing changes", c, ok,
                          "" if ok else "`==` treats an equal-comparing new object as unchanged: the node keeps its old data and stale data_id"))
    return obs


@rule("SORT-GUARD", ["C04"], floor=1, section="3.4+")
def sort_guard(ctx: Ctx) -> List[Ob]:
    """sort_children returns early only when there is nothing to do at this node *and below*: a node with a single child still recurses when deep is set"""
    obs: List[Ob] = []
    from .util import path_conds

    f = ctx.model.func("Node.sort_children")
    recs = [c for c in ctx.env.calls_in[f] if isinstance(c.func, ast.Attribute) and c.func.attr == "sort_children"]
    if not recs:
        raise AnalysisError("Node.sort_children: recursive call not found")
    bad = None
    for c in recs:
        for e, pol in path_conds(ctx, f, c):
            t = norm(e)
            # the recursion must not depend on the number of children (other than through `deep`)
            if "len(" in t and "deep" not in t and not (pol and t.startswith("len(") and t.endswith("> 0")):
                bad = ("" if pol else "not ") + t
    ok = bad is None
    obs.append(ctx.ob("SORT-GUARD", ["C04"], f, "the early return of sort_children keeps descending below an only child when deep is set", None, ok,
                      "" if ok else f"`{bad}`: a deep sort stops at every node that has exactly one child"))
    return obs


@rule("ITER-NORET", ["C06"], floor=1, section="3.8+")
def iter_noret(ctx: Ctx) -> List[Ob]:
    """Node.iterator has no early exit: the start node (add_self) is emitted for leaves too, exactly as visit() calls back for it"""
    obs: List[Ob] = []
    f = ctx.model.func("Node.iterator")
    rets = [n for n in iter_own(f.node, into_lambda=False) if isinstance(n, ast.Return)]
    obs.append(ctx.ob("ITER-NORET", ["C06"], f, "iterator() has no early return", rets[0] if rets else None, not rets,
                      "" if not rets else f"`{norm(ctx.model.parent_of(rets[0]))[:80]}`: a start node without children is not yielded although add_self is set"))
    g = ctx.model.func("Node.visit")
    # in visit() every `return` lies inside the try (after a callback) or is the handler's
    tr = [n for n in iter_own(g.node) if isinstance(n, ast.Try) and any(h.type is not None and norm(h.type) == "StopTraversal" for h in n.handlers)]
    early = []
    if tr:
        inside = {id(x) for x in ast.walk(tr[0])}
        from .util import stmts_before

        # (a `return` behind the try - `return result` - is not an early one)
        early = [n for n in iter_own(g.node) if isinstance(n, ast.Return) and id(n) not in inside and not any(s_ is tr[0] for s_ in stmts_before(ctx, g, n))]
    obs.append(ctx.ob("ITER-NORET", ["C06"], g, "visit() has no return before the traversal starts", None, not early, "" if not early else "early exit skips the start node"))
    return obs


# -------------------------------------------------------------- CACHE-INVAL
_CACHE_CONTROL = '''
class ZzCacheNode:
    def __init__(self):
        self._zz_up = None
        self._zz_memo = None

    def zz_depth(self):
        if self._zz_memo is None:
            d = 0
            p = self._zz_up
            while p is not None:
                d += 1
                p = p._zz_up
            self._zz_memo = d
        return self._zz_memo

    def zz_move(self, other):
        self._zz_up = other
'''


def _attr_receiver(node: ast.AST, field: str) -> Optional[str]:
    """Text of X in the first `X.<field>` inside node (the object whose field a statement writes)."""
    for x in ast.walk(node):
        if isinstance(x, ast.Attribute) and x.attr == field:
            return norm(x.value)
    return None


def _cache_findings(ctx: Ctx, new_attr) -> List[tuple]:
    """[(memoising function, attribute, mutator, field, receiver, write node)]: a function g keeps a value it computed in
    a *new* attribute A of its receiver and reads it back (memoisation); some other function writes a field F that g
    (or what g calls) reads, on a receiver r, without also writing r.A."""
    m = ctx.model
    env = ctx.env
    fx = ctx.fx
    MUT = {"append", "insert", "pop", "remove", "sort", "clear", "extend", "reverse", "update", "setdefault", "popitem", "add", "discard"}

    def writes_of(F: Func) -> List[Tuple[str, str, ast.AST]]:
        """(field, receiver text, node) for the state writes in F's own body."""
        res = []
        for x in ast.walk(F.node):
            if isinstance(x, ast.Attribute) and isinstance(x.ctx, (ast.Store, ast.Del)):
                res.append((x.attr, norm(x.value), x))
            elif isinstance(x, ast.Subscript) and isinstance(x.ctx, (ast.Store, ast.Del)) and isinstance(x.value, ast.Attribute):
                res.append((x.value.attr, norm(x.value.value), x))
            elif isinstance(x, ast.Call) and isinstance(x.func, ast.Attribute) and x.func.attr in MUT and isinstance(x.func.value, ast.Attribute):
                res.append((x.func.value.attr, norm(x.func.value.value), x))
        return res

    all_writes = {F: writes_of(F) for F in m.all_funcs()}
    written_fields = {w[0] for ws in all_writes.values() for w in ws}
    out: List[tuple] = []
    memo = []
    for g in m.all_funcs():
        if g.name == "__init__" or g.parent is not None:
            continue
        stores: Dict[str, List[ast.AST]] = {}
        loads: Dict[str, List[ast.AST]] = {}
        for x in ast.walk(g.node):
            if isinstance(x, ast.Attribute) and new_attr(x.attr):
                (stores if isinstance(x.ctx, ast.Store) else loads).setdefault(x.attr, []).append(x)
        for a, ss in stores.items():
            # a stored value that is not a constant (resetting to None is invalidation, not memoisation)
            vals = []
            for t in ss:
                st = m.parent_of(t)
                while st is not None and not isinstance(st, (ast.Assign, ast.AnnAssign, ast.AugAssign)):
                    st = m.parent_of(st)
                if st is not None and getattr(st, "value", None) is not None and not isinstance(st.value, ast.Constant):
                    vals.append((t, st))
            if vals and a in loads and {norm(t.value) for t, _ in vals} & {norm(l.value) for l in loads[a]}:
                memo.append((g, a))
    for g, a in memo:
        # fields g's computation reads (transitively, bounded)
        reads: Set[str] = set()
        seen: Set[Func] = set()
        todo = [(g, 0)]
        while todo:
            h, d = todo.pop()
            if h in seen or d > 4:
                continue
            seen.add(h)
            for x in ast.walk(h.node):
                if isinstance(x, ast.Attribute) and isinstance(x.ctx, ast.Load) and x.attr in written_fields and x.attr != a:
                    reads.add(x.attr)
            for c in env.calls_in.get(h, []):
                for k, _r in env.callees(h, c):
                    todo.append((k, d + 1))
        for M in m.all_funcs():
            if M is g or M.name == "__init__":
                continue
            resets = set()
            for x in ast.walk(M.node):
                if isinstance(x, ast.Attribute) and x.attr == a and isinstance(x.ctx, (ast.Store, ast.Del)):
                    resets.add(norm(x.value))
            # ... or through a callee that resets its own receiver's A
            for c in env.calls_in.get(M, []):
                if isinstance(c.func, ast.Attribute):
                    for k, _r in env.callees(M, c):
                        if any(isinstance(x, ast.Attribute) and x.attr == a and isinstance(x.ctx, (ast.Store, ast.Del)) and isinstance(x.value, ast.Name) and x.value.id == k.self_name
                               for x in ast.walk(k.node)):
                            resets.add(norm(c.func.value))
            done = set()
            for fld, r, node in all_writes[M]:
                if fld not in reads:
                    continue
                if r in resets or (M.qualname, fld, r) in done:
                    continue
                done.add((M.qualname, fld, r))
                st = node
                while st is not None and not isinstance(st, ast.stmt):
                    st = m.parent_of(st)
                out.append((g, a, M, fld, r, st if st is not None else node))
    return out


@rule("CACHE-INVAL", ["C01", "C02", "C03", "C04", "C05", "C06", "C07", "C08", "C09", "C10", "C11", "C12", "C13", "C14", "C15", "C16", "C17", "C19", "C20"], floor=1, section="3.6+")
def cache_inval(ctx: Ctx) -> List[Ob]:
    """new state that memoises a computed value (an attribute the reference tree does not have, filled and read back by the same function) is reset wherever a field that the computation reads is written, on the same object; a memoised answer that survives a mutation is a stale answer"""
    from ..known_funcs import KNOWN_ATTRS
    from .own import family_props

    obs: List[Ob] = []
    for g, a, M, fld, r, node in _cache_findings(ctx, lambda n: n not in KNOWN_ATTRS and not n.startswith("__") and not n.startswith("_zz") and not n.startswith("zz")):
        props = family_props(g) or (["C15"] if (g.top.cls or "").startswith("Typed") else ["C10"] if g.module == "node" else ["C02"])
        obs.append(ctx.ob("CACHE-INVAL", props, g, f"{g.qualname} memoises in `{a}`: reset where `{fld}` is written in {M.qualname}", node, False,
                          f"{g.qualname} keeps its result in the new attribute `{a}` and computes it from `{fld}`; {M.qualname} writes `{r}.{fld}` "
                          f"(`{norm(node)[:80]}`) without resetting `{r}.{a}`: the memoised value is stale afterwards"))
    # derived state that is defined recursively over neighbours (`self._depth = parent._depth + 1`): whoever writes it on one
    # object must bring the objects that were derived from it (the descendants) up to date as well
    new_attr = lambda n: n not in KNOWN_ATTRS and not n.startswith("__") and not n.startswith("_zz") and not n.startswith("zz")  # noqa: E731
    rec_attrs = {}
    for g in ctx.model.all_funcs():
        for x in ast.walk(g.node):
            if isinstance(x, (ast.Assign, ast.AnnAssign)) and x.value is not None:
                tg = x.targets if isinstance(x, ast.Assign) else [x.target]
                for t in tg:
                    if isinstance(t, ast.Attribute) and new_attr(t.attr) and any(
                            isinstance(y, ast.Attribute) and y.attr == t.attr and isinstance(y.ctx, ast.Load) and norm(y.value) != norm(t.value) for y in ast.walk(x.value)):
                        rec_attrs.setdefault(t.attr, []).append((g, x))
    for a, defs in rec_attrs.items():
        readers = [g for g in ctx.model.all_funcs() if any(isinstance(y, ast.Attribute) and y.attr == a and isinstance(y.ctx, ast.Load) for y in ast.walk(g.node))]
        props = sorted({p_ for g in readers for p_ in (family_props(g) or [])} | ({"C01", "C13"} if any(g.qualname in ("Node.is_descendant_of", "Node.is_ancestor_of", "Node.get_parent_list") for g in readers) else set())) or ["C10"]
        for g, x in defs:
            if g.name == "__init__":
                continue  # a fresh object has no dependants yet
            spreads = any(isinstance(lp_, (ast.For, ast.While)) and any(isinstance(y, ast.Attribute) and y.attr == a and isinstance(y.ctx, ast.Store) for y in ast.walk(lp_)) for lp_ in ast.walk(g.node)) \
                or any(isinstance(c_, ast.Call) and any(k is not g and any(isinstance(y, ast.Attribute) and y.attr == a and isinstance(y.ctx, ast.Store) for y in ast.walk(k.node)) for k, _r in ctx.env.callees(g, c_))
                       for c_ in ctx.env.calls_in.get(g, []))
            obs.append(ctx.ob("CACHE-INVAL", props, g, f"`{a}` is derived from the same attribute of a neighbour: {g.qualname} updates the dependants too", x, spreads,
                              "" if spreads else f"`{norm(x)[:80]}`: `{a}` of an object is computed from `{a}` of another one (its parent), so the objects derived from this one - "
                              f"its descendants - keep a stale `{a}` when only this object is updated; {', '.join(sorted(r_.qualname for r_ in readers)[:4])} read it"))
    # a memoising decorator on a function that reads object state or the outside world
    for g in ctx.model.all_funcs():
        for d_ in g.node.decorator_list:
            dn = norm(d_.func if isinstance(d_, ast.Call) else d_).split(".")[-1]
            if dn not in ("lru_cache", "cache", "cached_property"):
                continue
            params_ = set(g.param_names())
            reads_state = [x for x in ast.walk(g.node) if isinstance(x, ast.Attribute) and isinstance(x.ctx, ast.Load) and isinstance(x.value, ast.Name) and x.value.id in params_
                           and not isinstance(ctx.model.parent_of(x), ast.Call)]
            world = [x for x in ast.walk(g.node) if isinstance(x, ast.Call) and (
                (isinstance(x.func, ast.Attribute) and isinstance(x.func.value, ast.Name) and (x.func.value.id in ("os", "time", "random", "shutil") or x.func.value.id in params_))
                or (isinstance(x.func, ast.Name) and x.func.id in ("open",)))]
            if reads_state or world:
                w_ = (reads_state or world)[0]
                props = family_props(g) or ["C10"]
                obs.append(ctx.ob("CACHE-INVAL", props, g, f"{g.qualname} is memoised by @{dn}", d_, False,
                                  f"the decorated function reads mutable state / the outside world (`{norm(w_)[:60]}`): its first answer is repeated after the state changed"))
    cc = ctx.with_extra({"zz_cache_control": _CACHE_CONTROL})
    hit = [x for x in _cache_findings(cc, lambda n: n.startswith("_zz_memo")) if x[0].name == "zz_depth" and x[2].name == "zz_move"]
    if len(hit) != 1:
        raise AnalysisError("CACHE-INVAL positive control not detected")
    obs.append(ctx.ob("CACHE-INVAL", ["C10"], "control:zz_cache_control", "synthetic memoised depth without invalidation is detected", None, True,
                      f"control reported `{hit[0][1]}` against `{hit[0][3]}` written in {hit[0][2].qualname}"))
    return obs


# ----------------------------------------------------------------- RET-USED
#: package functions that are called for their result: discarding it silently drops what the user's callback answered
RET_USED = {
    "call_mapper": "the mapper may return a new object instead of patching the one it was given",
    "call_predicate": "the verdict (keep / skip / stop) is the whole point of the call",
}


@rule("RET-USED", ["C01", "C02", "C03", "C04", "C05", "C06", "C07", "C08", "C09", "C10", "C11", "C12", "C13", "C14", "C15", "C16", "C17", "C19", "C20"], floor=7, section="3.6+")
def ret_used(ctx: Ctx) -> List[Ob]:
    """the result of call_mapper / call_predicate is used (assigned, passed on, returned, tested) at every call site: a call whose result is dropped ignores what the user's callback answered"""
    from .own import family_props

    obs: List[Ob] = []
    m = ctx.model
    for f in m.all_funcs():
        for c in ctx.env.calls_in.get(f, []):
            nm = norm(c.func).split(".")[-1]
            if nm not in RET_USED:
                continue
            par = m.parent_of(c)
            dropped = isinstance(par, ast.Expr)
            if dropped and f.module == "dot" and nm == "call_mapper":
                # the DOT attribute mappers patch the dict they are given (user guide, "Graphs": attr_def[...] = ...); the
                # reference discards the result there
                obs.append(ctx.ob("RET-USED", ["C17"], f, f"result of {nm}() in {f.qualname}: in-place contract of the DOT mappers", c, True, note=True))
                continue
            props = family_props(f) or (["C14"] if nm == "call_mapper" else ["C08"])
            obs.append(ctx.ob("RET-USED", props, f, f"result of {nm}() is used in {f.qualname}", c, not dropped,
                              "" if not dropped else f"`{norm(c)}` is an expression statement: {RET_USED[nm]}"))
    return obs


# ----------------------------------------------------------------- ENUM-POS
@rule("ENUM-POS", ["C12", "C05"], floor=1, section="3.6+")
def enum_pos(ctx: Ctx) -> List[Ob]:
    """the flat node list names parents by *position*: in the writer's numbering loop (`for i, n in enumerate(walk, 1)`) every round emits exactly one entry - a round that is skipped without a yield (a filter, an early `continue`) shifts every later position while the counter goes on"""
    uctx = getattr(ctx, "unprojected", ctx)  # structural: new options included
    obs: List[Ob] = []
    f = uctx.model.func("Node.to_list_iter")
    loops = [n for n in iter_own(f.node) if isinstance(n, ast.For) and isinstance(n.iter, ast.Call) and norm(n.iter.func) == "enumerate"
             and isinstance(n.target, ast.Tuple) and len(n.target.elts) == 2]
    if len(loops) != 1:
        return [ctx.tri("ENUM-POS", ["C12", "C05"], f, "every round of the numbering loop emits one entry", None, None, "numbering loop (enumerate) not recognised")]
    lp = loops[0]
    cfg = uctx.cfg(f)
    head = cfg.node_for(lp)
    inside = {id(x) for x in ast.walk(lp)}

    def is_yield(n) -> bool:
        return n.ast is not None and id(n.ast) in inside and n.kind == "stmt" and any(isinstance(x, (ast.Yield, ast.YieldFrom)) for x in ast.walk(n.ast))

    if head is None:
        return [ctx.tri("ENUM-POS", ["C12", "C05"], f, "every round of the numbering loop emits one entry", None, None, "loop head not found")]
    p = cfg.find_path(head, head, avoid=is_yield, strict=True)
    ok = p is None
    obs.append(ctx.ob("ENUM-POS", ["C12", "C05"], f, "every round of the numbering loop emits one entry", lp, ok,
                      "" if ok else "a round of the loop can end without a yield while the position counter goes on: every parent / clone position after the "
                      "skipped node is too high (load() raises KeyError or hangs branches below the wrong parent)", describe_path(p) if p else None))
    return obs


# ----------------------------------------------------------------- COPY-ORDER
@rule("COPY-ORDER", ["C07"], floor=1, section="3.6+")
def copy_order(ctx: Ctx) -> List[Ob]:
    """a loop that copies a child list in forward order appends: `add_child(child, before=E)` inside such a loop is discharged for E absent / None, violated for E = True, an index or a caller-supplied parameter (every copy is put in front of the previous one: the copies arrive in reverse order), undecided for anything else"""
    obs: List[Ob] = []
    m = ctx.model
    for f in m.all_funcs():
        if f.module not in ("node", "tree", "typed_tree") or f.name not in ("copy_to", "_add_from", "_add_filtered", "copy", "add_child", "add"):
            continue
        params = set(f.positional_params()) | {a.arg for a in f.node.args.kwonlyargs}
        for lp in iter_own(f.node):
            if not isinstance(lp, ast.For) or not isinstance(lp.target, ast.Name):
                continue
            it = norm(lp.iter)
            if not re.search(r"\.(_?children)\b", it):
                continue
            backwards = it.startswith("reversed(") or "[::-1]" in it
            for c in ast.walk(lp):
                if not (isinstance(c, ast.Call) and isinstance(c.func, ast.Attribute) and c.func.attr in ("add_child", "add", "prepend_child")):
                    continue
                if not any(isinstance(x, ast.Name) and x.id == lp.target.id for a in c.args[:1] for x in ast.walk(a)):
                    continue
                bef = [k.value for k in c.keywords if k.arg == "before"]
                e = bef[0] if bef else None
                if c.func.attr == "prepend_child":
                    e = ast.Constant(True)
                if e is None or (isinstance(e, ast.Constant) and e.value is None):
                    ok = True if not backwards else False
                elif isinstance(e, ast.Constant) and (e.value is True or isinstance(e.value, int)):
                    ok = backwards and e.value is True
                elif isinstance(e, ast.Name) and e.id in params:
                    # (add_child(<tree>, before=...) reverses the top nodes first when `before` prepends: any reversal in sight -> not judged here)
                    src_ = ast.unparse(f.node)
                    ok = None if backwards or "reverse" in src_ or "[::" in src_ else False
                else:
                    ok = None
                obs.append(ctx.tri("COPY-ORDER", ["C07"], f, f"copies made in the child loop of {f.qualname} arrive in source order", c, ok,
                                   f"`{norm(c)}` runs once per child of `{it}`: with before={norm(e) if e is not None else 'None'} "
                                   + ("every copy lands in front of the previous one, so the children arrive in reverse order (before=True / an index)" if ok is False and not (backwards and e is None)
                                      else "the loop runs backwards but appends" if ok is False else "the position argument is not a constant or a parameter")))
    return obs


# ----------------------------------------------------------------- SUPER-KIND
@rule("SUPER-KIND", ["C15"], floor=1, section="3.6+")
def super_kind(ctx: Ctx) -> List[Ob]:
    """a kind-aware TypedNode query that hands its any-kind case to the base class (`super().M()`) gets the untyped answer only if Node.M() does not call back into a query that TypedNode overrides with `any_kind=False` as default: such a call is dispatched to the override and filters by kind again"""
    obs: List[Ob] = []
    m = ctx.model
    over = {}
    for f in m.all_funcs():
        if f.cls == "TypedNode" and "any_kind" in f.param_names():
            over[f.name] = f

    def kind_calls(base: Func, depth: int, seen: set) -> list:
        out = []
        for c in ast.walk(base.node):
            if isinstance(c, ast.Call) and isinstance(c.func, ast.Attribute) and isinstance(c.func.value, ast.Name) and c.func.value.id == "self":
                nm = c.func.attr
                if nm in over and not any(k.arg == "any_kind" or k.arg is None for k in c.keywords):
                    out.append((base, c))
                elif nm not in over and depth > 0 and nm not in seen:
                    g = m.func(f"Node.{nm}", required=False)
                    if g is not None:
                        out += kind_calls(g, depth - 1, seen | {nm})
        return out

    for f in over.values():
        for c in iter_own(f.node):
            if not (isinstance(c, ast.Call) and isinstance(c.func, ast.Attribute) and isinstance(c.func.value, ast.Call)
                    and norm(c.func.value.func) == "super"):
                continue
            base = m.func(f"Node.{c.func.attr}", required=False)
            if base is None:
                obs.append(ctx.tri("SUPER-KIND", ["C15"], f, f"{f.qualname} delegates to the base class", c, None, f"Node.{c.func.attr} not found"))
                continue
            hits = kind_calls(base, 1, {c.func.attr})
            obs.append(ctx.tri("SUPER-KIND", ["C15"], f, f"the base-class answer {f.qualname} delegates to (`{norm(c)}`) is kind-agnostic", c, not hits,
                               "" if not hits else f"{hits[0][0].qualname} calls `{norm(hits[0][1])}`, which a typed node dispatches to TypedNode.{hits[0][1].func.attr} "
                               "(any_kind=False by default): the any-kind answer is filtered by kind after all"))
    return obs


# ----------------------------------------------------------------- PRED-TEST
@rule("PRED-TEST", ["C08"], floor=3, section="3.8+")
def pred_test(ctx: Ctx) -> List[Ob]:
    """the filter family agrees on what "no predicate" means: an entry point that refuses only `predicate is None` lets a falsy callable through, so no function behind it may decide by truthiness (`if predicate:`) whether to filter - it would copy / keep everything"""
    obs: List[Ob] = []
    m = ctx.model
    fam = [f for f in m.all_funcs() if f.module in ("node", "tree", "typed_tree") and "predicate" in f.param_names()]

    def tests(f: Func):
        out = []
        for n in iter_own(f.node):
            t = n.test if isinstance(n, (ast.If, ast.IfExp, ast.While, ast.Assert)) else None
            if t is None:
                continue
            parts = [t]
            while parts:
                x = parts.pop()
                if isinstance(x, ast.BoolOp):
                    parts += x.values
                elif isinstance(x, ast.UnaryOp) and isinstance(x.op, ast.Not):
                    parts.append(x.operand)
                elif isinstance(x, ast.Name) and x.id == "predicate":
                    out.append(("truthy", n))
                elif isinstance(x, ast.Compare) and norm(x.left) == "predicate" and isinstance(x.ops[0], (ast.Is, ast.IsNot)) and norm(x.comparators[0]) == "None":
                    out.append(("none", n))
        return out

    alltests = [(f, k, n) for f in fam for k, n in tests(f)]
    truthy = [(f, n) for f, k, n in alltests if k == "truthy"]
    for f, k, n in alltests:
        body = list(f.node.body)
        after = body[body.index(n) + 1:body.index(n) + 2] if n in body else []
        refuses = isinstance(n, ast.If) and (any(isinstance(x, ast.Raise) for st in n.body + n.orelse for x in ast.walk(st))
                                             or any(isinstance(st, ast.Raise) for st in after))
        if not refuses:
            continue
        # functions the predicate is handed on to (by name, through the family, two levels)
        reach, frontier = {f.name}, [f]
        for _ in range(3):
            nxt = []
            for g in frontier:
                for c in ast.walk(g.node):
                    if isinstance(c, ast.Call) and isinstance(c.func, ast.Attribute) and c.func.attr not in reach \
                            and any(k.arg == "predicate" for k in c.keywords) | any(isinstance(a_, ast.Name) and a_.id == "predicate" for a_ in c.args):
                        reach.add(c.func.attr)
                        nxt += [h for h in fam if h.name == c.func.attr]
            frontier = nxt
        others = [(g, x) for g, x in truthy if x is not n and g.name in reach]
        ok = not (k == "none" and others)
        obs.append(ctx.tri("PRED-TEST", ["C08"], f, f"{f.qualname} refuses a missing predicate the way the functions behind it test for one", n, ok,
                           "" if ok else f"only `None` is refused here, but {others[0][0].qualname} decides with `{norm(others[0][1].test)[:60]}` (truthiness): "
                           "a callable predicate that is falsy (defines __bool__ / __len__) passes the entry and is then treated as no predicate - everything is kept"))
    return obs


# ----------------------------------------------------------------- MEMO-KEY
_MEMO_CONTROL = """
def control(rel, memo):
    for kind, spec in rel.items():
        try:
            merged = memo[kind]
        except KeyError:
            merged = dict(spec)
            memo[kind] = merged
"""


def _memo_key_hits(fn: ast.AST) -> list:
    """(store, loop variable the stored value depends on but the key does not name) for memo tables that outlive a round of a `for a, b in ...` loop"""
    hits = []
    args = fn.args
    outliving = {x.arg for x in args.posonlyargs + args.args + args.kwonlyargs}
    outliving |= {nm for st in ast.walk(fn) if isinstance(st, (ast.Global, ast.Nonlocal)) for nm in st.names}
    for lp in ast.walk(fn):
        if not (isinstance(lp, ast.For) and isinstance(lp.target, ast.Tuple)):
            continue
        lv = {x.id for x in ast.walk(lp.target) if isinstance(x, ast.Name)}
        local_tables = {t.id for st in ast.walk(lp) if isinstance(st, ast.Assign) for t in st.targets if isinstance(t, ast.Name)}
        assigns = [st for st in ast.walk(lp) if isinstance(st, ast.Assign)]
        for st in assigns:
            for t in st.targets:
                if not (isinstance(t, ast.Subscript) and isinstance(t.value, ast.Name)) or t.value.id in local_tables:
                    continue
                tab = t.value.id
                if tab not in outliving:
                    continue  # a table built inside one call over one mapping: the key determines the rest of the item
                reads = [x for x in ast.walk(lp) if isinstance(x, ast.Subscript) and isinstance(x.ctx, ast.Load) and isinstance(x.value, ast.Name) and x.value.id == tab]
                reads += [x for x in ast.walk(lp) if isinstance(x, ast.Compare) and isinstance(x.ops[0], (ast.In, ast.NotIn)) and norm(x.comparators[0]) == tab]
                reads += [x for x in ast.walk(lp) if isinstance(x, ast.Call) and norm(x.func) == f"{tab}.get"]
                if not reads:
                    continue
                key = {x.id for x in ast.walk(t.slice) if isinstance(x, ast.Name)}
                deps = {x.id for x in ast.walk(st.value) if isinstance(x, ast.Name)}
                for _ in range(6):
                    for a2 in assigns:
                        if a2 is st or a2.lineno > st.lineno:
                            continue
                        tn = {x.id for t2 in a2.targets for x in ast.walk(t2) if isinstance(x, ast.Name) and isinstance(x.ctx, ast.Store)}
                        if tn & deps:
                            deps |= {x.id for x in ast.walk(a2.value) if isinstance(x, ast.Name)}
                lost = sorted((deps & lv) - key)
                if lost:
                    hits.append((st, tab, lost))
    return hits


@rule("MEMO-KEY", ["C20"], floor=1, section="3.6+")
def memo_key(ctx: Ctx) -> List[Ob]:
    """a memo table in the generator that outlives one round of a relation loop is keyed by everything its entries were computed from: an entry derived from the loop's spec but stored under the node type alone is reused for the same type under another parent, whose relation spec differs"""
    obs: List[Ob] = []
    ctl = _memo_key_hits(ast.parse(_MEMO_CONTROL).body[0])
    obs.append(ctx.ob("MEMO-KEY", ["C20"], "control:memo_key", "synthetic memo keyed by half of its inputs is detected", None, len(ctl) == 1, "the control example was not reported"))
    for f in ctx.model.all_funcs():
        if f.module != "tree_generator":
            continue
        for st, tab, lost in _memo_key_hits(f.node) if f.parent is None else []:
            obs.append(ctx.tri("MEMO-KEY", ["C20"], f, f"memo table `{tab}` in {f.qualname} is keyed by all inputs of its entries", st, False,
                               f"`{norm(st)[:90]}` stores a value computed from the loop variable(s) {lost} under a key that does not name them: the entry of the first "
                               "relation that mentions this node type is reused for every other parent type"))
    return obs
