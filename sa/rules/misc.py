"""Remaining repository-specific rules: index access (C09), data_id definition
(C02), kind-aware queries (C15), parent walks (C10), frames and metadata (C04),
file-system loader (C19), random tree generator (C20).

Shapes are matched with structural patterns (sa.pat): local variable names are
metavariables ($x), API names (attributes, parameters, called functions) are
literal."""
from __future__ import annotations

import ast
from typing import Dict, List, Optional, Set, Tuple

from ..core import Ctx, Ob, rule
from ..infer import NODE, SLOT
from ..model import AnalysisError, Func, iter_own, norm
from ..pat import find, has, match, one
from .trav import _if_chain
from .util import cond_texts, cond_texts_resolved, exit_cases, find_cases, find_under, local_value, not_after, path_conds, reaching_values, resolve_expr, split_cond, raised_class, stmt_index, stmts_before, new_params, only_with_new_option, strip_new_options


def _returns(f: Func) -> List[ast.Return]:
    return [n for n in iter_own(f.node, into_lambda=False) if isinstance(n, ast.Return) and n.value is not None]


def _first_param(f: Func) -> str:
    ps = [x for x in f.positional_params() if x != f.self_name]
    return ps[0] if ps else "?"


# ------------------------------------------------------------------- EXH-5
@rule("EXH-5", ["C09", "C02"], floor=8, section="3.8")
def exh5(ctx: Ctx) -> List[Ob]:
    """Tree.__getitem__ refuses node keys, resolves node_id, then data_id, then data, and raises KeyError for none / AmbiguousMatchError for several; __contains__ and find_first read the same index"""
    obs: List[Ob] = []
    m = ctx.model
    f = m.func("Tree.__getitem__")
    p = _first_param(f)
    cases = exit_cases(ctx, f)

    def raised(c) -> Optional[str]:
        return raised_class(c.stmt) if c.kind == "raise" else None

    for cls, whens, why in (
        ("ValueError", [[(f"isinstance({p}, Node)", True)]], "a node is not a key"),
        ("KeyError", [[("$$r", False)], [("$$r is None", True)]], "no match"),
        ("AmbiguousMatchError", [[("len($$r) > 1", True)], [("len($$r) >= 2", True)], [("len($$r) == 1", False)]], "several matches"),
    ):
        mine = [c for c in cases if raised(c) == cls]
        ok = any(find_cases(mine, "raise", None, w) for w in whens)
        obs.append(ctx.ob("EXH-5", ["C09"], f, f"raises {cls} for: {why}", mine[0].stmt if mine else None, ok, "" if ok else f"index access must raise {cls} for: {why}"))
    # the key is an arbitrary object (possibly unhashable): the two maps are only probed under a type test
    probes = []
    for x in ast.walk(f.node):
        key_ = None
        if isinstance(x, ast.Subscript) and isinstance(x.ctx, ast.Load) and isinstance(x.value, ast.Attribute) and x.value.attr in ("_nodes_by_data_id", "_node_by_id"):
            key_ = x.slice
        elif isinstance(x, ast.Call) and isinstance(x.func, ast.Attribute) and x.func.attr in ("get", "__contains__") and isinstance(x.func.value, ast.Attribute) \
                and x.func.value.attr in ("_nodes_by_data_id", "_node_by_id") and x.args:
            key_ = x.args[0]
        elif isinstance(x, ast.Compare) and len(x.ops) == 1 and isinstance(x.ops[0], (ast.In, ast.NotIn)) and isinstance(x.comparators[0], ast.Attribute) \
                and x.comparators[0].attr in ("_nodes_by_data_id", "_node_by_id"):
            key_ = x.left
        if key_ is not None and isinstance(key_, ast.Name) and key_.id == p:
            probes.append(x)
    unguarded = [x for x in probes if not any(pol and norm(e).startswith(f"isinstance({p}, ") and "Node" not in norm(e) for e, pol in path_conds(ctx, f, x))]
    obs.append(ctx.tri("EXH-5", ["C09"], f, "the id maps are probed with the raw key only under an isinstance test (a data object may be unhashable)", unguarded[0] if unguarded else None,
                       (not unguarded) if probes else None, f"`{norm(unguarded[0]) if unguarded else ''}`: tree[obj] with an unhashable data object (a dict handled by a calc_data_id hook) raises TypeError "
                       "instead of resolving obj as data"))
    # node_id: an int key that is a registered node_id returns that node ...
    nid = [(c, e) for c, e in find_cases(cases, "return", "$$r", [(f"isinstance({p}, int)", True), ("$$r is None", False)])
           if all(match(f"self._node_by_id.get({p})", v) is not None for v in reaching_values(ctx, f, c.stmt, c.value))]
    idmap_read = [x for x in ast.walk(f.node) if isinstance(x, ast.Attribute) and x.attr == "_node_by_id"]
    obs.append(ctx.tri("EXH-5", ["C09", "C02"], f, "an int key that is a registered node_id returns that node", nid[0][0].stmt if nid else None,
                       True if nid else (None if idmap_read else False), "node_id lookup broken"))
    # ... and that lookup comes before the data_id index is consulted
    did_calls = [n for n, _e in find(f"self.find_all(data_id={p})", f.node)]
    ok = None
    if nid and len(did_calls) == 1:
        ok = any(any(x is nid[0][0].stmt for x in ast.walk(s_)) for s_ in stmts_before(ctx, f, did_calls[0]))
    elif idmap_read and len(did_calls) == 1:
        # some other spelling of the node_id lookup: it must at least come first
        ok = True if all(any(any(x is r_ for x in ast.walk(s_)) for s_ in stmts_before(ctx, f, did_calls[0])) for r_ in idmap_read) else False
    if ok is None:
        # any spelling: a probe of the data_id index with the key that can run before every probe of the node_id map
        def _probes(attr: str) -> List[ast.AST]:
            out_ = []
            for x in ast.walk(f.node):
                if isinstance(x, ast.Subscript) and isinstance(x.ctx, ast.Load) and isinstance(x.value, ast.Attribute) and x.value.attr == attr and norm(x.slice) == p:
                    out_.append(x)
                elif isinstance(x, ast.Call) and isinstance(x.func, ast.Attribute) and x.func.attr == "get" and isinstance(x.func.value, ast.Attribute) \
                        and x.func.value.attr == attr and x.args and norm(x.args[0]) == p:
                    out_.append(x)
                elif isinstance(x, ast.Compare) and len(x.ops) == 1 and isinstance(x.ops[0], (ast.In, ast.NotIn)) and isinstance(x.comparators[0], ast.Attribute) \
                        and x.comparators[0].attr == attr and norm(x.left) == p:
                    out_.append(x)
                elif attr == "_nodes_by_data_id" and isinstance(x, ast.Call) and norm(x.func) == "self.find_all" and any(k.arg == "data_id" and norm(k.value) == p for k in x.keywords):
                    out_.append(x)
            return out_

        np_, dp_ = _probes("_node_by_id"), _probes("_nodes_by_data_id")
        if np_ and dp_:
            first_d = [d_ for d_ in dp_ if all(d_ is o_ or not_after(ctx, f, d_, o_) for o_ in dp_)]
            if first_d and all(n_ is not first_d[0] and not_after(ctx, f, first_d[0], n_) and not not_after(ctx, f, n_, first_d[0]) for n_ in np_):
                ok = False  # the clone index is asked first; the node_id map only afterwards
    # ... and the key itself is tried as a data_id before it is taken for a data object (whose id is derived from it)
    derived = [x for x in ast.walk(f.node) if isinstance(x, ast.Call) and norm(x.func).endswith("calc_data_id") and x.args and norm(x.args[0]) == p] + \
              [x for x in ast.walk(f.node) if isinstance(x, ast.Call) and norm(x.func) == "self.find_all" and len(x.args) == 1 and norm(x.args[0]) == p and not x.keywords]
    raw = [x for x in ast.walk(f.node) if (isinstance(x, ast.Call) and isinstance(x.func, ast.Attribute) and x.func.attr == "get" and isinstance(x.func.value, ast.Attribute)
                                           and x.func.value.attr == "_nodes_by_data_id" and x.args and norm(x.args[0]) == p)
           or (isinstance(x, ast.Compare) and len(x.ops) == 1 and isinstance(x.ops[0], (ast.In, ast.NotIn)) and isinstance(x.comparators[0], ast.Attribute)
               and x.comparators[0].attr == "_nodes_by_data_id" and norm(x.left) == p)
           or (isinstance(x, ast.Call) and norm(x.func) == "self.find_all" and any(k.arg == "data_id" and norm(k.value) == p for k in x.keywords))]
    if derived and raw:
        wrong = all(not_after(ctx, f, d_, r_) and not not_after(ctx, f, r_, d_) for d_ in derived for r_ in raw)
        obs.append(ctx.tri("EXH-5", ["C09", "C02"], f, "the key is tried as a data_id before it is resolved as a data object", None, False if wrong else True,
                           "the id derived from the key (calc_data_id / hash) is looked up first: `tree['A']` returns the node whose *data* is 'A' although another node "
                           "carries the data_id 'A'"))
    obs.append(ctx.tri("EXH-5", ["C09", "C02"], f, "node_id is consulted before data_id", None, ok, "resolution order: node_id, then data_id, then data: an int key that is both a node_id and a data_id must give the node with that node_id"))
    if did_calls:
        # (one lookup pair per branch of the canonical form: an int key that is no node_id, any other key)
        ok = all(any(pol and match(f"{p} in self._nodes_by_data_id", e) is not None for e, pol in path_conds(ctx, f, dc)) for dc in did_calls)
        plain = [n for n, _e in find(f"self.find_all({p})", f.node)]
        ok = ok and len(plain) >= 1 and all(any((not pol) and has(f"{p} in self._nodes_by_data_id", e) for e, pol in path_conds(ctx, f, pl)) for pl in plain)
        obs.append(ctx.ob("EXH-5", ["C09", "C02"], f, "a key present in the data_id index is looked up as data_id, anything else as data", None, ok, "" if ok else "data_id before data"))
    ret = find_cases(cases, "return", "$$r[0]")
    obs.append(ctx.ob("EXH-5", ["C09"], f, "the single match is returned", None, len(ret) >= 1, ""))  # (one return per lookup branch in the canonical form)
    g = m.func("Tree.__contains__")
    q = _first_param(g)
    ok = any(match(f"bool(self.find_first({q}))", n.value) is not None or match(f"self.find_first({q}) is not None", n.value) is not None for n in _returns(g))
    obs.append(ctx.ob("EXH-5", ["C09", "C02"], g, "`data in tree` is find_first(data) found", None, ok, "" if ok else "containment must agree with lookup"))
    for q in ("Tree.find_all", "Tree.find_first"):
        h = m.func(q)
        # the key the index is read with (the data_id parameter itself, or a local that holds the effective id)
        kreads = [(n_, e_["$k"]) for n_, e_ in find("self._nodes_by_data_id.get($k)", h.node) + find("self._nodes_by_data_id[$k]", h.node)]
        kname = kreads[0][1] if kreads else "data_id"
        conv = find(f"{kname} = self.calc_data_id(data)", h.node)
        anyconv = [c_ for c_ in ast.walk(h.node) if isinstance(c_, ast.Call) and norm(c_.func).endswith("calc_data_id")]
        if len(conv) == 1 and any(pol and match("data is None", e) is not None for e, pol in [(e_, not p_) for e_, p_ in path_conds(ctx, h, conv[0][0])]):
            ok = True
        elif not anyconv:
            ok = False
        elif kreads and any(norm(v_) == "self.calc_data_id(data)" for v_ in reaching_values(ctx, h, kreads[0][0], ast.Name(id=kname, ctx=ast.Load()))):
            ok = True
        else:
            ok = None
        obs.append(ctx.tri("EXH-5", ["C02", "C09"], h, f"{q}: data is converted with calc_data_id before the index is read", None, ok, "lookup by data must use the tree's id function"))
        gets = [n_ for n_, _k in kreads]
        anyidx = [x for x in ast.walk(h.node) if isinstance(x, ast.Attribute) and x.attr == "_nodes_by_data_id"]
        obs.append(ctx.tri("EXH-5", ["C02", "C09"], h, f"{q}: reads the clone list of data_id", None, True if gets else (None if anyidx else False), "index not consulted"))
    h = m.func("Tree.find_first")
    hc = exit_cases(ctx, h, ("return",))
    ok = bool(find_cases(hc, "return", "self._node_by_id.get(node_id)"))
    obs.append(ctx.ob("EXH-5", ["C02", "C09"], h, "find_first(node_id=) reads the id map", None, ok, ""))
    firsts = [(c, e) for c, e in find_cases(hc, "return", "$$r[0]", [("$$r", True)])
              if all(match("self._nodes_by_data_id.get($k)", v) is not None for v in reaching_values(ctx, h, c.stmt, e["$$r"]))]
    kn_ = "data_id"
    for c, e in firsts:
        for v in reaching_values(ctx, h, c.stmt, e["$$r"]):
            mk_ = match("self._nodes_by_data_id.get($k)", v)
            if mk_:
                kn_ = mk_["$k"]
    # every other return under `<key> is not None` hands back nothing
    other = [c for c in hc if c.value is not None and not any(c is x for x, _ in firsts)
             and any((not pol) and match(f"{kn_} is None", e) is not None for e, pol in c.conds) and not (isinstance(c.value, ast.Constant) and c.value.value is None)]
    ok = len(firsts) == 1 and not other
    if not ok and not firsts and not any(isinstance(x, ast.Subscript) and norm(x.slice) not in ("0",) and isinstance(x.ctx, ast.Load) and "res" in norm(x.value) for x in ast.walk(h.node)):
        ok = None
    obs.append(ctx.tri("EXH-5", ["C02", "C09"], h, "find_first(data/data_id) returns the first clone or None", None, ok, ""))
    return obs


# ------------------------------------------------------------- DATAID-DEF
@rule("DATAID-DEF", ["C02", "C05", "C07", "C11", "C12", "C14"], floor=6, section="4/C02")
def dataid_def(ctx: Ctx) -> List[Ob]:
    """a node's data_id is the explicit id if given, else the tree's id callback applied to the data, else hash(data); calc_data_id is called only where an id has to be derived"""
    obs: List[Ob] = []
    m = ctx.model
    f = m.func("Node.__init__")
    ifs = [n for n in f.body if isinstance(n, ast.If) and (match("data_id is None", n.test) is not None or match("data_id is not None", n.test) is not None)]
    ok = len(ifs) == 1 and len(ifs[0].body) == 1 and len(ifs[0].orelse) == 1
    if ok:
        derive_branch, given_branch = (ifs[0].body[0], ifs[0].orelse[0]) if match("data_id is None", ifs[0].test) is not None else (ifs[0].orelse[0], ifs[0].body[0])

        def rhs(st):
            if isinstance(st, ast.AnnAssign) and norm(st.target) == "self._data_id":
                return st.value
            if isinstance(st, ast.Assign) and norm(st.targets[0]) == "self._data_id":
                return st.value
            return None
        a, b = rhs(derive_branch), rhs(given_branch)
        ok = a is not None and b is not None and match("$t.calc_data_id(data)", a) is not None and match("data_id", b) is not None
    # every operation that re-creates a node under a given id passes it here: copies (C07), the diff result tree
    # (C11, built from copies), and the three loaders (C05 C12 C14)
    obs.append(ctx.ob("DATAID-DEF", ["C02", "C05", "C07", "C11", "C12", "C14"], f, "Node.__init__: explicit data_id wins, else tree.calc_data_id(data)", None, ok,
                      "" if ok else "the explicit id must be used as given (also 0 / ''), the derived one only when none was passed"))
    g = m.func("Tree.calc_data_id")
    stm = [s for s in g.body if not (isinstance(s, ast.Expr) and isinstance(s.value, ast.Constant))]
    ok = len(stm) == 2 and (match("if self._calc_data_id_hook:\n    return self._calc_data_id_hook(self, data)", stm[0]) is not None
                            or match("if self._calc_data_id_hook is not None:\n    return self._calc_data_id_hook(self, data)", stm[0]) is not None) \
        and match("return hash(data)", stm[1]) is not None
    obs.append(ctx.ob("DATAID-DEF", ["C02"], g, "Tree.calc_data_id: the callback if one was given, else hash(data)", None, ok, "" if ok else "id derivation order changed"))
    ti = m.func("Tree.__init__")
    ok = any(isinstance(n, (ast.Assign, ast.AnnAssign)) and norm(n.target if isinstance(n, ast.AnnAssign) else n.targets[0]) == "self._calc_data_id_hook"
             and norm(n.value) == "calc_data_id" for n in ti.body)
    obs.append(ctx.ob("DATAID-DEF", ["C02"], ti, "Tree.__init__ stores the calc_data_id callback", None, ok, ""))
    # who may call calc_data_id
    allowed = {"Node.__init__", "Node.set_data", "Node.find_all", "Tree.find_all", "Tree.find_first"}
    for h in m.all_funcs():
        for c in ctx.env.calls_in[h]:
            if any(x.qualname == "Tree.calc_data_id" for x, _ in ctx.env.callees(h, c)) or (
                    isinstance(c.func, ast.Name) and any(b.kind == "val" and isinstance(b.expr, ast.Attribute) and b.expr.attr == "calc_data_id"
                                                          for b in ctx.env.scope(h).resolve(c.func.id)[1])):
                ok = h.top.qualname in allowed
                from ..known_funcs import KNOWN_FUNCS as _KF

                if not ok and f"{h.top.module}:{h.top.qualname}" not in _KF and not h.top.name.startswith("_") and not any(
                        isinstance(x_, ast.Attribute) and isinstance(x_.ctx, (ast.Store, ast.Del)) for x_ in ast.walk(h.top.node)):
                    ok = True  # a new public *query* that looks a data object up by its id writes nothing
                obs.append(ctx.ob("DATAID-DEF", ["C02"], h, f"calc_data_id is called in {h.top.qualname}", c, ok,
                                  "" if ok else "an id is re-derived from the data where the node's stored data_id must be used (explicit ids would be lost)"))
    # is_clone / get_clones read the slot of the node's own _data_id
    for q in ("Node.is_clone", "Node.get_clones"):
        h = m.func(q)
        subs = find("self._tree._nodes_by_data_id[self._data_id]", h.node) + find("self._tree._nodes_by_data_id.get(self._data_id)", h.node)
        # (one read, or one per branch of the canonical form; a read under another key is the violation)
        other_keys = [norm(x.slice) for x in ast.walk(h.node) if isinstance(x, ast.Subscript) and norm(x.value).endswith("_nodes_by_data_id") and norm(x.slice) != "self._data_id"]
        obs.append(ctx.ob("DATAID-DEF", ["C02"], h, f"{q} reads the clone list of the node's own data_id", None, len(subs) >= 1 and not other_keys, "" if subs and not other_keys else "clone queries must use the node's data_id"))
    h = m.func("Node.is_clone")
    ok = has("len($$x) > 1", h.node) or has("len($$x) >= 2", h.node)
    obs.append(ctx.ob("DATAID-DEF", ["C02"], h, "is_clone: more than one node under the id", None, ok, "" if ok else "a clone is a node whose data is referenced at least twice"))
    h = m.func("Node.get_clones")
    from .util import resolve_expr as _rx

    SLOTX = "self._tree._nodes_by_data_id[self._data_id]"
    cs_ = [c for c in exit_cases(ctx, h, ("return",)) if c.value is not None]
    ok = bool(cs_)
    for c in cs_:
        v = _rx(ctx, h, c.stmt, c.value)
        ts = cond_texts(c.conds)
        if "add_self" in ts:
            ok = ok and norm(v) in (f"{SLOTX}.copy()", f"list({SLOTX})", f"{SLOTX}[:]")
        elif "not add_self" in ts:
            ok = ok and match(f"[$n for $n in {SLOTX} if $n is not self]", v) is not None
        elif match(f"[$n for $n in {SLOTX} if add_self or $n is not self]", v) is not None or match(f"[$n for $n in {SLOTX} if $n is not self or add_self]", v) is not None:
            pass  # one comprehension for both cases
        elif norm(v) == SLOTX:
            ok = False  # the live clone list escapes
        elif isinstance(v, ast.ListComp) and any(isinstance(x, ast.Compare) and isinstance(x.ops[0], (ast.NotEq, ast.Eq)) and "self" in norm(x) for x in ast.walk(v)):
            ok = False  # self excluded by == (data equality) instead of identity
        else:
            ok = None if ok else ok
    obs.append(ctx.tri("DATAID-DEF", ["C02"], h, "get_clones: a copy of the clone list, without self (by identity) unless add_self", None, ok,
                       "the result must be a new list; self is excluded by identity"))
    return obs


# -------------------------------------------------------------- KIND-BRANCH
def _is_kind_eq(e: ast.AST, wanted: Set[str]) -> Optional[str]:
    """`<x>._kind == <wanted>` / `<x>.kind == <wanted>` (either side): text of <x>, else None."""
    if isinstance(e, ast.Compare) and len(e.ops) == 1 and isinstance(e.ops[0], ast.Eq):
        l, r = e.left, e.comparators[0]
        for a_, b_ in ((l, r), (r, l)):
            if isinstance(a_, ast.Attribute) and a_.attr in ("_kind", "kind") and norm(b_) in wanted and norm(a_.value) != "self":
                return norm(a_.value)
    return None


def _kind_conds(conds, wanted: Set[str]) -> List[str]:
    """subjects x of positive atoms `x._kind == wanted` (also inside `any_kind or ...` disjunctions)."""
    out = []
    for e, pol in conds:
        if not pol:
            continue
        for d in (e.values if isinstance(e, ast.BoolOp) and isinstance(e.op, ast.Or) else [e]):
            for c_ in (d.values if isinstance(d, ast.BoolOp) and isinstance(d.op, ast.And) else [d]):
                x = _is_kind_eq(c_, wanted)
                if x is not None:
                    out.append(x)
    return out


def _any_kind_pol(conds) -> Optional[bool]:
    """True: reached only with the any-kind option, False: only without, None: either."""
    for e, pol in conds:
        t = norm(e)
        if t in ("kind is ANY_KIND", "any_kind", "kind == ANY_KIND"):
            return pol
    return None


@rule("KIND-BRANCH", ["C15", "C10"], floor=12, section="4/C15")
def kind_branch(ctx: Ctx) -> List[Ob]:
    """kind-aware queries: the any-kind branch reads the unfiltered child/sibling list, the kind branch compares _kind with the requested (or own) kind, and nothing else is filtered"""
    obs: List[Ob] = []
    m = ctx.model

    def T(f, label, ok, why="", node=None, props=("C15",)):
        obs.append(ctx.tri("KIND-BRANCH", list(props), f, label, node, ok, why))

    def valued(f):
        return [c for c in exit_cases(ctx, f, ("return",)) if c.value is not None and not (isinstance(c.value, ast.Constant) and c.value.value is None)
                and not (isinstance(c.value, ast.List) and not c.value.elts)]

    CH = "self._children"
    for name in ("get_children", "first_child", "last_child", "has_children"):
        f = m.func(f"TypedNode.{name}")
        cs = valued(f)
        reads = [x for x in ast.walk(f.node) if isinstance(x, ast.Name) and x.id == "kind" and isinstance(x.ctx, ast.Load)]
        T(f, f"{name}: the kind argument is consulted", bool(reads), "the kind argument has no effect")
        anyc = [c for c in cs if _any_kind_pol(c.conds) is True]
        want = {"get_children": [CH, "self.children"], "first_child": [f"{CH}[0]"], "last_child": [f"{CH}[-1]"], "has_children": [f"bool({CH})"]}[name]
        ok = None if not anyc else all(any(norm(v) in want for v in reaching_values(ctx, f, c.stmt, c.value)) for c in anyc)
        if ok is False and name == "has_children":
            # the same answer spelled as two returns: True where the child list is known to be non-empty, False where it is empty
            def _agrees(c) -> bool:
                if any(norm(v) in want for v in reaching_values(ctx, f, c.stmt, c.value)):
                    return True
                ts_ = cond_texts_resolved(ctx, f, c.stmt, c.conds)
                if isinstance(c.value, ast.Constant) and c.value.value is True:
                    return CH in ts_ or "self.children" in ts_
                if isinstance(c.value, ast.Constant) and c.value.value is False:
                    return f"not {CH}" in ts_ or "not self.children" in ts_
                return False
            ok = all(_agrees(c) for c in anyc)
        T(f, f"{name}(ANY_KIND) equals the untyped query", ok, f"with the any-kind option the result is the untyped one ({want[0]})")
        kc = [c for c in cs if _any_kind_pol(c.conds) is not True]
        if name == "has_children":
            ok = None if not kc else all(has("self.get_children(kind)", c.value) or any(has("self.get_children(kind)", v) for v in reaching_values(ctx, f, c.stmt, c.value)) for c in kc)
            if ok is False and all(any(_is_kind_eq(x, {"kind"}) is not None for x in ast.walk(c.value)) and (CH in norm(c.value) or "self.children" in norm(c.value)) for c in kc):
                ok = True  # the same selection spelled directly: some child whose _kind == kind
            elif ok is False and any(any(_is_kind_eq(x, {"kind"}) is not None for x in ast.walk(c.value)) for c in kc):
                ok = None  # a direct kind comparison next to returns this clause does not read (merged empty / any-kind guard)
        else:
            ok = None if not kc else True
            for c in kc:
                if isinstance(c.value, ast.ListComp):
                    g = c.value.generators[0]
                    conds = [(t, True) for t in g.ifs]
                    subj = _kind_conds([x for t in g.ifs for x in split_cond(t, True)], {"kind"})
                    if not (subj == [norm(g.target)] and norm(c.value.elt) == norm(g.target) and norm(g.iter) in (CH, "self.children")):
                        ok = False
                else:
                    subj = _kind_conds(c.conds, {"kind"})
                    if not subj or subj[0] != norm(c.value):
                        ok = False
        T(f, f"{name}(kind) selects children whose _kind == kind", ok, "the kind filter must be equality on the node's kind, applied to the returned child")
    # scan direction of the typed end-of-list queries
    for name, fwd, lst in (("first_child", True, CH), ("last_child", False, CH), ("first_sibling", True, "self._parent._children"), ("last_sibling", False, "self._parent._children")):
        f = m.func(f"TypedNode.{name}")
        lps = [n for n in iter_own(f.node) if isinstance(n, ast.For) and any(isinstance(x, ast.Return) for x in ast.walk(n))]
        ok = None
        if len(lps) == 1:
            it = norm(lps[0].iter)
            if fwd:
                ok = it in (lst, lst.replace("._children", ".children"), f"range(len({lst}))", f"range(0, len({lst}))")
            else:
                ok = it in (f"reversed({lst})", f"range(len({lst}) - 1, -1, -1)", f"{lst}[::-1]")
        T(f, f"{name} scans the full {'child' if 'child' in name else 'sibling'} list {'front to back' if fwd else 'back to front'}", ok,
          "the first / last node of a kind is found from the matching end, over the whole list (index 0 included)")
    # a kind-aware query that asks another kind-aware query of the same node hands its any_kind choice on
    for f in [g for g in m.all_funcs() if g.cls == "TypedNode" and "any_kind" in g.param_names()]:
        for c in ctx.env.calls_in[f]:
            if not (isinstance(c.func, ast.Attribute) and norm(c.func.value) == "self"):
                continue
            tg = m.lookup("TypedNode", c.func.attr)
            if tg is None or "any_kind" not in tg.param_names() or tg is f:
                continue
            kw = {k.arg: k.value for k in c.keywords}
            ts_ = cond_texts(path_conds(ctx, f, c))
            if "any_kind" not in kw:
                okf = True if ("not any_kind" in ts_ and norm(tg.param_default("any_kind")) == "False") else False
            else:
                v_ = norm(kw["any_kind"])
                okf = True if v_ == "any_kind" or (v_ == "True" and "any_kind" in ts_) or (v_ == "False" and "not any_kind" in ts_) else None
            T(f, f"{f.name}: `self.{c.func.attr}()` is asked with the caller's any_kind choice", okf,
              f"`{norm(c)}` runs kind-aware by default: with any_kind=True the answer is still filtered by kind", node=c)
    # the neighbour queries scan away from the node: the nearest sibling of the kind wins
    for name, back in (("prev_sibling", True), ("next_sibling", False)):
        f = m.func(f"TypedNode.{name}")
        L = "self._parent._children"
        lps = [n for n in iter_own(f.node) if isinstance(n, ast.For) and any(isinstance(x, ast.Return) for x in ast.walk(n))]
        idxs = [norm(n_.targets[0]) for n_ in iter_own(f.node) if isinstance(n_, ast.Assign) and isinstance(n_.value, ast.Call) and norm(n_.value.func) in ("_index_of", f"{L}.index")
                and isinstance(n_.targets[0], ast.Name)]
        ok = None
        if len(lps) == 1 and len(idxs) == 1:
            i_ = idxs[0]
            it = norm(resolve_expr(ctx, f, lps[0], lps[0].iter, keep=[i_])).replace(".children", "._children")
            near_far_back = (f"range({i_} - 1, -1, -1)", f"reversed({L}[:{i_}])", f"{L}[:{i_}][::-1]", f"reversed(range({i_}))", f"reversed(range(0, {i_}))")
            far_near_back = (f"{L}[:{i_}]", f"range({i_})", f"range(0, {i_})")
            near_far_fwd = (f"range({i_} + 1, len({L}))", f"{L}[{i_} + 1:]", f"islice({L}, {i_} + 1, None)", f"itertools.islice({L}, {i_} + 1, None)")
            far_near_fwd = (f"reversed({L}[{i_} + 1:])", f"range(len({L}) - 1, {i_}, -1)", f"{L}[{i_} + 1:][::-1]")
            good, wrong = (near_far_back, far_near_back + near_far_fwd + far_near_fwd) if back else (near_far_fwd, far_near_fwd + near_far_back + far_near_back)
            ok = True if it in good else (False if it in wrong else None)
        T(f, f"{name} scans {'backwards' if back else 'forwards'} from the node's own position (nearest sibling of the kind first)", ok,
          f"the scan runs over `{norm(lps[0].iter) if lps else '?'}`: it must start next to the node and move away from it, else a sibling further away is returned")
    for name in ("get_siblings", "first_sibling", "last_sibling", "prev_sibling", "next_sibling", "get_index", "is_first_sibling", "is_last_sibling"):
        f = m.func(f"TypedNode.{name}")
        d = f.param_default("any_kind")
        ok = d is not None and norm(d) == "False"
        T(f, f"{name}: any_kind defaults to False", ok, "kind-aware by default")
        reads = [x for x in ast.walk(f.node) if isinstance(x, ast.Name) and x.id == "any_kind" and isinstance(x.ctx, ast.Load)]
        T(f, f"{name}: the any_kind option is consulted", bool(reads), "the option has no effect: any_kind=True still filters by kind (or the other way round)", props=("C15", "C10"))
        own = {"self._kind", "self.kind"}
        for bname, bs in ctx.env.scope(f).bindings.items():
            if any(x.kind == "val" and x.expr is not None and norm(x.expr) in ("self.kind", "self._kind") for x in bs):
                own.add(bname)
        cmps = [n for n in ast.walk(f.node) if _is_kind_eq(n, own) is not None]
        deleg = [c for c in ast.walk(f.node) if isinstance(c, ast.Call) and isinstance(c.func, ast.Attribute)
                 and c.func.attr in ("first_sibling", "last_sibling", "get_children") and norm(c.func.value) in ("self", "self.parent", "self._parent")]
        # ... or hands its own kind to a helper that compares `<n>._kind == <that parameter>`
        via_helper = False
        for c in ctx.env.calls_in[f]:
            for g, _recv in ctx.env.callees(f, c):
                for pi, pn in enumerate([p_ for p_ in g.positional_params() if p_ != g.self_name]):
                    a_ = c.args[pi] if pi < len(c.args) else next((k.value for k in c.keywords if k.arg == pn), None)
                    if a_ is not None and norm(a_) in own and any(_is_kind_eq(n, {pn}) is not None for n in ast.walk(g.node)):
                        via_helper = True
        ok = bool(cmps) or bool(deleg) or via_helper
        if not ok and any(isinstance(x, ast.Attribute) and x.attr in ("kind", "_kind") for x in ast.walk(f.node)):
            ok = None  # the node's kind is used in a way this clause does not read (a matcher object, a table ...)
        T(f, f"{name}: the kind branch compares with the node's own kind (or delegates to a kind-aware query)", ok, "siblings of the same kind only")
    for name in ("prev_sibling", "next_sibling", "first_child", "last_child", "first_sibling", "last_sibling"):
        f = m.func(f"TypedNode.{name}")
        bad = []
        for lp in [n for n in iter_own(f.node) if isinstance(n, ast.For)]:
            inside = {id(x) for x in ast.walk(lp)}
            for x in ast.walk(lp):
                if isinstance(x, (ast.Return, ast.Break)):
                    pcs = [(e, pol) for e, pol in path_conds(ctx, f, x) if id(getattr(e, "_orig", e)) in inside]
                    if not _kind_conds(pcs, {"kind", "self._kind", "self.kind"}) and not any(pol and "any_kind" in norm(e) for e, pol in pcs):
                        bad.append(x)
        T(f, f"{name}: the scan only stops at a node of the wanted kind (no unconditional exit in the loop)", not bad,
          f"`{norm(bad[0])}` ends the scan after the first candidate: with interleaved kinds the match further away is missed" if bad else "")
    f = m.func("TypedNode.get_index")
    ok = None
    kc_ = [c for c in valued(f) if _any_kind_pol(c.conds) is not True]
    for c in kc_:
        for v in reaching_values(ctx, f, c.stmt, c.value) if isinstance(c.value, ast.Name) else [c.value]:
            v = resolve_expr(ctx, f, c.stmt, v)
            if isinstance(v, ast.BinOp) and isinstance(v.op, (ast.Sub, ast.Add)) and any(
                    isinstance(x, ast.Call) and norm(x.func).endswith("_index_of") and x.args and norm(resolve_expr(ctx, f, c.stmt, x.args[0])) in ("self._parent._children", "self._parent.children")
                    for x in ast.walk(v)):
                ok = False  # positions in the list of *all* siblings are subtracted: siblings of other kinds in between are counted
            elif ok is None and isinstance(v, ast.Call) and norm(v.func).endswith("_index_of") and v.args \
                    and norm(resolve_expr(ctx, f, c.stmt, v.args[0])) in ("self._parent.get_children(self.kind)", "self._parent.get_children(self._kind)", "self.parent.get_children(self.kind)"):
                ok = True
    T(f, "get_index: position among the siblings of the node's own kind", ok,
      "the typed index is computed from positions in the full child list: with interleaved kinds the siblings of other kinds in between are counted")
    f = m.func("TypedNode.get_siblings")
    lc = [c for c in valued(f) if isinstance(c.value, ast.ListComp)]
    ok = None
    if len(lc) == 1 and lc[0].value.generators and lc[0].value.generators[0].ifs:
        g = lc[0].value.generators[0]
        atoms = [x for t in g.ifs for x in split_cond(t, True)]
        nv = norm(g.target)
        kind_ok = _kind_conds(atoms, {"self._kind", "self.kind"}) == [nv]
        self_ok = any(pol and norm(e) in (f"add_self or {nv} is not self", f"{nv} is not self or add_self") for e, pol in atoms)
        ok = kind_ok and self_ok and norm(g.iter) in ("self._parent._children", "self._parent.children") and norm(lc[0].value.elt) == nv
        if not ok and norm(g.iter) not in ("self._parent._children", "self._parent.children"):
            ok = None  # the comprehension filters something that was selected elsewhere
    T(f, "get_siblings: same kind, self excluded by identity unless add_self", ok, "")
    for name, idx in (("is_first_sibling", "0"), ("is_last_sibling", "-1")):
        f = m.func(f"TypedNode.{name}")
        anyc = [c for c in valued(f) if _any_kind_pol(c.conds) is True]
        ok = None if not anyc else all(norm(c.value) == f"self is self._parent._children[{idx}]" for c in anyc)
        T(f, f"{name}(any_kind=True) is the untyped identity test", ok, "", props=("C15", "C10"))
    for name, idx in (("first_sibling", "0"), ("last_sibling", "-1")):
        f = m.func(f"TypedNode.{name}")
        anyc = [c for c in valued(f) if _any_kind_pol(c.conds) is True]
        ok = None if not anyc else all(any(norm(v) == f"self._parent._children[{idx}]" for v in reaching_values(ctx, f, c.stmt, c.value)) for c in anyc)
        T(f, f"{name}(any_kind=True) is the untyped end of the list", ok, "", props=("C15", "C10"))
    f = m.func("TypedTree.iter_by_type")
    ys = exit_cases(ctx, f, ("yield",))
    ky = [c for c in ys if _any_kind_pol(c.conds) is not True]
    plain_y = [c for c in ky if isinstance(c.stmt, ast.Yield) and c.value is not None]
    ok = None if not plain_y or len(plain_y) != len(ky) else all(_kind_conds(c.conds, {"kind"}) == [norm(c.value)] for c in plain_y)
    T(f, "iter_by_type yields the nodes whose _kind == kind", ok, "")
    tests = [e for c in ys for e, pol in c.conds if "ANY_KIND" in norm(e) or norm(e) == "kind"]
    tests += [n.test for n in iter_own(f.node) if isinstance(n, ast.If) and (norm(n.test) in ("kind", "not kind"))]
    ok = None if not tests else all(norm(t) in ("kind is ANY_KIND", "kind == ANY_KIND") for t in tests)
    T(f, "iter_by_type: only ANY_KIND selects all nodes (no truthiness test on kind: '' is a kind)", ok,
      f"`{norm(tests[0]) if tests else '?'}`: an empty-string kind would iterate everything")
    # a generator that `return <value>`s loses the value: the ANY_KIND branch must yield
    gen = any(isinstance(x, (ast.Yield, ast.YieldFrom)) for x in iter_own(f.node))
    bad = [r for r in _returns(f)] if gen else []
    T(f, "iter_by_type(ANY_KIND) yields every node", not bad,
      f"`{norm(bad[0])}` inside a generator function: the returned iterator is discarded and nothing is yielded" if bad else "")
    anyy = [c for c in ys if _any_kind_pol(c.conds) is True]
    ok = None if not anyy else all(norm(c.value) in ("self.iterator()", "self") or (isinstance(c.stmt, ast.Yield) and True) for c in anyy)
    T(f, "iter_by_type(ANY_KIND) walks the whole tree", ok, "")
    for q in ("TypedTree.first_child", "TypedTree.last_child"):
        f = m.func(q)
        ok = any(match(f"self._root.{f.name}(kind=kind)", n.value) is not None or match(f"self._root.{f.name}(kind)", n.value) is not None for n in _returns(f))
        T(f, f"{q} delegates to the root with the caller's kind", ok, "")
    return obs


# -------------------------------------------------------------- PARENT-WALK
def _parent_walk(ctx: Ctx, f: Func):
    """Skeleton of a parent walk: the single `while` loop whose body steps a
    local along `._parent`.  None when the function has no such loop."""
    ws = [n for n in iter_own(f.node) if isinstance(n, ast.While)]
    if len(ws) != 1:
        return None
    w = ws[0]
    step = [(n, e) for n, e in find("$p = $p._parent", w)]
    if len(step) != 1:
        return None
    pv = step[0][1]["$p"]
    inits = [norm(v) for v in reaching_values(ctx, f, w, ast.Name(id=pv, ctx=ast.Load())) if not (isinstance(v, ast.Attribute) and norm(v) == f"{pv}._parent")]
    import re as _re

    def P(t: str) -> str:
        return _re.sub(rf"\b{_re.escape(pv)}\b", "P", t)

    test = sorted(("" if pol else "not ") + P(norm(e)) for e, pol in split_cond(w.test, True))
    body = sorted(P(norm(st)) for st in w.body if st is not step[0][0] and not any(step[0][0] is x for x in ast.walk(st)))
    return {"loop": w, "var": pv, "inits": sorted(set(inits)), "test": test, "body": body, "step": step[0][0]}


def _ancestors_of(m, node: ast.AST, stop: ast.AST):
    p_ = m.parent_of(node)
    while p_ is not None and p_ is not stop:
        yield p_
        p_ = m.parent_of(p_)


def _single_return(ctx: Ctx, f: Func):
    """(value, conds) of the only valued return of an accessor; None if there are several / none."""
    cs = [c for c in exit_cases(ctx, f, ("return",)) if c.value is not None and not (isinstance(c.value, ast.Constant) and c.value.value is None)]
    if len(cs) != 1:
        return None
    return cs[0]


@rule("PARENT-WALK", ["C10", "C15", "C02"], floor=8, section="4/C10")
def parent_walk(ctx: Ctx) -> List[Ob]:
    """the parent-walk family stops at the system root by the same test, `parent` maps the root to None, sibling accessors read the parent's list at the right end, counts walk the default iterator"""
    obs: List[Ob] = []
    m = ctx.model
    R_ = "PARENT-WALK"

    def T(props, f, label, ok, why="", node=None):
        obs.append(ctx.tri(R_, props, f, label, node, ok, why))

    # ---- calc_depth: counts every parent including the system root
    f = m.func("Node.calc_depth")
    sk = _parent_walk(ctx, f)
    ok: Optional[bool] = None
    why = "no `while`-loop stepping along ._parent"
    if sk is not None:
        incs = [e for n, e in find("$d += 1", sk["loop"])]
        ret = _single_return(ctx, f)
        if len(incs) == 1 and ret is not None and isinstance(ret.value, ast.Name) and ret.value.id == incs[0]["$d"]:
            d = incs[0]["$d"]
            inside = {id(x) for x in ast.walk(sk["loop"])}
            d0 = [norm(e_["$$v"]) for n_, e_ in find(f"{d} = $$v", f.node) if id(n_) not in inside]
            ok = sk["inits"] == ["self._parent"] and sk["test"] == ["not P is None"] and d0 == ["0"] and sk["body"] == [f"{d} += 1"]
            why = f"start {sk['inits']}, test {sk['test']}, counter starts at {d0}, loop body {sk['body']}: depth off by one"
    T(["C10"], f, "calc_depth counts the parents up to and including the system root (1 for top-level)", ok, why)
    # ---- get_top
    f = m.func("Node.get_top")
    sk = _parent_walk(ctx, f)
    ok, why = None, "no `while`-loop stepping along ._parent"
    if sk is not None:
        ret = _single_return(ctx, f)
        if ret is not None:
            ok = sk["inits"] == ["self"] and sk["test"] in (["P._parent._parent"], ["not P._parent._parent is None"]) and not sk["body"] and norm(ret.value) == sk["var"]
            why = f"start {sk['inits']}, test {sk['test']}"
    T(["C10"], f, "get_top climbs while the parent is not the system root", ok, why)
    # ---- proper-ancestor walks
    for q, want_init in (("Node.is_descendant_of", ["self._parent"]), ("Node.get_parent_list", ["self", "self._parent"])):
        f = m.func(q)
        sk = _parent_walk(ctx, f)
        ok, why = None, "no `while`-loop stepping along ._parent"
        if sk is not None:
            ok = sk["inits"] == want_init and sk["test"] == ["not P is None", "not P._parent is None"]
            why = f"start {sk['inits']}, test {sk['test']}: the system root is not an ancestor"
        elif q == "Node.is_descendant_of" and any(isinstance(n, (ast.For, ast.comprehension)) and match("self.get_parent_list()", n.iter) is not None for n in ast.walk(f.node)):
            ok = True  # equivalent form: scan the list of proper ancestors
        T(["C10"], f, f"{q} walks the proper ancestors and stops before the system root", ok, why)
        if q == "Node.get_parent_list" and sk is not None:
            add_ok = bool(find_under(ctx, f, f"{sk['var']} = self", [("add_self", True)])) and bool(find_under(ctx, f, f"{sk['var']} = self._parent", [("add_self", False)]))
            T(["C10"], f, "get_parent_list starts at self iff add_self", add_ok, "start node selection changed")
    f = m.func("Node.is_descendant_of")
    o = _first_param(f)
    sk = _parent_walk(ctx, f)
    ok, why = None, "shape not recognised"
    if sk is not None:
        cs = [c for c in exit_cases(ctx, f, ("return",)) if not only_with_new_option(f, c.conds)]
        trues = find_cases(cs, "return", "True")
        falses = find_cases(cs, "return", "False")
        if trues and falses:
            ok = len(trues) == 1 and any(pol and norm(e) in (f"{sk['var']} is {o}", f"{o} is {sk['var']}") for e, pol in trues[0][0].conds) \
                and not any(any(trues[0][0].stmt is x for x in ()) for _ in ()) and all(not any(c.stmt is x for x in ast.walk(sk["loop"])) for c, _e in falses)
            why = "ancestors are compared by identity inside the walk; False only after the walk"
    if sk is None:
        # an equivalent scan of get_parent_list(): identity only through `is` / any(... is ...)
        memb = [n for n in iter_own(f.node) if isinstance(n, ast.Compare) and any(isinstance(op_, (ast.In, ast.NotIn)) for op_ in n.ops)
                and any("get_parent_list" in norm(c_) for c_ in n.comparators)]
        eqs = [n for n in iter_own(f.node) if isinstance(n, ast.Compare) and any(isinstance(op_, (ast.Eq, ast.NotEq)) for op_ in n.ops) and o in [x.id for x in ast.walk(n) if isinstance(x, ast.Name)]]
        if memb or eqs:
            ok, why = False, f"`{norm((memb or eqs)[0])}` compares nodes with == (data equality): a node with equal data that is no ancestor is reported as one"
    T(["C10"], f, "is_descendant_of compares ancestors by identity", ok, why)
    f = m.func("Node.is_ancestor_of")
    o = _first_param(f)
    ret = _single_return(ctx, f)
    T(["C10"], f, "is_ancestor_of is the converse of is_descendant_of", None if ret is None else match(f"{o}.is_descendant_of(self)", strip_new_options(f, ret.value)) is not None, "")
    f = m.func("Node.get_parent_list")
    ap = find("$res.append($p)", f.node)
    ok = None
    if len(ap) == 1:
        res = ap[0][1]["$res"]
        rv = find_under(ctx, f, f"{res}.reverse()", [("bottom_up", False)])
        rv_all = find(f"{res}.reverse()", f.node) + find(f"reversed({res})", f.node) + find(f"{res}[::-1]", f.node)
        rets = [c for c in exit_cases(ctx, f, ("return",)) if c.value is not None]
        if rets and all(norm(c.value) == res for c in rets):
            # every return after the reversal is reached with bottom_up false, every return that skips it with bottom_up true
            ok = len(rv) == 1 and len(rv_all) == 1
            for c in rets:
                after = any(any(rv[0][0] is x for x in ast.walk(s_)) for s_ in stmts_before(ctx, f, c.stmt)) if rv else False
                if not after and not any(pol and norm(e) == "bottom_up" for e, pol in c.conds):
                    ok = False
    T(["C10"], f, "get_parent_list is top-down unless bottom_up", ok, "the walk collects bottom-up; it must be reversed exactly when bottom_up is false")
    # with add_self the node itself is the *nearest* element: first bottom-up, last top-down
    oks = None
    starts = [n_ for n_ in iter_own(f.node) if isinstance(n_, ast.Assign) and isinstance(n_.value, ast.IfExp) is False and False]
    selfapp = [n_ for n_, e_ in find("$r.append(self)", f.node)] + [n_ for n_, e_ in find("$r.insert($$i, self)", f.node)]
    walks = [n_ for n_ in iter_own(f.node) if isinstance(n_, ast.While)] + [
        n_ for n_ in iter_own(f.node) if isinstance(n_, ast.Assign) and isinstance(n_.value, (ast.Call, ast.ListComp)) and any(
            isinstance(x, ast.Call) and "parent" in norm(x.func).lower() for x in ast.walk(n_.value))]
    if walks and not selfapp:
        # self takes part in the walk: it must start at self exactly under add_self
        st_self = find_under(ctx, f, "$p = self", [("add_self", True)])
        st_par = find_under(ctx, f, "$p = self._parent", [("add_self", False)])
        oks = True if (len(st_self) == 1 and len(st_par) == 1) else None
    for sa_ in selfapp:
        for w_ in walks:
            if w_ is not sa_ and not_after(ctx, f, w_, sa_) and not any(sa_ is x for x in ast.walk(w_)):
                ts_ = cond_texts(path_conds(ctx, f, sa_))
                if "not bottom_up" not in ts_:
                    oks = False  # self is put behind its ancestors although the list may be bottom-up
    T(["C10"], f, "get_parent_list(add_self=True): the node itself is the nearest element (first bottom-up, last top-down)", oks,
      "self appended after the ancestors were collected ends up last in the bottom-up list: get_common_ancestor and get_path read it from there")
    for q in ("Node.parent", "TypedNode.parent"):
        f = m.func(q)
        ret = _single_return(ctx, f)
        ok = None
        if ret is not None:
            ok = norm(ret.value) == "self._parent" and sorted(cond_texts(ret.conds)) in (["self._parent._parent"], ["not self._parent._parent is None"])
        T(["C10", "C15"] if q.startswith("Typed") else ["C10"], f, f"{q}: None for top-level nodes", ok, "the parent of a top-level node is reported as None (the system root is hidden)")
    f = m.func("Node.up")
    sk = _parent_walk(ctx, f)
    ok = None
    if sk is not None:
        ok = sk["test"] == ["level > 0"] and sk["inits"] == ["self"] and "level -= 1" in sk["body"]
    T(["C10"], f, "up(n) climbs n parents", ok, "")
    # end-of-list accessors: API names only, no locals
    want = {
        "Node.first_child": ("self._children[0]", ["self._children"]),
        "Node.last_child": ("self._children[-1]", ["self._children"]),
        "Node.first_sibling": ("self._parent._children[0]", []),
        "Node.last_sibling": ("self._parent._children[-1]", []),
        "Node.is_first_sibling": ("self is self._parent._children[0]", []),
        "Node.is_last_sibling": ("self is self._parent._children[-1]", []),
        "Node.is_top": ("self._parent._parent is None", []),
        "Node.is_system_root": ("self._parent is None", []),
        "Node.is_leaf": ("not self._children", []),
        "Node.has_children": ("bool(self._children)", []),
        "Node.depth": ("self.calc_depth()", []),
        "Tree.count": ("len(self._node_by_id)", []),
        "Tree.count_unique": ("len(self._nodes_by_data_id)", []),
        "Tree.calc_height": ("self._root.calc_height()", []),
    }
    for q, (txt, conds) in want.items():
        f = m.func(q)
        ret = _single_return(ctx, f)
        ok = None
        got = "?"
        if ret is not None and not any(isinstance(n, (ast.For, ast.While)) for n in iter_own(f.node)):
            vals = reaching_values(ctx, f, ret.stmt, ret.value)
            got = " | ".join(norm(v) for v in vals) + (f" when {sorted(cond_texts(ret.conds))}" if ret.conds else "")
            ok = len(vals) == 1 and norm(vals[0]) == txt and sorted(cond_texts(ret.conds)) == conds
        props = ["C10", "C02"] if q.startswith("Tree.count") else ["C10"]
        T(props, f, f"{q} returns `{txt}`" + (f" if {conds[0]} else None" if conds else ""), ok, f"got `{got}`")
    for q, guard, off in (("Node.prev_sibling", "self.is_first_sibling()", "-"), ("Node.next_sibling", "self.is_last_sibling()", "+")):
        f = m.func(q)
        ret = _single_return(ctx, f)
        ok = None
        if ret is not None:
            e = match(f"$$l[$$i {off} 1]", ret.value)
            if e is not None:
                iv = reaching_values(ctx, f, ret.stmt, e["$$i"])
                ok = sorted(cond_texts(ret.conds)) == [f"not {guard}"] and norm(e["$$l"]) == "self._parent._children" \
                    and len(iv) == 1 and norm(iv[0]) in ("_index_of(self._parent._children, self)", "self.get_index()")
            elif match("$$l[$$i]", ret.value) is not None or match("$$l[$$i + $$k]", ret.value) is not None or match("$$l[$$i - $$k]", ret.value) is not None:
                ok = False
        T(["C10"], f, f"{q.split('.')[1]}: None for the {'first' if off == '-' else 'last'}, else the element {'before' if off == '-' else 'after'}", ok,
          "the neighbour is the element at the own (identity) index -/+ 1 in the parent's child list")
    f = m.func("Node.get_siblings")
    cs = exit_cases(ctx, f, ("return",))
    comp = [c for c in cs if isinstance(c.value, ast.ListComp)]
    ok = None
    if len(comp) == 1:
        ok = match("[$n for $n in self._parent._children if $n is not self]", comp[0].value) is not None
    T(["C10"], f, "get_siblings excludes self by identity", ok, "")
    f = m.func("Node.count_descendants")
    lps = [n for n in iter_own(f.node) if isinstance(n, ast.For)]
    ok = None
    if len(lps) == 1:
        incs = find("$i += 1", lps[0])
        if len(incs) == 1 and isinstance(lps[0].target, ast.Name):
            nv = lps[0].target.id
            # (a guard that skips the walk for a childless start node does not change the count)
            pcs_ = [(e, pol) for e, pol in path_conds(ctx, f, incs[0][0]) if not (pol and norm(e) in ("self._children", "self.has_children()", "self.children"))]
            cts = sorted(cond_texts(pcs_))
            ok = match("self.iterator()", lps[0].iter) is not None and cts in ([f"(not leaves_only or not {nv}._children)"], [f"not (leaves_only and {nv}._children)"])
            if not ok:
                ok = match("self.iterator()", lps[0].iter) is not None and any(
                    pol and norm(e) == f"not leaves_only or not {nv}._children" for e, pol in pcs_) and len(pcs_) == 1
    T(["C10"], f, "count_descendants counts the walk (leaves only: nodes without children)", ok, "every node of the default walk counts once; with leaves_only exactly the childless ones")
    f = m.func("Node.calc_height")
    g = [x for x in f.nested]
    ok = None
    if len(g) == 1:
        gn = g[0].name
        ok = has(f"{gn}($n, $h + 1)", g[0].node) and (has("$h > $H", g[0].node) or has("max($H, $h)", g[0].node)) and has(f"{gn}(self, 0)", f.node)
    T(["C10"], f, "calc_height: maximal leaf depth below self (0 for leaves)", ok, "")
    f = m.func("Node.get_path")
    ret = _single_return(ctx, f)
    ok = None
    if ret is not None:
        ok = match("separator + separator.join($$r)", ret.value) is not None and has("self.get_parent_list(add_self=add_self)", f.node)
    T(["C10"], f, "get_path starts with and joins by the caller's separator over the ancestor list", ok, "a hard-coded '/' ignores the separator argument")
    f = m.func("Node.get_common_ancestor")
    o = _first_param(f)
    ret = _single_return(ctx, f)
    ok = None
    if ret is not None:
        tree_same = any(pol and norm(e) in (f"self._tree is {o}._tree", f"{o}._tree is self._tree") for e, pol in ret.conds)
        member = any(pol and match("$$p._node_id in $$s", e) is not None for e, pol in ret.conds)
        ok = tree_same and member and has(f"{o}.get_parent_list(add_self=True)", f.node) and has("self.get_parent_list(add_self=True, bottom_up=True)", f.node)
        if not ok and not any("get_parent_list" in norm(c_.func) for c_ in ctx.env.calls_in[f]):
            ok = None  # the two ancestor chains are followed by hand (parent links) or by another walker: not read by this clause
    T(["C10"], f, "get_common_ancestor: nearest (bottom-up) own ancestor-or-self whose node_id is among other's", ok, "")
    # a short-cut answer (some parent, without the walk) must not be given for the pair (n, n): its nearest common
    # ancestor-or-self is n itself
    bad = None
    for c in exit_cases(ctx, f, ("return",)):
        if c.value is None:
            continue
        vt = norm(c.value)
        if vt in ("self.parent", "self._parent", f"{o}.parent", f"{o}._parent"):
            ts = cond_texts(c.conds)
            if not any(t in ts for t in (f"not self is {o}", f"not {o} is self", f"self is not {o}", f"{o} is not self", f"not (self is {o})", f"not ({o} is self)")):
                bad = c.stmt
    T(["C10"], f, "get_common_ancestor: no short-cut answer for the pair (n, n)", None if bad is None and _single_return(ctx, f) is None else bad is None,
      "a parent is returned without the walk under a condition that also holds for `n.get_common_ancestor(n)` (same parent): the answer must be n itself", bad)
    return obs


# -------------------------------------------------------------------- FRAME
FRAME = {
    "Node.set_meta": {"_meta"},
    "Node.clear_meta": {"_meta"},
    "Node.update_meta": {"_meta"},
    "Node.sort_children": {"_children"},
    "Tree.sort": {"_children"},
    "Node.set_data": {"_data", "_data_id", "_nodes_by_data_id", SLOT},
    "Node.rename": {"_data", "_data_id", "_nodes_by_data_id", SLOT},
    "Node.move_to": {"_parent", "_children"},
}


@rule("FRAME", ["C04", "C02", "C13"], floor=8, section="3.4")
def frame(ctx: Ctx) -> List[Ob]:
    """each mutator's structural writes stay inside its documented footprint (metadata edits touch _meta only, sort only reorders child lists, set_data only data/id/index, move_to only parent links); metadata API details"""
    obs: List[Ob] = []
    m = ctx.model
    for q, allowed in FRAME.items():
        f = m.func(q)
        es = [e for e in ctx.fx.of(f) if e.field not in allowed]
        if q in ("Node.sort_children", "Tree.sort"):
            es += [e for e in ctx.fx.of(f) if e.field == "_children" and e.op not in ("sort",)]
        obs.append(ctx.ob("FRAME", ["C04"], f, f"{q} writes only {sorted(allowed)}", None, not es,
                          "" if not es else f"also writes: {es[0].describe()} - every other node must keep its identity, data, id, metadata, parent and order"))
    f = m.func("Node.set_meta")
    c1 = find_under(ctx, f, "self.clear_meta(key)", [("value is None", True)])
    c2 = find_under(ctx, f, "self._meta = {key: value}", [("value is None", False), ("self._meta is None", True)])
    c3 = find_under(ctx, f, "self._meta[key] = value", [("value is None", False), ("self._meta is None", False)])
    ok = len(c1) == 1 and len(c2) == 1 and len(c3) == 1
    writes = [e for e in ctx.fx.direct[f]]
    ok = ok and len(writes) == 2
    obs.append(ctx.ob("FRAME", ["C04"], f, "set_meta: None removes the key, first value creates the dict, else stores", None, ok, "" if ok else "metadata edit semantics changed"))
    f = m.func("Node.clear_meta")
    ok = len(find_under(ctx, f, "self._meta = None", [("key is None", True)])) == 1 \
        and len(find_under(ctx, f, "$$m.pop(key, None)", [("key is None", False)])) == 1 \
        and len(find_under(ctx, f, "self._meta = None", [("key is None", False), ("$$m", False)])) == 1
    obs.append(ctx.ob("FRAME", ["C04"], f, "clear_meta: all or one key; an emptied dict becomes None again", None, ok, ""))
    f = m.func("Node.update_meta")
    ok = (bool(find_under(ctx, f, "self._meta = values.copy()", [("replace or self._meta is None", True)])) or bool(find_under(ctx, f, "self._meta = dict(values)", [("replace or self._meta is None", True)]))) \
        and bool(find_under(ctx, f, "self._meta.update(values)", [("replace", False), ("self._meta is None", False)]))
    obs.append(ctx.ob("FRAME", ["C04"], f, "update_meta: replace stores a copy of the caller's dict, else merges", None, ok, ""))
    # ... also when the new values are empty: replace=True with {} clears what was there
    vp_ = [p_ for p_ in f.positional_params() if p_ != f.self_name][:1]
    if vp_:
        bad = None
        for x in ast.walk(f.node):
            if isinstance(x, (ast.Assign, ast.AnnAssign)) and any(isinstance(t, ast.Attribute) and t.attr == "_meta" for t in (x.targets if isinstance(x, ast.Assign) else [x.target])):
                for e, pol in path_conds(ctx, f, x):
                    if (pol and norm(e) in (vp_[0], f"len({vp_[0]}) > 0", f"len({vp_[0]})")) or ((not pol) and norm(e) in (f"not {vp_[0]}", f"{vp_[0]} is None", f"len({vp_[0]}) == 0")):
                        if not (isinstance(x.value, ast.Constant) and x.value.value is None):
                            bad = x
        if bad is None:
            # (the store is skipped by a preceding `if not values: return`)
            for c in exit_cases(ctx, f, ("return",)):
                ts = cond_texts(c.conds)
                if f"not {vp_[0]}" in ts and not any(t in ts for t in ("not replace", "replace")) and c.value is None:
                    before_w = [s_ for s_ in stmts_before(ctx, f, c.stmt) if any(isinstance(y, ast.Attribute) and y.attr == "_meta" and isinstance(y.ctx, ast.Store) for y in ast.walk(s_))]
                    if not before_w:
                        bad = c.stmt
        obs.append(ctx.tri("FRAME", ["C04"], f, "update_meta: replace=True replaces also when the new values are empty", bad, bad is None,
                           "the store of the new metadata runs only for non-empty values: update_meta({}, replace=True) leaves the old metadata in place"))
    f = m.func("Node.sort_children")
    srt = [c for c in ctx.env.calls_in[f] if isinstance(c.func, ast.Attribute) and c.func.attr == "sort"]
    ok = len(srt) == 1 and not srt[0].args and set(k.arg for k in srt[0].keywords) == {"key", "reverse"}
    if ok:
        kw = {k.arg: k.value for k in srt[0].keywords}
        # the key handed to list.sort is the caller's key, or the name getter when none was given
        kvals = [norm(v) for v in reaching_values(ctx, f, srt[0], kw["key"])]
        default_ok = False
        if isinstance(kw["key"], ast.Name):
            for n, _e in find(f"{kw['key'].id} = attrgetter('name')", f.node):
                if any(pol and match("key is None", e) is not None for e, pol in path_conds(ctx, f, n)):
                    default_ok = True
        ok = norm(kw["reverse"]) == "reverse" and isinstance(kw["key"], ast.Name)
    else:
        default_ok = False
    obs.append(ctx.ob("FRAME", ["C04"], f, "sort_children sorts the child list in place with the caller's key and direction", None, ok, ""))
    obs.append(ctx.ob("FRAME", ["C04"], f, "default sort key is the node name", None, default_ok, ""))
    rec = find_under(ctx, f, "$c.sort_children(key=$$k, reverse=reverse, deep=True)", [("deep", True)])
    ok = len(rec) == 1 and srt and norm(rec[0][1]["$$k"]) == norm({k.arg: k.value for k in srt[0].keywords}.get("key"))
    if ok:
        lp = m.parent_of(m.parent_of(rec[0][0]))
        ok = isinstance(lp, ast.For) and isinstance(lp.target, ast.Name) and lp.target.id == rec[0][1]["$c"] and norm(lp.iter) in (
            "self._children", "self.children") or (isinstance(lp, ast.For) and isinstance(lp.iter, ast.Name) and any(
                norm(v) in ("self._children", "self.children") for v in reaching_values(ctx, f, lp, lp.iter)))
    obs.append(ctx.ob("FRAME", ["C04"], f, "deep sort recurses into every child with the same key and direction", None, bool(ok), ""))
    f = m.func("Node.rename")
    ok = bool(find_cases(exit_cases(ctx, f, ("return",)), "return", f"self.set_data({_first_param(f)})", [("isinstance(self._data, str)", True)])) \
        or bool(find_under(ctx, f, f"self.set_data({_first_param(f)})", [("isinstance(self._data, str)", True)]))
    if not ok:
        # the same call with a *new* option of rename() handed on (a parameter the reference's rename does not have)
        from ..known_funcs import KNOWN_PARAMS

        ref = KNOWN_PARAMS.get(f"{f.module}:{f.qualname}", ())
        newp = {p_ for p_ in f.param_names() if p_ not in ref and p_ != f.self_name}
        for c in ctx.env.calls_in[f]:
            if norm(c.func) == "self.set_data" and len(c.args) == 1 and norm(c.args[0]) == _first_param(f) and c.keywords and all(
                    k.arg not in (None, "data_id") and ((isinstance(k.value, ast.Name) and k.value.id in newp) or (isinstance(k.value, ast.Constant) and k.value.value is None))
                    for k in c.keywords):
                ts = cond_texts(path_conds(ctx, f, c))
                if "isinstance(self._data, str)" in ts:
                    ok = True
    obs.append(ctx.ob("FRAME", ["C04"], f, "rename is set_data(new_name) for plain string nodes", None, ok, ""))
    f = m.func("Node.set_data")
    loops = [n for n in ast.walk(f.node) if isinstance(n, ast.For) and any(
        isinstance(x, ast.Assign) and any(isinstance(t, ast.Attribute) and t.attr in ("_data", "_data_id") for t in x.targets)
        for st in n.body for x in ast.walk(st))]
    def _only_self_or_all(conds) -> bool:
        """The conditions say: all clones were asked for (with_clones), or there is only this one node."""
        for e, pol in conds:
            if pol and match("with_clones", e) is not None:
                return True
            if pol and isinstance(e, ast.BoolOp) and isinstance(e.op, ast.Or) and any(norm(v) == "with_clones" for v in e.values) and all(
                    norm(v) == "with_clones" or norm(v).startswith("not ") or (isinstance(v, ast.Compare) and norm(v.left).startswith("len(") and isinstance(v.ops[0], (ast.LtE, ast.Lt, ast.Eq)))
                    for v in e.values):
                return True
        return False

    ok = True if loops else None
    for lp in loops:
        if _only_self_or_all(path_conds(ctx, f, lp)):
            continue
        vals = reaching_values(ctx, f, lp, lp.iter) if isinstance(lp.iter, ast.Name) else [lp.iter]
        for v in vals or [lp.iter]:
            if isinstance(v, (ast.List, ast.Tuple)) and len(v.elts) == 1 and norm(v.elts[0]) == "self":
                continue  # the node itself
            st_ = m.parent_of(v)
            if isinstance(st_, (ast.Assign, ast.AnnAssign)) and _only_self_or_all(path_conds(ctx, f, st_)):
                continue  # the clone list, chosen only when all clones were asked for (or there is only one)
            rv = norm(resolve_expr(ctx, f, lp, v))
            if "_nodes_by_data_id" in rv or "get_clones" in rv:
                ok = False  # witness: the whole clone list is rewritten although with_clones was not given
            elif ok:
                ok = None
    obs.append(ctx.tri("FRAME", ["C04", "C02"], f, "set_data touches the other clones only under with_clones", None, ok, "without with_clones exactly this node changes"))
    # a slot that loses one node is deleted when it becomes empty, or provably keeps another node (count_unique, `in`, find(data_id=))
    takes = []
    for c in ast.walk(f.node):
        if isinstance(c, ast.Call) and isinstance(c.func, ast.Attribute) and c.func.attr in ("pop", "remove") and "_nodes_by_data_id[" in norm(
                resolve_expr(ctx, f, c, c.func.value)):
            takes.append(c)
    ok = None
    if takes:
        def _len_test(e) -> bool:
            t = norm(e)
            return "len(" in t or any(isinstance(x, ast.Name) and any("len(" in norm(v) for v in reaching_values(ctx, f, e, x) or [])
                                      for x in ast.walk(e))
        dels = [n for n in ast.walk(f.node) if isinstance(n, ast.Delete) and any(
            "_nodes_by_data_id[" in norm(resolve_expr(ctx, f, n, t)) for t in n.targets)]

        def _deleted_after(c) -> bool:
            """A `del` of an index slot that runs after the take on the same path (the emptied slot is dropped there)."""
            mine = set(cond_texts(path_conds(ctx, f, c)))
            return any(n.lineno > c.lineno and mine <= set(cond_texts(path_conds(ctx, f, n))) for n in dels)
        ok = True
        for c in takes:
            conds = path_conds(ctx, f, c)
            def _atoms(e, pol):
                if isinstance(e, ast.UnaryOp) and isinstance(e.op, ast.Not):
                    yield from _atoms(e.operand, not pol)
                elif isinstance(e, ast.BoolOp):
                    if isinstance(e.op, ast.And) == bool(pol):
                        for v in e.values:
                            yield from _atoms(v, pol)
                else:
                    yield e
            if any(_len_test(a) for e, p_ in conds for a in _atoms(e, p_)):
                continue  # reached only when the slot holds more than this node (or the count was looked at)
            if _deleted_after(c):
                ok = None if ok else ok
                continue
            ok = False  # witness: the slot of a single node is emptied and stays in the index as []
    obs.append(ctx.tri("FRAME", ["C04", "C02"], f, "set_data: a node is taken out of its index slot only when the slot keeps another node (or the emptied slot is deleted)", None, ok,
                       "an empty slot left under the old data_id counts in count_unique and answers `in` / find(data_id=)"))
    amb = [c for c in exit_cases(ctx, f, ("raise",)) if raised_class(c.stmt) == "AmbiguousMatchError"]
    ok = any(find_cases([c], "raise", None, [("with_clones is None", True), ("len($$h) > 1", True)]) or find_cases([c], "raise", None, [("with_clones is None", True), ("$h", True)]) for c in amb)
    obs.append(ctx.ob("FRAME", ["C04", "C13"], f, "set_data on a clone requires a with_clones decision", None, ok, ""))
    return obs


# ----------------------------------------------------------------------- FS
@rule("FS", ["C19", "C05"], floor=8, section="3.13")
def fs(ctx: Ctx) -> List[Ob]:
    """load_tree_from_fs: both branches build the same entries (name, is_dir / size<-st_size, mdate<-st_mtime), recurse once per directory with the created node, and the sorted branch lists files first (by name) then directories (by name)"""
    from .util import not_after, resolve_expr

    obs: List[Ob] = []
    m = ctx.model
    f = m.func("load_tree_from_fs.visit")
    top = m.func("load_tree_from_fs")
    nparam, pparam = f.positional_params()[:2]

    def T(g, label, ok, why="", props=("C19",)):
        obs.append(ctx.tri("FS", list(props), g, label, None, ok, why))

    def branch(node) -> Optional[str]:
        ts = cond_texts(path_conds(ctx, f, node))
        return "sorted" if "sort" in ts else ("unsorted" if "not sort" in ts else None)

    ctors = [c for c in ast.walk(f.node) if isinstance(c, ast.Call) and norm(c.func) == "FileSystemEntry"]
    shapes: Dict[str, List[str]] = {"sorted": [], "unsorted": []}
    entry_of: Dict[int, Tuple[str, str]] = {}
    for c in ctors:
        br = branch(c)
        if br is None:
            shapes.setdefault("?", []).append(norm(c))
            continue
        ts = cond_texts(path_conds(ctx, f, c))
        name = norm(resolve_expr(ctx, f, c, c.args[0])) if c.args else "?"
        kw = {k.arg: norm(resolve_expr(ctx, f, c, k.value)) for k in c.keywords}
        subj = None
        for t_ in ts:
            if t_.endswith(".is_dir()") and not t_.startswith("not "):
                subj = ("dir", t_[: -len(".is_dir()")])
            elif t_.endswith(".is_file()") and not t_.startswith("not ") and subj is None:
                subj = ("file", t_[: -len(".is_file()")])
        if subj is None:
            shapes[br].append(f"unclassified {norm(c)}")
            continue
        kind, x = subj
        if kind == "dir":
            good = name in (f"{x}.name", f"f'{{{x}.name}}'", f"str({x}.name)") and kw == {"is_dir": "True"}
        else:
            good = name in (f"{x}.name", f"f'{{{x}.name}}'") and kw == {"size": f"{x}.stat().st_size", "mdate": f"{x}.stat().st_mtime"} and f"not {x}.is_dir()" in ts
        shapes[br].append(kind if good else f"{kind}? {norm(c)} {kw}")
        entry_of[id(c)] = (kind, x)
    ok = None if not ctors or "?" in shapes or not (shapes["sorted"] or shapes["unsorted"]) else all(sorted(shapes[b_]) == ["dir", "file"] for b_ in ("sorted", "unsorted"))
    if ok is False and not any("?" in x_ for b_ in ("sorted", "unsorted") for x_ in shapes[b_]) and any(not shapes[b_] for b_ in ("sorted", "unsorted")):
        ok = None  # one of the two scans is spelled in a way this clause does not read
    T(f, "sorted and unsorted branch construct the same two entry shapes (dir flag / size<-st_size, mdate<-st_mtime), classified by is_dir()/is_file()", ok,
      f"sorted: {sorted(shapes['sorted'])} / unsorted: {sorted(shapes['unsorted'])}")
    # the sorted scan and the unsorted scan exclude each other
    its = [c for c in ast.walk(f.node) if isinstance(c, ast.Call) and norm(c.func) == f"{pparam}.iterdir"]
    brs = [branch(c) for c in its]
    if len(its) == 2 and sorted(b_ or "?" for b_ in brs) == ["sorted", "unsorted"]:
        ok = True
    elif len(its) >= 2 and any(b_ is None for b_ in brs) and any(b_ is not None for b_ in brs):
        ok = False  # one scan runs whatever `sort` says, next to one that depends on it: both run for one of the settings
    else:
        ok = None
    T(f, "the directory is scanned once: either the sorted or the unsorted way", ok, "entries would be added twice")
    # recursion: once per directory, below the node created for that directory
    recs = [c for c in ast.walk(f.node) if isinstance(c, ast.Call) and norm(c.func) == f.name and len(c.args) == 2]
    for nm in ("sorted", "unsorted"):
        rs = [c for c in recs if branch(c) == nm]
        ok = None
        if len(rs) == 1:
            a0 = resolve_expr(ctx, f, rs[0], rs[0].args[0])
            e = match(f"{nparam}.add($$o)", a0) or match(f"{nparam}.add_child($$o)", a0)
            sub = norm(rs[0].args[1])
            # a definite mistake: the recursion runs below the scanned node itself, or rescans the same path
            ok = False if (norm(a0) == nparam or sub == pparam) else None
            if e is not None:
                o = e["$$o"]
                if isinstance(o, ast.Call) and id_of_ctor(o, ctors, entry_of) == ("dir", sub):
                    ok = True
                elif isinstance(o, ast.Name):
                    # the entry travels with its path in a (path, entry) pair collected for sorting
                    pairs = find("$l.append(($c, $$o2))", f.node)
                    for n_, e2 in pairs:
                        o2 = resolve_expr(ctx, f, n_, e2["$$o2"])
                        lp_ = [l_ for l_ in ast.walk(f.node) if isinstance(l_, ast.For) and any(rs[0] is x for x in ast.walk(l_)) and isinstance(l_.target, ast.Tuple)
                               and [norm(t_) for t_ in l_.target.elts] == [sub, o.id] and e2["$l"] in [x.id for x in ast.walk(l_.iter) if isinstance(x, ast.Name)]]
                        if lp_ and isinstance(o2, ast.Call) and norm(o2.func) == "FileSystemEntry" and any(k.arg == "is_dir" for k in o2.keywords) \
                                and norm(o2.args[0]) in (f"{e2['$c']}.name", f"f'{{{e2['$c']}.name}}'", f"str({e2['$c']}.name)"):
                            ok = True
        elif len(rs) > 1:
            ok = False
        T(f, f"{nm}: each directory is added and scanned once, below its own node", ok, "sub-directories must appear at the corresponding depth")
    # sorted branch: files first (by name) then directories (by path name)
    adds = [c for c in ast.walk(f.node) if isinstance(c, ast.Call) and norm(c.func) in (f"{nparam}.add", f"{nparam}.add_child") and branch(c) == "sorted"]
    ok = None
    if len(adds) == 2:
        def loop_of(c):
            p_ = m.parent_of(c)
            while p_ is not None and not isinstance(p_, ast.For):
                p_ = m.parent_of(p_)
            return p_

        def sort_key(lp_) -> Optional[Tuple[str, str]]:
            """(list name, key text) the loop iterates in sorted order"""
            e_ = match("sorted($l, key=$$k)", lp_.iter)
            if e_ is not None:
                return e_["$l"], norm(e_["$$k"])
            if isinstance(lp_.iter, ast.Name):
                srt = [n_ for n_, e3 in find(f"{lp_.iter.id}.sort(key=$$k)", f.node) if not_after(ctx, f, n_, lp_)]
                if len(srt) == 1:
                    return lp_.iter.id, norm(match(f"{lp_.iter.id}.sort(key=$$k)", srt[0])["$$k"])
            return None

        fl, dl = None, None
        for c in adds:
            lp_ = loop_of(c)
            if lp_ is None:
                continue
            if any(r_ is x for r_ in recs for x in ast.walk(lp_)):
                dl = (lp_, sort_key(lp_))
            else:
                fl = (lp_, sort_key(lp_))
        if fl and dl and fl[1] and dl[1]:
            ok = fl[1][1] == "attrgetter('name')" and dl[1][1] == "itemgetter(0)" and not_after(ctx, f, fl[0], dl[0]) and fl[0] is not dl[0] \
                and bool(find(f"{fl[1][0]}.append($$o)", f.node)) and bool(find(f"{dl[1][0]}.append(($$c, $$o))", f.node))
            if not ok and fl[0] is not dl[0] and not_after(ctx, f, fl[0], dl[0]) and fl[1][1] in ("attrgetter('name')", "attrgetter('entry.name')") \
                    and dl[1][1] != "itemgetter(0)" and ("attrgetter(" in dl[1][1] or "itemgetter(" in dl[1][1] or dl[1][1].startswith("lambda")):
                ok = None  # the directories are kept in another record (a NamedTuple, a dict): which field the key reads is not decided here
    T(f, "sorted: files first (by name), then directories (by path name)", ok, "files first, name-sorted, then sub-directories, name-sorted")
    # whatever the scan is split into: a sorted scan descends through a walker that can sort, an unsorted one through
    # a walker that can leave the order alone (the requested order holds at every depth, not only at the top)
    # (a walker adds nodes; a nested generator that merely lists a directory is not one)
    walkers = [g for g in top.nested if any(isinstance(c, ast.Call) and isinstance(c.func, ast.Attribute) and c.func.attr in ("add", "add_child", "append_child") for c in ast.walk(g.node))]

    def mode(g) -> str:
        if any(isinstance(x, ast.Name) and x.id == "sort" and isinstance(x.ctx, ast.Load) for x in ast.walk(g.node)):
            return "both"
        if any(isinstance(c, ast.Call) and (norm(c.func) == "sorted" or (isinstance(c.func, ast.Attribute) and c.func.attr == "sort")) for c in ast.walk(g.node)):
            return "sorted"
        return "unsorted"

    ok = None
    why_w = ""
    for h in [top] + list(top.nested):
        for c in iter_own(h.node):
            if not (isinstance(c, ast.Call) and isinstance(c.func, ast.Name)):
                continue
            tg = [g for g in walkers if g.name == c.func.id]
            if not tg:
                continue
            ts = cond_texts(path_conds(ctx, h, c))
            want_mode = "sorted" if "sort" in ts else ("unsorted" if "not sort" in ts else (mode(h) if h is not top and mode(h) != "both" else None))
            if want_mode is None:
                continue
            got = mode(tg[0])
            if got not in ("both", want_mode):
                ok = False
                why_w = f"`{norm(c)}` in the {want_mode} scan descends through `{tg[0].name}`, which only scans {got}: below the first level the entries come in the other order"
            elif ok is None:
                ok = True
    T(top, "a sorted scan recurses into a sorted scan, an unsorted one into an unsorted one", ok, why_w)
    # whatever sorts: entries are ordered by the *file* name, not by the node's display name (Node.name is repr(data))
    oksk = None
    for c in [x for g_ in [top] + list(top.nested) for x in ast.walk(g_.node) if isinstance(x, ast.Call)]:
        if not (norm(c.func) == "sorted" or (isinstance(c.func, ast.Attribute) and c.func.attr in ("sort", "sort_children"))):
            continue
        for k in c.keywords:
            if k.arg == "key" and isinstance(k.value, ast.Lambda) and k.value.args.args:
                pn_ = k.value.args.args[0].arg
                uses_data = any(isinstance(x, ast.Attribute) and x.attr == "data" and isinstance(x.value, ast.Name) and x.value.id == pn_ for x in ast.walk(k.value.body))
                node_name = any(isinstance(x, ast.Attribute) and x.attr == "name" and isinstance(x.value, ast.Name) and x.value.id == pn_ for x in ast.walk(k.value.body))
                if uses_data and node_name:
                    oksk = False
                elif oksk is None:
                    oksk = True
    if oksk is not None:
        T(top, "a sort key built from tree nodes uses the entry's file name (node.data.name), not Node.name", oksk,
          "Node.name is repr(data) (`'x', 3 bytes` / `[x]`): quotes and brackets take part in the comparison, `lib2` sorts before `lib`")
    e = one("$t = FileSystemTree(str(path))", top.node)
    ok = None
    if e is not None:
        ok = has(f"{f.name}($t._root, path)", top.node, {"$t": e[1]["$t"]}) and any(match("$t", r.value, {"$t": e[1]["$t"]}) is not None for r in _returns(top))
    T(top, "the scan starts at the root with the given path and builds a FileSystemTree", ok, "")
    e = m.func("FileSystemEntry.__init__")
    ok = has("self.name = name", e.node) and has("self.is_dir = is_dir", e.node) and has("self.size = int(size)", e.node)
    md = find("self.mdate = $$v", e.node)
    if ok and md:
        flt = [n_ for n_, e_ in md if norm(e_["$$v"]) == "float(mdate)"]
        non = [n_ for n_, e_ in md if norm(e_["$$v"]) == "None"]
        ok = (len(md) == 1 and norm(md[0][1]["$$v"]) == "float(mdate) if mdate is not None else None") or (
            len(flt) == 1 and len(non) == 1 and "not (mdate is None)" in cond_texts(path_conds(ctx, e, flt[0])) | {t_.replace("not mdate is None", "not (mdate is None)") for t_ in cond_texts(path_conds(ctx, e, flt[0]))}
            and "mdate is None" in cond_texts(path_conds(ctx, e, non[0])))
    elif ok:
        ok = None
    T(e, "FileSystemEntry stores name, is_dir, size, mdate (mdate 0.0 is a value)", ok, "")
    sm, dm = m.func("FileSystemTree.serialize_mapper"), m.func("FileSystemTree.deserialize_mapper")
    ups = [c for c in ctx.env.calls_in[sm] if norm(c.func) == "data.update" and c.args and isinstance(c.args[0], ast.Dict)]
    ok = None
    if len(ups) == 2:
        tab = {}
        for c in ups:
            d_ = {norm(k): norm(resolve_expr(ctx, sm, c, v)) for k, v in zip(c.args[0].keys, c.args[0].values)}
            ts = cond_texts(path_conds(ctx, sm, c))
            tab["dir" if "node.data.is_dir" in ts else ("file" if "not node.data.is_dir" in ts else "?")] = d_
        ok = tab == {"dir": {"'n'": "node.data.name", "'d'": "True"}, "file": {"'n'": "node.data.name", "'s'": "node.data.size", "'m'": "node.data.mdate"}}
    if ok is None:
        # witness: fields are dropped by truthiness - an empty file (size 0) or an epoch mdate (0.0) loses its key
        for comp in [x for x in ast.walk(sm.node) if isinstance(x, (ast.DictComp, ast.ListComp, ast.GeneratorExp))]:
            for g_ in comp.generators:
                vnames = {x.id for x in ast.walk(g_.target) if isinstance(x, ast.Name)}
                if any(isinstance(t_, ast.Name) and t_.id in vnames for t_ in g_.ifs):
                    src_ = resolve_expr(ctx, sm, comp, g_.iter)
                    if any(isinstance(x, ast.Attribute) and x.attr in ("size", "mdate") for x in ast.walk(src_)):
                        ok = False
    T(sm, "serialize: directories {n, d}, files {n, s<-size, m<-mdate}", ok, "a file's size and mdate are stored whatever their value (0 bytes, mdate 0.0)", props=("C19", "C05"))
    cs = [c for c in exit_cases(ctx, dm, ("return",)) if c.value is not None]
    ok = None
    if len(cs) == 2:
        tab = {}
        for c in cs:
            ts = cond_texts(c.conds)
            tab["dir" if "'d' in data" in ts else ("file" if "not 'd' in data" in ts or "not ('d' in data)" in ts else "?")] = norm(resolve_expr(ctx, dm, c.stmt, c.value))
        ok = tab == {"dir": "FileSystemEntry(data['n'], is_dir=True)", "file": "FileSystemEntry(data['n'], size=data['s'], mdate=data['m'])"}
    T(dm, "deserialize mirrors serialize (d -> directory; s -> size, m -> mdate)", ok, "", props=("C19", "C05"))
    # FileSystemEntry must not define data equality: equal entries would become clones
    fe = m.classes.get("FileSystemEntry")
    bad = [n for n in (fe.methods if fe else {}) if n in ("__eq__", "__hash__")]
    obs.append(ctx.ob("FS", ["C19", "C05"], "fs:FileSystemEntry", "entries are compared by identity (no __eq__/__hash__): distinct files never become clones", None, not bad,
                      "" if not bad else f"{bad}: two files with equal attributes would be stored as one clone group and share attributes after save/load"))
    return obs


def not_after_(ctx, f, a, b) -> bool:
    from .util import not_after

    return not_after(ctx, f, a, b)


def id_of_ctor(o: ast.Call, ctors, entry_of) -> Optional[Tuple[str, str]]:
    """classification of a FileSystemEntry(...) expression that was resolved (copied) from one of the constructor calls"""
    t = norm(o)
    for c in ctors:
        if norm(c) == t and id(c) in entry_of:
            return entry_of[id(c)]
    return None


# ---------------------------------------------------------------------- GEN
@rule("GEN", ["C20"], floor=12, section="3.13")
def gen(ctx: Ctx) -> List[Ob]:
    """build_random_tree: every Randomizer.generate tests the skip probability first, specs are merged `*` -> type -> relation, counts are resolved, indices are 1-based and both macros are supplied, skipped values are removed after the loop, typed parents get kind=node_type, children only for types present in relations, the requested class is instantiated"""
    obs: List[Ob] = []
    m = ctx.model
    gens = [f for f in m.all_funcs() if f.name == "generate" and f.cls and "Randomizer" in m.classes[f.cls].mro and f.cls != "Randomizer"]
    if len(gens) < 5:
        raise AnalysisError("fewer than 5 Randomizer.generate implementations")
    for f in gens:
        cs = exit_cases(ctx, f, ("return",))
        valued = [c for c in cs if c.value is not None and norm(c.value) not in ("None", "self.none_value")]
        ok = bool(valued) and all(any((not pol) and norm(e) == "self._skip_value()" for e, pol in c.conds) for c in valued)
        # nothing effectful (a draw) happens before the skip test
        sk = [c for c in ctx.env.calls_in[f] if norm(c.func) == "self._skip_value"]
        ok = ok and len(sk) == 1 and not any(isinstance(c, ast.Call) and "random" in norm(c.func) and not not_after_(ctx, f, sk[0], c) for c in ctx.env.calls_in[f])
        obs.append(ctx.ob("GEN", ["C20"], f, f"{f.qualname} tests the skip probability before producing a value", None, ok,
                          "" if ok else "attributes skipped by probability must be absent"))
    # every subclass constructor forwards `probability` to the base class
    for c in m.classes.values():
        if "Randomizer" in c.mro and c.name != "Randomizer" and "__init__" in c.methods:
            f = c.methods["__init__"]
            if "probability" not in f.param_names():
                continue
            sup = [x for x in ctx.env.calls_in[f] if isinstance(x.func, ast.Attribute) and x.func.attr == "__init__"
                   and isinstance(x.func.value, ast.Call) and norm(x.func.value.func) == "super"]
            ok = len(sup) == 1 and any(k.arg == "probability" and norm(k.value) == "probability" for k in sup[0].keywords)
            obs.append(ctx.ob("GEN", ["C20"], f, f"{c.name}.__init__ forwards probability to the base class", None, ok,
                              "" if ok else "a randomizer that drops its probability never skips"))
    f = m.func("Randomizer._skip_value")
    rs_ = _returns(f)
    ok = None if len(rs_) != 1 else norm(rs_[0].value) in (
        "self.probability != 1.0 and (not random.random() <= self.probability)", "self.probability != 1.0 and random.random() > self.probability",
        "not (self.probability == 1.0 or random.random() <= self.probability)")
    obs.append(ctx.tri("GEN", ["C20"], f, "_skip_value: skip unless probability is 1 or the draw is within it", None, ok, ""))
    f = m.func("RangeRandomizer.generate")
    ok = has("return random.uniform(self.min, self.max)", f.node) and has("return random.randrange(self.min, self.max)", f.node)
    obs.append(ctx.ob("GEN", ["C20"], f, "RangeRandomizer draws within [min, max)", None, ok, ""))
    from .util import always_before, not_after, resolve_expr

    def T(g, label, ok, why=""):
        obs.append(ctx.tri("GEN", ["C20"], g, label, None, ok, why))

    f = m.func("_merge_specs")
    nt, sp, ty = f.positional_params()[:3]
    rets = [c for c in exit_cases(ctx, f, ("return",)) if c.value is not None]
    ok = None
    if len(rets) == 1 and isinstance(rets[0].value, ast.Name):
        r = rets[0].value.id
        inits = [norm(resolve_expr(ctx, f, n_, e_["$$v"], keep=[r])) for n_, e_ in find(f"{r} = $$v", f.node)]
        ups = [(n_, norm(resolve_expr(ctx, f, n_, e_["$$x"], keep=[r]))) for n_, e_ in find(f"{r}.update($$x)", f.node)]
        if len(inits) == 1 and ups:
            order_ok = all(not_after(ctx, f, ups[i][0], ups[i + 1][0]) for i in range(len(ups) - 1))
            ok = inits[0] in (f"{ty}.get('*', {{}}).copy()", f"dict({ty}.get('*', {{}}))") and [u for _n, u in ups] == [f"{ty}.get({nt}, {{}})", sp] and order_ok
            why_m = f"base {inits[0]}, then {[u for _n, u in ups]}"
    T(f, "_merge_specs: global defaults, then type defaults, then the relation spec (on a copy)", ok, (why_m if ok is False else "") + ": merge order decides which value wins")
    f = m.func("_resolve_random_dict")
    d = f.positional_params()[0]
    gens_ = [c for c in ctx.env.calls_in[f] if isinstance(c.func, ast.Attribute) and c.func.attr == "generate"]
    pops = find(f"{d}.pop($$k)", f.node)
    ok = None
    rm = None
    if len(pops) == 1 and len(gens_) == 1:
        lp_ = m.parent_of(pops[0][0])
        while lp_ is not None and not isinstance(lp_, ast.For):
            lp_ = m.parent_of(lp_)
        main = gens_[0]
        ml = m.parent_of(main)
        while ml is not None and not isinstance(ml, ast.For):
            ml = m.parent_of(ml)
        if lp_ is not None and ml is not None:
            ok = lp_ is not ml and isinstance(lp_.iter, ast.Name) and not_after(ctx, f, ml, lp_) and norm(pops[0][1]["$$k"]) == norm(lp_.target)
            rm = lp_.iter.id if isinstance(lp_.iter, ast.Name) else None
    for n_, _e in pops:
        lp2 = m.parent_of(n_)
        while lp2 is not None and not isinstance(lp2, ast.For):
            lp2 = m.parent_of(lp2)
        if lp2 is not None and norm(lp2.iter) in (d, f"{d}.keys()", f"{d}.items()", f"{d}.values()"):
            ok = False
    T(f, "skipped keys are removed after the scan (deferred)", ok, "removing keys while iterating the dict fails / skips entries")
    # only a Randomizer that answered None (skipped by its probability) makes a key disappear; a literal None stays
    rem_ = [n_ for n_ in ast.walk(f.node) if (isinstance(n_, ast.Delete) and any(isinstance(t_, ast.Subscript) and norm(t_.value) == d for t_ in n_.targets))
            or (isinstance(n_, ast.Call) and isinstance(n_.func, ast.Attribute) and n_.func.attr == "pop" and norm(n_.func.value) == d and not any(isinstance(l_, ast.For) and norm(l_.iter) != d and not norm(l_.iter).startswith(f"list({d}") and not norm(l_.iter).startswith(d + ".") for l_ in _ancestors_of(m, n_, f.node)))
            or (isinstance(n_, ast.Call) and isinstance(n_.func, ast.Attribute) and n_.func.attr == "append" and isinstance(n_.func.value, ast.Name) and "remov" in n_.func.value.id.lower())]
    okn = None
    if rem_:
        okn = True
        for n_ in rem_:
            pcs_ = path_conds(ctx, f, n_)
            none_test = any("is None" in norm(e_) and p_ for e_, p_ in pcs_)
            rnd = any(p_ and "isinstance(" in norm(e_) and "Randomizer" in norm(e_) for e_, p_ in pcs_)
            if none_test and not rnd:
                okn = False
            elif not none_test and okn:
                okn = None if okn is True and not rnd else okn
    T(f, "a key is dropped only when a Randomizer skipped it (a literal None is a value)", okn,
      "`is None` is tested for plain values too: an attribute whose configured value is None disappears from the node")
    ok = None
    if rm is not None and len(gens_) == 1:
        apps = find(f"{rm}.append($$k)", f.node)
        stores = find(f"{d}[$$k] = $$v", f.node)
        fmts = [(n_, e_) for n_, e_ in stores if isinstance(e_["$$v"], ast.Call) and isinstance(e_["$$v"].func, ast.Attribute) and e_["$$v"].func.attr == "format"]
        keeps = [(n_, e_) for n_, e_ in stores if not any(n_ is x for x, _e in fmts)]
        if len(apps) == 1 and len(fmts) == 1 and len(keeps) == 1:
            # the generated value: the variable rebound to <x>.generate()
            gv = m.parent_of(gens_[0])
            gname = gv.targets[0].id if isinstance(gv, ast.Assign) and isinstance(gv.targets[0], ast.Name) else None
            if gname is not None:
                ta, tk, tf = cond_texts(path_conds(ctx, f, apps[0][0])), cond_texts(path_conds(ctx, f, keeps[0][0])), cond_texts(path_conds(ctx, f, fmts[0][0]))
                skip_ok = f"{gname} is None" in ta and (f"not ({gname} is None)" in tk or f"not {gname} is None" in tk) and norm(keeps[0][1]["$$v"]) == gname
                fv = fmts[0][1]["$$v"]
                subj = norm(fv.func.value)
                fmt_ok = "macros" in tf and f"isinstance({subj}, str)" in tf and not any("Randomizer" in t_ for t_ in tf) and norm(fv) == f"{subj}.format(**macros)" \
                    and subj == gname and not_after(ctx, f, gens_[0], fmts[0][0])
                ok = skip_ok and fmt_ok
    if ok is None and len(gens_) == 1:
        # witnessed wrong value, whatever the removal idiom: a macro expansion that is only reached when the
        # value is *not* a Randomizer leaves generated strings unexpanded
        for n_, e_ in find(f"{d}[$$k] = $$v", f.node):
            v_ = e_["$$v"]
            if isinstance(v_, ast.Call) and isinstance(v_.func, ast.Attribute) and v_.func.attr == "format":
                if any("Randomizer" in t_ and t_.startswith("not ") for t_ in cond_texts(path_conds(ctx, f, n_))):
                    ok = False
    T(f, "randomizers are resolved, only None results are skipped (0/False/'' are values), every string value (literal or generated) is macro-expanded", ok,
      "a legal falsy random value must not be dropped; the macro expansion is a separate step after the randomizer was resolved")
    f = m.func("_make_tree")
    lp0 = [n for n in ast.walk(f.node) if isinstance(n, ast.For) and isinstance(n.target, ast.Tuple) and len(n.target.elts) == 2]
    if len(lp0) != 1:
        T(f, "_make_tree: children come from the parent type's relation", None, "relation loop not recognised")
    else:
        ol = lp0[0]
        ntv, spv = norm(ol.target.elts[0]), norm(ol.target.elts[1])
        T(f, "_make_tree: children come from the parent type's relation", norm(resolve_expr(ctx, f, ol, ol.iter)) == "relations[parent_type].items()", f"iterates {norm(ol.iter)}")
        # the relation's own spec is merged for every (parent type, child type) pair: not skipped, not shared between parents
        mcs_ = [c for c in ast.walk(ol) if isinstance(c, ast.Call) and norm(c.func) == "_merge_specs"]
        if mcs_:
            inl_ = {id(x) for x in ast.walk(ol)}
            cond_ = [("" if p_ else "not ") + norm(e_) for c in mcs_ for e_, p_ in path_conds(ctx, f, c) if id(getattr(e_, "_orig", e_)) in inl_]
            T(f, "_make_tree: the specs are merged for every relation (parent type -> child type)", not cond_,
              f"the merge runs only under {cond_}: a child type that occurs below two parent types gets the count and attributes of whichever relation was seen first")
        rl = [n for n in ast.walk(ol) if isinstance(n, ast.For) and isinstance(n.iter, ast.Call) and norm(n.iter.func) == "range"]
        ms = [c for c in ast.walk(ol) if isinstance(c, ast.Call) and norm(c.func) == "_merge_specs"]
        T(f, "_make_tree: attribute merge per child type", (len(ms) == 1 and [norm(a_) for a_ in ms[0].args] == [ntv, spv, "types"]) if ms else None, "")
        if len(rl) == 1:
            il = rl[0]
            iv = norm(il.target)
            cnt = norm(resolve_expr(ctx, f, il, il.iter.args[-1] if il.iter.args else il.iter))
            spec_name = None
            inc = find(f"{iv} += 1", il)
            if len(il.iter.args) == 1:
                # range(count) with `i += 1` as the first step of the round
                mm = match("_resolve_random($$s.pop(':count', 1)) or 0", resolve_expr(ctx, f, il, il.iter.args[0]))
                one_based = (len(inc) == 1 and il.body and any(inc[0][0] is x for x in ast.walk(il.body[0])))
            elif len(il.iter.args) == 2 and norm(il.iter.args[0]) == "1":
                # range(1, count + 1)
                hi = resolve_expr(ctx, f, il, il.iter.args[1])
                mm = match("(_resolve_random($$s.pop(':count', 1)) or 0) + 1", hi) or match("1 + (_resolve_random($$s.pop(':count', 1)) or 0)", hi)
                one_based = not inc
            else:
                mm, one_based = None, False
            count_ok = True if mm is not None else (None if (":count" in cnt or "count" in cnt) and "or 0" in cnt or ":count" not in cnt else False)
            T(f, "_make_tree: exactly `count` children per relation; count defaults to 1 and randomized counts are resolved (None -> 0)", count_ok, f"count is `{cnt}`")
            T(f, "_make_tree: 1-based sibling index", bool(one_based), "indices start at 1")
            # the dotted path
            rr = [c for c in ast.walk(il) if isinstance(c, ast.Call) and norm(c.func) == "_resolve_random_dict"]
            ok = None
            mdv = None
            md: Dict[str, ast.AST] = {}
            if len(rr) == 1:
                mk = [k for k in rr[0].keywords if k.arg == "macros"]
                mdv = None
                if mk:
                    mvals = reaching_values(ctx, f, rr[0], mk[0].value)
                    mdv = mvals[0] if len(mvals) == 1 and isinstance(mvals[0], ast.Dict) else None
                if mdv is not None:
                    md = {norm(k): v for k, v in zip(mdv.keys, mdv.values)}
                    ok = set(md) == {"'idx'", "'hier_idx'"} and norm(md["'idx'"]) == iv
                    if ok and isinstance(md["'hier_idx'"], ast.Name):
                        pv = md["'hier_idx'"].id
                        a1 = find_under(ctx, f, f"{pv} = f'{{prefix}}.{{{iv}}}'", [("prefix", True)])
                        a2 = find_under(ctx, f, f"{pv} = str({iv})", [("prefix", False)]) or find_under(ctx, f, f"{pv} = f'{{{iv}}}'", [("prefix", False)])
                        ok = len(a1) == 1 and len(a2) == 1 and len(find(f"{pv} = $$v", f.node)) == 2
                    elif ok:
                        ok = norm(md["'hier_idx'"]) in (f"f'{{prefix}}.{{{iv}}}' if prefix else f'{{{iv}}}'", f"f'{{prefix}}.{{{iv}}}' if prefix else str({iv})")
                    dat = norm(resolve_expr(ctx, f, rr[0], rr[0].args[0], keep=[spv])) if rr[0].args else "?"
                    own = dat in (f"{spv}.copy()", f"dict({spv})") or (dat.endswith(".copy()") and len(dat) > 7) or (dat.startswith("dict(") and dat.endswith(")")) or dat.startswith("{**")
                    T(f, "_make_tree: each node gets its own attribute dict", own, f"the randomizers are resolved in `{dat}`")
            if ok is None and rr:
                # some call resolves the attributes without the macros at all (`macros=None`, or no macros argument)
                for c_ in rr:
                    mk_ = [k for k in c_.keywords if k.arg == "macros"]
                    if not mk_ and len(c_.args) < 2:
                        ok = False
                    elif mk_:
                        mv_ = reaching_values(ctx, f, c_, mk_[0].value) if isinstance(mk_[0].value, ast.Name) else [mk_[0].value]
                        if mv_ and any(isinstance(v_, ast.Constant) and v_.value is None for v_ in mv_):
                            ok = False
            T(f, "_make_tree: both macros supplied (idx, hier_idx = dotted index path from the parent's prefix)", ok, "on some path the attributes are resolved without the {idx} / {hier_idx} macros: strings produced by a randomizer keep their placeholders")
            adds = [c for c in ast.walk(il) if isinstance(c, ast.Call) and norm(c.func) == "parent_node.add_child"]
            ok = None
            if adds:
                tab = {}
                for c in adds:
                    ts = cond_texts(path_conds(ctx, f, c))
                    who = "typed" if "isinstance(parent_node, TypedNode)" in ts else ("plain" if "not isinstance(parent_node, TypedNode)" in ts else "?")
                    a0 = resolve_expr(ctx, f, c, c.args[0]) if c.args else None
                    built = a0 is not None and isinstance(a0, ast.Call) and len(a0.keywords) == 1 and a0.keywords[0].arg is None and not a0.args
                    tab[who] = (sorted((k.arg, norm(k.value)) for k in c.keywords), built)
                ok = tab == {"typed": ([("kind", ntv)], True), "plain": ([], True)}
                if not ok and any(k.arg is None for c in adds for k in c.keywords):
                    ok = None  # the keyword arguments are assembled in a dict beforehand (**kwargs): not read here
            T(f, "_make_tree: node data built from the attributes; typed parents pass kind=<type name>, plain parents only the data", ok, "")
            recs = [c for c in ast.walk(il) if isinstance(c, ast.Call) and norm(c.func) == "_make_tree"]
            ok = None
            if len(recs) == 1:
                kw = {k.arg: k.value for k in recs[0].keywords}
                ts = cond_texts(path_conds(ctx, f, recs[0]))
                pn_vals = reaching_values(ctx, f, recs[0], kw.get("parent_node")) if kw.get("parent_node") is not None else []
                ok = f"{ntv} in relations" in ts and bool(adds) and all(any(v_ is a_ for a_ in adds) for v_ in pn_vals) and len(pn_vals) == len(adds) \
                    and norm(kw.get("parent_type")) == ntv and norm(kw.get("types")) == "types" and norm(kw.get("relations")) == "relations" \
                    and (None if mdv is None or "'hier_idx'" not in md else norm(kw.get("prefix")) == norm(md["'hier_idx'"]))
            T(f, "_make_tree: recursion below the new node with its type and prefix, only for types that have relations", ok, "")
        else:
            T(f, "_make_tree: exactly `count` children per relation; count defaults to 1 and randomized counts are resolved (None -> 0)", None, "count loop not recognised")
    f = m.func("build_random_tree")
    ctor = [c for c in ctx.env.calls_in[f] if norm(c.func) == "tree_class"]
    mt = [c for c in ctx.env.calls_in[f] if norm(c.func) == "_make_tree"]
    ok = None
    if not ctor:
        ok = False  # the requested class is never instantiated
    if len(ctor) == 1 and len(mt) == 1:
        kw = {k.arg: norm(resolve_expr(ctx, f, ctor[0], k.value)) for k in ctor[0].keywords}
        ok = kw.get("forward_attrs") == "True" and (kw.get("name") or "").endswith(".pop('name', None)")
        name_unread = kw.get("forward_attrs") == "True" and "name" in kw and not (kw.get("name") or "").endswith(".pop('name', None)") and (
            "'" not in (kw.get("name") or "") or ".pop('name', None)" in (kw.get("name") or ""))
        if name_unread:
            ok = True  # the name travels through a structure this clause does not read; decided below as undecided
        mk_ = {k.arg: k.value for k in mt[0].keywords}
        pn = mk_.get("parent_node")
        ok = ok and pn is not None and isinstance(pn, ast.Attribute) and pn.attr in ("system_root", "_root") and any(v_ is ctor[0] for v_ in reaching_values(ctx, f, mt[0], pn.value)) \
            and norm(mk_.get("parent_type")) == "'__root__'" and norm(mk_.get("prefix")) == "''"
        rets = [c for c in exit_cases(ctx, f, ("return",)) if c.value is not None]
        ok = ok and len(rets) == 1 and any(v_ is ctor[0] for v_ in reaching_values(ctx, f, rets[0].stmt, rets[0].value))
        # the caller's definition is not consumed: every pop works on a copy
        for c in ctx.env.calls_in[f]:
            if isinstance(c.func, ast.Attribute) and c.func.attr == "pop":
                recv = c.func.value
                if isinstance(recv, ast.Name) and recv.id in f.param_names():
                    cps = [n_ for n_, _e in find(f"{recv.id} = {recv.id}.copy()", f.node) + find(f"{recv.id} = dict({recv.id})", f.node)]
                    if not (len(cps) == 1 and always_before(ctx, f, cps[0], c)):
                        ok = False
                else:
                    vals = [norm(v_) for v_ in reaching_values(ctx, f, c, recv)]
                    if not all(v_ in ("structure_def.copy()", "dict(structure_def)") for v_ in vals):
                        ok = False
    if ok and len(ctor) == 1 and len(mt) == 1 and name_unread:
        ok = None
    T(f, "build_random_tree instantiates the requested class and starts at '__root__' (on a copy of the definition)", ok, "")
    f = m.func("Tree.build_random_tree")
    ok = has("build_random_tree(tree_class=cls, structure_def=structure_def)", f.node)
    obs.append(ctx.ob("GEN", ["C20"], f, "Tree.build_random_tree passes its own class", None, ok, ""))
    return obs


# -------------------------------------------------------------------- SEARCH
@rule("SEARCH", ["C09", "C02"], floor=5, section="4/C09")
def search(ctx: Ctx) -> List[Ob]:
    """_search walks the default (pre-order) iterator with the caller's add_self and yields exactly the nodes for which the matcher is true, in walk order"""
    obs: List[Ob] = []
    m = ctx.model
    f = m.func("Node._search")
    lps = [n for n in iter_own(f.node) if isinstance(n, ast.For)]

    def _walk_of(lp: ast.For) -> bool:
        if match("self.iterator(add_self=add_self)", lp.iter) is not None:
            return True
        if isinstance(lp.iter, ast.Name):
            vals = reaching_values(ctx, f, lp, lp.iter)
            return len(vals) == 1 and match("self.iterator(add_self=add_self)", vals[0]) is not None
        return False

    # (one loop, or one loop per mode - limited / unlimited - over the same walk)
    ok = len(lps) >= 1 and all(_walk_of(lp) for lp in lps)
    obs.append(ctx.ob("SEARCH", ["C09"], f, "_search iterates self.iterator(add_self=add_self) (pre-order), the only loop", None, ok,
                      "" if ok else "matches must come in pre-order over the searched branch, and the start node is counted against the limit like any other"))
    ys = [x for x in iter_own(f.node, into_lambda=False) if isinstance(x, (ast.Yield, ast.YieldFrom))]
    cbv = None
    n_inside = 0
    for lp in lps:
        v = norm(lp.target)
        inside_ids = {id(x) for x in ast.walk(lp)}
        inside = [x for st in lp.body for x in ast.walk(st) if isinstance(x, ast.Yield)]
        n_inside += len(inside)
        ok: Optional[bool] = None
        if len(inside) == 1:
            atoms = [(e, pol) for e, pol in path_conds(ctx, f, inside[0]) if id(getattr(e, "_orig", e)) in inside_ids and "max_results" not in norm(e)]
            sel = [(e, pol) for e, pol in atoms if isinstance(e, ast.Call) and isinstance(e.func, ast.Name) and [norm(a_) for a_ in e.args] == [v]]
            if len(sel) == 1 and len(atoms) == 1:
                ok = sel[0][1] is True
                cbv = sel[0][0].func.id if cbv in (None, sel[0][0].func.id) else cbv
            elif atoms:
                ok = None
            else:
                ok = False
        obs.append(ctx.tri("SEARCH", ["C09"], f, "non-matching nodes are skipped, matching ones yielded", lp, ok, "selection inverted or missing"))
        ok = len(inside) == 1 and all(norm(x_) == v for x_ in reaching_values(ctx, f, inside[0], inside[0].value))
        if ok and len(lps) > 1:
            # a loop that does not count its hits is the unlimited mode: it runs only when no limit was given
            counted = any(isinstance(x, (ast.AugAssign, ast.Break, ast.Return)) or (isinstance(x, ast.Call) and norm(x.func) in ("islice", "itertools.islice")) for x in ast.walk(lp))
            if not counted:
                ok = any((not pol) and norm(e) == "max_results" or pol and norm(e) in ("max_results is None", "not max_results") for e, pol in path_conds(ctx, f, lp))
        obs.append(ctx.ob("SEARCH", ["C09"], f, "each match is yielded once, inside the counted loop", lp, ok,
                          "" if ok else "a yield outside the counted loop escapes the result limit"))
    if lps and n_inside != len(ys):
        obs.append(ctx.ob("SEARCH", ["C09"], f, "each match is yielded once, inside the counted loop", None, False, "a yield outside the counted loop escapes the result limit"))
    ok = None
    if cbv is not None:
        table: Dict[str, str] = {}
        for n, e in find(f"{cbv} = $$v", f.node):
            pcs = path_conds(ctx, f, n)
            pos = [norm(a_) for a_, pol in pcs if pol and "match" in norm(a_)]
            key = pos[0] if len(pos) == 1 else ("else" if not pos else " and ".join(sorted(pos)))
            val = e["$$v"]
            if isinstance(val, ast.Lambda):
                body = val.body
                arg = val.args.args[0].arg if val.args.args else "?"
                if isinstance(body, ast.Call) and isinstance(body.func, ast.Attribute) and isinstance(body.func.value, ast.Name):
                    src = reaching_values(ctx, f, n, body.func.value)
                    table[key] = f"lambda: {norm(src[0]) if len(src) == 1 else '?'}.{body.func.attr}({', '.join(norm(a_).replace(arg, 'N') for a_ in body.args)})"
                elif isinstance(body, ast.Call) and isinstance(body.func, ast.Name) and body.func.id != arg:
                    # a bound method kept in a local (`fullmatch = re.compile(...).fullmatch`)
                    src = reaching_values(ctx, f, n, body.func)
                    table[key] = f"lambda: {norm(src[0]) if len(src) == 1 else '?'}({', '.join(norm(a_).replace(arg, 'N') for a_ in body.args)})"
                else:
                    table[key] = "lambda: " + norm(body).replace(arg, "N")
            else:
                table[key] = norm(val)
        want = {
            "callable(match)": "match",
            "isinstance(match, str)": "lambda: re.compile(pattern=match).fullmatch(N.name)",
            "isinstance(match, (list, tuple))": "lambda: re.compile(pattern=match[0], flags=match[1]).fullmatch(N.name)",
            "else": "lambda: N._data is match",
        }
        alt = {"isinstance(match, str)": {"lambda: re.compile(match).fullmatch(N.name)"},
               "isinstance(match, (list, tuple))": {"lambda: re.compile(match[0], match[1]).fullmatch(N.name)", "lambda: re.compile(match[0], flags=match[1]).fullmatch(N.name)"},
               "else": {"lambda: N.data is match"}}
        if set(table) == set(want):
            ok = all(table[k] == want[k] or table[k] in alt.get(k, ()) for k in want)
            why = "; ".join(f"{k}: {table[k]}" for k in want if not (table[k] == want[k] or table[k] in alt.get(k, ())))
            if not ok and all(table[k] == want[k] or table[k] in alt.get(k, ()) or not table[k].startswith("lambda:") for k in want) and table.get("callable(match)") == "match":
                ok = None  # a matcher is built by something else than a lambda here (a callable class, a partial): not read
        else:
            why = f"cases {sorted(table)}"
    obs.append(ctx.tri("SEARCH", ["C09"], f, "matcher: callable as is, str -> regex, (pattern, flags) -> regex with flags, else data identity", None, ok, why if ok is False else "matcher dispatch not recognised"))
    g = m.func("Node.find_all")
    ok = has("self._search(match, add_self=add_self, max_results=max_results)", g.node)
    obs.append(ctx.ob("SEARCH", ["C09"], g, "find_all collects _search(match, add_self, max_results) in order", None, ok, ""))
    # Tree.find_all / find_first with match=: a scan of the whole tree in pre-order, never an index lookup
    for q in ("Tree.find_all", "Tree.find_first"):
        h = m.func(q)
        ok = None
        dele = [c for c in ctx.env.calls_in[h] if norm(c.func) in ("self._root.find_all", "self._root.find_first", "self.system_root.find_all", "self.system_root.find_first")
                and any(k.arg == "match" and norm(k.value) == "match" for k in c.keywords)]
        if dele:
            ok = True
        for x in ast.walk(h.node):
            if isinstance(x, ast.Attribute) and x.attr in ("_nodes_by_data_id", "_node_by_id") and isinstance(x.ctx, ast.Load):
                pcs = path_conds(ctx, h, x)
                if any((not pol) and norm(e) == "match is None" for e, pol in pcs) or any(pol and norm(e) in ("isinstance(match, str)", "match") for e, pol in pcs):
                    ok = False
        obs.append(ctx.tri("SEARCH", ["C09"], h, f"{q}(match=) scans the tree from the root in pre-order", None, ok,
                           "a match pattern / callback is answered from an index: the index is keyed by data_id and kept in registration order, so nodes whose "
                           "name matches but whose data is of another type are missed and the result is not in pre-order"))
    lc = find("[$n for $n in self.iterator(add_self=add_self) if $n._data_id == data_id]", g.node)
    obs.append(ctx.ob("SEARCH", ["C09", "C02"], g, "find_all(data/data_id) selects the nodes of the branch whose _data_id equals the id", None, len(lc) == 1, ""))
    return obs
