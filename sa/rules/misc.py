"""Remaining repository-specific rules: index access (C09), data_id definition
(C02), kind-aware queries (C15), parent walks (C10), frames and metadata (C04),
file-system loader (C19), random tree generator (C20).

Shapes are matched with structural patterns (sa.pat): local variable names are
metavariables ($x), API names (attributes, parameters, called functions) are
literal."""
from __future__ import annotations

import ast
from typing import Dict, List, Optional, Set, Tuple

from ..core import Ctx, Ob, rule
from ..infer import NODE, SLOT
from ..model import AnalysisError, Func, iter_own, norm
from ..pat import find, has, match, one
from .trav import _if_chain
from .util import raised_class, stmt_index


def _returns(f: Func) -> List[ast.Return]:
    return [n for n in iter_own(f.node, into_lambda=False) if isinstance(n, ast.Return) and n.value is not None]


def _first_param(f: Func) -> str:
    ps = [x for x in f.positional_params() if x != f.self_name]
    return ps[0] if ps else "?"


# ------------------------------------------------------------------- EXH-5
@rule("EXH-5", ["C09", "C02"], floor=8, section="3.8")
def exh5(ctx: Ctx) -> List[Ob]:
    """Tree.__getitem__ refuses node keys, resolves node_id, then data_id, then data, and raises KeyError for none / AmbiguousMatchError for several; __contains__ and find_first read the same index"""
    obs: List[Ob] = []
    m = ctx.model
    f = m.func("Tree.__getitem__")
    cfg = ctx.cfg(f)
    p = _first_param(f)
    raises = {raised_class(n): n for n in iter_own(f.node) if isinstance(n, ast.Raise)}
    for cls, pats, why in (
        ("ValueError", [f"isinstance({p}, Node)"], "a node is not a key"),
        ("KeyError", ["not $r", "len($r) == 0", "$r is None"], "no match"),
        ("AmbiguousMatchError", ["len($r) > 1", "len($r) >= 2"], "several matches"),
    ):
        r = raises.get(cls)
        ok = r is not None
        if ok:
            par = m.parent_of(r)
            ok = isinstance(par, ast.If) and any(match(x, par.test) is not None for x in pats)
        obs.append(ctx.ob("EXH-5", ["C09"], f, f"raises {cls} for: {why}", r, ok, "" if ok else f"index access must raise {cls} for: {why}"))
    # order: node_id lookup (int) -> data_id membership -> data
    nid = [n for n in cfg.stmt_nodes() if n.kind == "test" and match(f"isinstance({p}, int)", n.ast) is not None]
    did = [n for n in cfg.stmt_nodes() if n.kind == "test" and has(f"{p} in self._nodes_by_data_id", n.ast)]
    ok = len(nid) == 1 and len(did) == 1 and cfg.dominated_by(did[0], lambda n: n is nid[0])
    obs.append(ctx.ob("EXH-5", ["C09", "C02"], f, "node_id is consulted before data_id", None, ok, "" if ok else "resolution order: node_id, then data_id, then data"))
    if nid:
        par = m.parent_of(nid[0].ast)
        ok = isinstance(par, ast.If)
        if ok:
            a = one(f"$r = self._node_by_id.get({p})", par.body)
            ok = a is not None and has("if $r is not None:\n    return $r", par.body, {"$r": a[1]["$r"]})
        obs.append(ctx.ob("EXH-5", ["C09", "C02"], f, "an int key that is a registered node_id returns that node", None, ok, "" if ok else "node_id lookup broken"))
    if did:
        par = m.parent_of(did[0].ast)
        ok = isinstance(par, ast.If) and len(par.body) == 1 and len(par.orelse) == 1
        if ok:
            a = match(f"$r = self.find_all(data_id={p})", par.body[0])
            ok = a is not None and match(f"$r = self.find_all({p})", par.orelse[0], a) is not None
            ok = ok and match(f"isinstance({p}, (int, str)) and {p} in self._nodes_by_data_id", par.test) is not None
        obs.append(ctx.ob("EXH-5", ["C09", "C02"], f, "a key present in the data_id index is looked up as data_id, anything else as data", None, ok, "" if ok else "data_id before data"))
    ret = [n for n in _returns(f) if match("$r[0]", n.value) is not None]
    obs.append(ctx.ob("EXH-5", ["C09"], f, "the single match is returned", None, len(ret) == 1, ""))
    g = m.func("Tree.__contains__")
    q = _first_param(g)
    ok = any(match(f"bool(self.find_first({q}))", n.value) is not None or match(f"self.find_first({q}) is not None", n.value) is not None for n in _returns(g))
    obs.append(ctx.ob("EXH-5", ["C09", "C02"], g, "`data in tree` is find_first(data) found", None, ok, "" if ok else "containment must agree with lookup"))
    for q in ("Tree.find_all", "Tree.find_first"):
        h = m.func(q)
        ok = has("if data is not None:\n    ...", h.node) and has("data_id = self.calc_data_id(data)", h.node)
        obs.append(ctx.ob("EXH-5", ["C02", "C09"], h, f"{q}: data is converted with calc_data_id before the index is read", None, ok, "" if ok else "lookup by data must use the tree's id function"))
        gets = find("self._nodes_by_data_id.get(data_id)", h.node)
        obs.append(ctx.ob("EXH-5", ["C02", "C09"], h, f"{q}: reads the clone list of data_id", None, len(gets) == 1, "" if gets else "index not consulted"))
    h = m.func("Tree.find_first")
    ok = any(match("self._node_by_id.get(node_id)", n.value) is not None for n in _returns(h))
    obs.append(ctx.ob("EXH-5", ["C02", "C09"], h, "find_first(node_id=) reads the id map", None, ok, ""))
    ok = any(match("$r[0] if $r else None", n.value) is not None for n in _returns(h))
    obs.append(ctx.ob("EXH-5", ["C02", "C09"], h, "find_first(data/data_id) returns the first clone or None", None, ok, ""))
    return obs


# ------------------------------------------------------------- DATAID-DEF
@rule("DATAID-DEF", ["C02", "C07"], floor=6, section="4/C02")
def dataid_def(ctx: Ctx) -> List[Ob]:
    """a node's data_id is the explicit id if given, else the tree's id callback applied to the data, else hash(data); calc_data_id is called only where an id has to be derived"""
    obs: List[Ob] = []
    m = ctx.model
    f = m.func("Node.__init__")
    ifs = [n for n in f.body if isinstance(n, ast.If) and (match("data_id is None", n.test) is not None or match("data_id is not None", n.test) is not None)]
    ok = len(ifs) == 1 and len(ifs[0].body) == 1 and len(ifs[0].orelse) == 1
    if ok:
        derive_branch, given_branch = (ifs[0].body[0], ifs[0].orelse[0]) if match("data_id is None", ifs[0].test) is not None else (ifs[0].orelse[0], ifs[0].body[0])

        def rhs(st):
            if isinstance(st, ast.AnnAssign) and norm(st.target) == "self._data_id":
                return st.value
            if isinstance(st, ast.Assign) and norm(st.targets[0]) == "self._data_id":
                return st.value
            return None
        a, b = rhs(derive_branch), rhs(given_branch)
        ok = a is not None and b is not None and match("$t.calc_data_id(data)", a) is not None and match("data_id", b) is not None
    obs.append(ctx.ob("DATAID-DEF", ["C02", "C07"], f, "Node.__init__: explicit data_id wins, else tree.calc_data_id(data)", None, ok,
                      "" if ok else "the explicit id must be used as given (also 0 / ''), the derived one only when none was passed"))
    g = m.func("Tree.calc_data_id")
    stm = [s for s in g.body if not (isinstance(s, ast.Expr) and isinstance(s.value, ast.Constant))]
    ok = len(stm) == 2 and (match("if self._calc_data_id_hook:\n    return self._calc_data_id_hook(self, data)", stm[0]) is not None
                            or match("if self._calc_data_id_hook is not None:\n    return self._calc_data_id_hook(self, data)", stm[0]) is not None) \
        and match("return hash(data)", stm[1]) is not None
    obs.append(ctx.ob("DATAID-DEF", ["C02"], g, "Tree.calc_data_id: the callback if one was given, else hash(data)", None, ok, "" if ok else "id derivation order changed"))
    ti = m.func("Tree.__init__")
    ok = any(isinstance(n, (ast.Assign, ast.AnnAssign)) and norm(n.target if isinstance(n, ast.AnnAssign) else n.targets[0]) == "self._calc_data_id_hook"
             and norm(n.value) == "calc_data_id" for n in ti.body)
    obs.append(ctx.ob("DATAID-DEF", ["C02"], ti, "Tree.__init__ stores the calc_data_id callback", None, ok, ""))
    # who may call calc_data_id
    allowed = {"Node.__init__", "Node.set_data", "Node.find_all", "Tree.find_all", "Tree.find_first"}
    for h in m.all_funcs():
        for c in ctx.env.calls_in[h]:
            if any(x.qualname == "Tree.calc_data_id" for x, _ in ctx.env.callees(h, c)) or (
                    isinstance(c.func, ast.Name) and any(b.kind == "val" and isinstance(b.expr, ast.Attribute) and b.expr.attr == "calc_data_id"
                                                          for b in ctx.env.scope(h).resolve(c.func.id)[1])):
                ok = h.top.qualname in allowed
                obs.append(ctx.ob("DATAID-DEF", ["C02"], h, f"calc_data_id is called in {h.top.qualname}", c, ok,
                                  "" if ok else "an id is re-derived from the data where the node's stored data_id must be used (explicit ids would be lost)"))
    # is_clone / get_clones read the slot of the node's own _data_id
    for q in ("Node.is_clone", "Node.get_clones"):
        h = m.func(q)
        subs = find("self._tree._nodes_by_data_id[self._data_id]", h.node) + find("self._tree._nodes_by_data_id.get(self._data_id)", h.node)
        obs.append(ctx.ob("DATAID-DEF", ["C02"], h, f"{q} reads the clone list of the node's own data_id", None, len(subs) == 1, "" if subs else "clone queries must use the node's data_id"))
    h = m.func("Node.is_clone")
    ok = has("len($$x) > 1", h.node) or has("len($$x) >= 2", h.node)
    obs.append(ctx.ob("DATAID-DEF", ["C02"], h, "is_clone: more than one node under the id", None, ok, "" if ok else "a clone is a node whose data is referenced at least twice"))
    h = m.func("Node.get_clones")
    a = one("$c = self._tree._nodes_by_data_id[self._data_id]", h.node)
    ok = a is not None
    if ok:
        env = {"$c": a[1]["$c"]}
        ok = has("if add_self:\n    return $c.copy()", h.node, env) or has("if add_self:\n    return list($c)", h.node, env)
        ok = ok and any(match("[$n for $n in $c if $n is not self]", r.value, env) is not None for r in _returns(h))
    obs.append(ctx.ob("DATAID-DEF", ["C02"], h, "get_clones: a copy of the clone list, without self (by identity) unless add_self", None, ok,
                      "" if ok else "the result must be a new list; self is excluded by identity"))
    return obs


# -------------------------------------------------------------- KIND-BRANCH
@rule("KIND-BRANCH", ["C15"], floor=12, section="4/C15")
def kind_branch(ctx: Ctx) -> List[Ob]:
    """kind-aware queries: the any-kind branch reads the unfiltered child/sibling list, the kind branch compares _kind with the requested (or own) kind, and nothing else is filtered"""
    obs: List[Ob] = []
    m = ctx.model
    for name in ("get_children", "first_child", "last_child", "has_children"):
        f = m.func(f"TypedNode.{name}")
        anyk = [n for n in iter_own(f.node) if isinstance(n, ast.If) and match("kind is ANY_KIND", n.test) is not None]
        ok = len(anyk) == 1 and isinstance(anyk[0].body[0], ast.Return)
        if ok:
            r = anyk[0].body[0].value
            # the local holding the full child list
            al = one("$a = self._children", f.node)
            a = al[1]["$a"] if al else "self._children"
            want = {"get_children": [a], "first_child": [f"{a}[0]"], "last_child": [f"{a}[-1]"],
                    "has_children": ["bool(self._children)", f"bool({a})"]}[name]
            ok = any(match(w, r) is not None for w in want)
        obs.append(ctx.ob("KIND-BRANCH", ["C15"], f, f"{name}(ANY_KIND) equals the untyped query", None, ok, "" if ok else "with the any-kind option the result is the untyped one"))
        if name == "has_children":
            ok = has("self.get_children(kind)", f.node)
        else:
            cmps = find("$n._kind == kind", f.node) + find("$n.kind == kind", f.node)
            ok = len(cmps) == 1
        obs.append(ctx.ob("KIND-BRANCH", ["C15"], f, f"{name}(kind) selects children whose _kind == kind", None, ok, "" if ok else "the kind filter must be equality on the node's kind"))
    f = m.func("TypedNode.first_child")
    al = one("$a = self._children", f.node)
    lps = [n for n in iter_own(f.node) if isinstance(n, ast.For)]
    ok = al is not None and len(lps) == 1 and match("$a", lps[0].iter, {"$a": al[1]["$a"]}) is not None
    obs.append(ctx.ob("KIND-BRANCH", ["C15"], f, "first_child scans the full child list front to back", None, ok, ""))
    f = m.func("TypedNode.last_child")
    al = one("$a = self._children", f.node)
    lps = [n for n in iter_own(f.node) if isinstance(n, ast.For)]
    ok = al is not None and len(lps) == 1 and (match("range(len($a) - 1, -1, -1)", lps[0].iter, {"$a": al[1]["$a"]}) is not None
                                               or match("reversed($a)", lps[0].iter, {"$a": al[1]["$a"]}) is not None)
    obs.append(ctx.ob("KIND-BRANCH", ["C15"], f, "last_child scans the full child list back to front", None, ok, "" if ok else "the last child of a kind is found from the end, including index 0"))
    for name in ("get_siblings", "first_sibling", "last_sibling", "prev_sibling", "next_sibling", "get_index", "is_first_sibling", "is_last_sibling"):
        f = m.func(f"TypedNode.{name}")
        d = f.param_default("any_kind")
        ok = d is not None and norm(d) == "False"
        obs.append(ctx.ob("KIND-BRANCH", ["C15"], f, f"{name}: any_kind defaults to False", None, ok, "" if ok else "kind-aware by default"))
        own = {"self._kind", "self.kind"}
        for b in ctx.env.scope(f).bindings.items():
            if any(x.kind == "val" and x.expr is not None and norm(x.expr) in ("self.kind", "self._kind") for x in b[1]):
                own.add(b[0])
        cmps = [n for n in ast.walk(f.node) if isinstance(n, ast.Compare) and len(n.ops) == 1 and isinstance(n.ops[0], ast.Eq)
                and ((norm(n.comparators[0]) in own and norm(n.left).split(".")[-1] in ("_kind", "kind"))
                     or (norm(n.left) in own and norm(n.comparators[0]).split(".")[-1] in ("_kind", "kind")))]
        deleg = [c for c in ast.walk(f.node) if isinstance(c, ast.Call) and isinstance(c.func, ast.Attribute)
                 and c.func.attr in ("first_sibling", "last_sibling", "get_children") and norm(c.func.value) in ("self", "self.parent", "self._parent")]
        ok = bool(cmps) or bool(deleg)
        obs.append(ctx.ob("KIND-BRANCH", ["C15"], f, f"{name}: the kind branch compares with the node's own kind (or delegates to a kind-aware query)", None, ok,
                          "" if ok else "siblings of the same kind only"))
    for name in ("prev_sibling", "next_sibling", "first_child", "last_child", "first_sibling", "last_sibling"):
        f = m.func(f"TypedNode.{name}")
        bad = []
        for lp in [n for n in iter_own(f.node) if isinstance(n, ast.For)]:
            for st in lp.body:
                if isinstance(st, (ast.Return, ast.Break)):
                    bad.append(st)
        obs.append(ctx.ob("KIND-BRANCH", ["C15"], f, f"{name}: the scan only stops at a node of the wanted kind (no unconditional exit in the loop)", None, not bad,
                          "" if not bad else f"`{norm(bad[0])}` ends the scan after the first candidate: with interleaved kinds the match further away is missed"))
    f = m.func("TypedNode.get_siblings")
    lc = [n for n in iter_own(f.node) if isinstance(n, ast.ListComp)]
    ok = False
    if len(lc) == 1 and lc[0].generators and lc[0].generators[0].ifs:
        c = lc[0].generators[0].ifs[0]
        ok = match("(add_self or $n is not self) and $n.kind == $k", c) is not None or match("(add_self or $n is not self) and $n._kind == self._kind", c) is not None \
            or match("(add_self or $n is not self) and $n._kind == $k", c) is not None
    obs.append(ctx.ob("KIND-BRANCH", ["C15"], f, "get_siblings: same kind, self excluded by identity unless add_self", None, ok, ""))
    for name, idx in (("is_first_sibling", "0"), ("is_last_sibling", "-1")):
        f = m.func(f"TypedNode.{name}")
        ok = has(f"if any_kind:\n    return self is self._parent._children[{idx}]", f.node)
        obs.append(ctx.ob("KIND-BRANCH", ["C15"], f, f"{name}(any_kind=True) is the untyped identity test", None, ok, ""))
    for name, idx in (("first_sibling", "0"), ("last_sibling", "-1")):
        f = m.func(f"TypedNode.{name}")
        al = one("$pc = self._parent._children", f.node)
        ok = al is not None and has(f"if any_kind:\n    return $pc[{idx}]", f.node, {"$pc": al[1]["$pc"]})
        ok = ok or has(f"if any_kind:\n    return self._parent._children[{idx}]", f.node)
        obs.append(ctx.ob("KIND-BRANCH", ["C15"], f, f"{name}(any_kind=True) is the untyped end of the list", None, ok, ""))
    f = m.func("TypedTree.iter_by_type")
    ok = has("$n._kind == kind", f.node) or has("$n.kind == kind", f.node)
    obs.append(ctx.ob("KIND-BRANCH", ["C15"], f, "iter_by_type yields the nodes whose _kind == kind", None, ok, ""))
    tests = [n.test for n in iter_own(f.node) if isinstance(n, ast.If) and "ANY_KIND" in norm(n.test)]
    ok = len(tests) == 1 and (match("kind is ANY_KIND", tests[0]) is not None or match("kind == ANY_KIND", tests[0]) is not None)
    obs.append(ctx.ob("KIND-BRANCH", ["C15"], f, "iter_by_type: only ANY_KIND selects all nodes (no truthiness test on kind: '' is a kind)", None, ok,
                      "" if ok else f"`{norm(tests[0]) if tests else '?'}`: an empty-string kind would iterate everything"))
    # a generator that `return <value>`s loses the value: the ANY_KIND branch must yield
    gen = any(isinstance(x, (ast.Yield, ast.YieldFrom)) for x in iter_own(f.node))
    bad = [r for r in _returns(f)] if gen else []
    obs.append(ctx.ob("KIND-BRANCH", ["C15"], f, "iter_by_type(ANY_KIND) yields every node", None, not bad,
                      "" if not bad else f"`{norm(bad[0])}` inside a generator function: the returned iterator is discarded and nothing is yielded"))
    for q in ("TypedTree.first_child", "TypedTree.last_child"):
        f = m.func(q)
        ok = any(match(f"self._root.{f.name}(kind=kind)", n.value) is not None or match(f"self._root.{f.name}(kind)", n.value) is not None for n in _returns(f))
        obs.append(ctx.ob("KIND-BRANCH", ["C15"], f, f"{q} delegates to the root with the caller's kind", None, ok, ""))
    return obs


# -------------------------------------------------------------- PARENT-WALK
@rule("PARENT-WALK", ["C10"], floor=8, section="4/C10")
def parent_walk(ctx: Ctx) -> List[Ob]:
    """the parent-walk family stops at the system root by the same test, `parent` maps the root to None, sibling accessors read the parent's list at the right end, counts walk the default iterator"""
    obs: List[Ob] = []
    m = ctx.model

    def wh(f):
        ws = [n for n in iter_own(f.node) if isinstance(n, ast.While)]
        return ws[0] if len(ws) == 1 else None

    f = m.func("Node.calc_depth")
    w = wh(f)
    e = match("while $p is not None:\n    $d += 1\n    $p = $p._parent", w) if w is not None else None
    ok = e is not None and has("$p = self._parent", f.node, e) and has("$d = 0", f.node, e) and any(match("$d", r.value, e) is not None for r in _returns(f))
    obs.append(ctx.ob("PARENT-WALK", ["C10"], f, "calc_depth counts the parents up to and including the system root (1 for top-level)", None, ok, "" if ok else "depth off by one"))
    f = m.func("Node.get_top")
    w = wh(f)
    e = match("while $r._parent._parent:\n    $r = $r._parent", w) if w is not None else None
    ok = e is not None and has("$r = self", f.node, e) and any(match("$r", r.value, e) is not None for r in _returns(f))
    obs.append(ctx.ob("PARENT-WALK", ["C10"], f, "get_top climbs while the parent is not the system root", None, ok, ""))
    for q, start in (("Node.is_descendant_of", "$p = self._parent"), ("Node.get_parent_list", "$p = self if add_self else self._parent")):
        f = m.func(q)
        w = wh(f)
        e = match("$p is not None and $p._parent is not None", w.test) if w is not None else None
        ok = e is not None and match("$p = $p._parent", w.body[-1], e) is not None and has(start, f.node, e)
        if q == "Node.is_descendant_of" and w is None:
            # equivalent form: scan the list of proper ancestors
            ok = any(isinstance(n, ast.For) and match("self.get_parent_list()", n.iter) is not None for n in iter_own(f.node))
        obs.append(ctx.ob("PARENT-WALK", ["C10"], f, f"{q} walks the proper ancestors and stops before the system root", None, ok, "" if ok else "the system root is not an ancestor"))
    f = m.func("Node.is_descendant_of")
    o = _first_param(f)
    ok = has(f"if $p is {o}:\n    return True", f.node) and match("return False", f.body[-1]) is not None
    obs.append(ctx.ob("PARENT-WALK", ["C10"], f, "is_descendant_of compares ancestors by identity", None, ok, ""))
    f = m.func("Node.is_ancestor_of")
    o = _first_param(f)
    ok = any(match(f"{o}.is_descendant_of(self)", n.value) is not None for n in _returns(f))
    obs.append(ctx.ob("PARENT-WALK", ["C10"], f, "is_ancestor_of is the converse of is_descendant_of", None, ok, ""))
    f = m.func("Node.get_parent_list")
    e = one("$res.append($p)", f.node)
    ok = e is not None and has("if not bottom_up:\n    $res.reverse()", f.node, {"$res": e[1]["$res"]}) and any(match("$res", r.value, {"$res": e[1]["$res"]}) is not None for r in _returns(f))
    obs.append(ctx.ob("PARENT-WALK", ["C10"], f, "get_parent_list is top-down unless bottom_up", None, ok, ""))
    for q in ("Node.parent", "TypedNode.parent"):
        f = m.func(q)
        ok = False
        for r in _returns(f):
            e = match("$p if $p._parent else None", r.value) or match("$p if $p._parent is not None else None", r.value)
            if e is not None and has("$p = self._parent", f.node, e):
                ok = True
        obs.append(ctx.ob("PARENT-WALK", ["C10", "C15"] if q.startswith("Typed") else ["C10"], f, f"{q}: None for top-level nodes", None, ok, ""))
    f = m.func("Node.up")
    w = wh(f)
    ok = w is not None and match("level > 0", w.test) is not None and has("$p = $p._parent", w) and has("level -= 1", w)
    obs.append(ctx.ob("PARENT-WALK", ["C10"], f, "up(n) climbs n parents", None, ok, ""))
    # end-of-list accessors: API names only, no locals
    want = {
        "Node.first_child": "self._children[0] if self._children else None",
        "Node.last_child": "self._children[-1] if self._children else None",
        "Node.first_sibling": "self._parent._children[0]",
        "Node.last_sibling": "self._parent._children[-1]",
        "Node.is_first_sibling": "self is self._parent._children[0]",
        "Node.is_last_sibling": "self is self._parent._children[-1]",
        "Node.is_top": "self._parent._parent is None",
        "Node.is_system_root": "self._parent is None",
        "Node.is_leaf": "not self._children",
        "Node.has_children": "bool(self._children)",
        "Node.depth": "self.calc_depth()",
        "Tree.count": "len(self._node_by_id)",
        "Tree.count_unique": "len(self._nodes_by_data_id)",
        "Tree.calc_height": "self._root.calc_height()",
    }
    for q, txt in want.items():
        f = m.func(q)
        rets = _returns(f)
        ok = len(rets) == 1 and match(txt, rets[0].value) is not None
        props = ["C10", "C02"] if q.startswith("Tree.count") else ["C10"]
        obs.append(ctx.ob("PARENT-WALK", props, f, f"{q} returns `{txt}`", None, ok, "" if ok else f"got `{norm(rets[0].value) if rets else '?'}`"))
    f = m.func("Node.prev_sibling")
    ok = has("if self.is_first_sibling():\n    return None", f.node) and any(match("$$l[$i - 1]", r.value) is not None for r in _returns(f))
    obs.append(ctx.ob("PARENT-WALK", ["C10"], f, "prev_sibling: None for the first, else the element before", None, ok, ""))
    f = m.func("Node.next_sibling")
    ok = has("if self.is_last_sibling():\n    return None", f.node) and any(match("$$l[$i + 1]", r.value) is not None for r in _returns(f))
    obs.append(ctx.ob("PARENT-WALK", ["C10"], f, "next_sibling: None for the last, else the element after", None, ok, ""))
    f = m.func("Node.get_siblings")
    ok = has("[$n for $n in self._parent._children if $n is not self]", f.node)
    obs.append(ctx.ob("PARENT-WALK", ["C10"], f, "get_siblings excludes self by identity", None, ok, ""))
    f = m.func("Node.count_descendants")
    lps = [n for n in iter_own(f.node) if isinstance(n, ast.For)]
    ok = len(lps) == 1 and match("self.iterator()", lps[0].iter) is not None and len(lps[0].body) == 1 \
        and match("if $a or not $n._children:\n    $i += 1", lps[0].body[0]) is not None
    obs.append(ctx.ob("PARENT-WALK", ["C10"], f, "count_descendants counts the walk (leaves only: nodes without children)", None, ok, ""))
    f = m.func("Node.calc_height")
    g = [x for x in f.nested]
    ok = len(g) == 1
    if ok:
        gn = g[0].name
        ok = has(f"{gn}($n, $h + 1)", g[0].node) and has("$h > $H", g[0].node) and has(f"{gn}(self, 0)", f.node)
    obs.append(ctx.ob("PARENT-WALK", ["C10"], f, "calc_height: maximal leaf depth below self (0 for leaves)", None, ok, ""))
    f = m.func("Node.get_path")
    ok = any(match("separator + separator.join($r)", r.value) is not None for r in _returns(f)) and has("self.get_parent_list(add_self=add_self)", f.node)
    obs.append(ctx.ob("PARENT-WALK", ["C10"], f, "get_path starts with and joins by the caller's separator over the ancestor list", None, ok,
                      "" if ok else "a hard-coded '/' ignores the separator argument"))
    f = m.func("Node.get_common_ancestor")
    o = _first_param(f)
    ok = has(f"self._tree is {o}._tree", f.node) and has(f"{o}.get_parent_list(add_self=True)", f.node) and has("self.get_parent_list(add_self=True, bottom_up=True)", f.node) \
        and match("return None", f.body[-1]) is not None and has("$p._node_id in $s", f.node)
    obs.append(ctx.ob("PARENT-WALK", ["C10"], f, "get_common_ancestor: nearest (bottom-up) own ancestor-or-self whose node_id is among other's", None, ok, ""))
    return obs


# -------------------------------------------------------------------- FRAME
FRAME = {
    "Node.set_meta": {"_meta"},
    "Node.clear_meta": {"_meta"},
    "Node.update_meta": {"_meta"},
    "Node.sort_children": {"_children"},
    "Tree.sort": {"_children"},
    "Node.set_data": {"_data", "_data_id", "_nodes_by_data_id", SLOT},
    "Node.rename": {"_data", "_data_id", "_nodes_by_data_id", SLOT},
    "Node.move_to": {"_parent", "_children"},
}


@rule("FRAME", ["C04"], floor=8, section="3.4")
def frame(ctx: Ctx) -> List[Ob]:
    """each mutator's structural writes stay inside its documented footprint (metadata edits touch _meta only, sort only reorders child lists, set_data only data/id/index, move_to only parent links); metadata API details"""
    obs: List[Ob] = []
    m = ctx.model
    for q, allowed in FRAME.items():
        f = m.func(q)
        es = [e for e in ctx.fx.of(f) if e.field not in allowed]
        if q in ("Node.sort_children", "Tree.sort"):
            es += [e for e in ctx.fx.of(f) if e.field == "_children" and e.op not in ("sort",)]
        obs.append(ctx.ob("FRAME", ["C04"], f, f"{q} writes only {sorted(allowed)}", None, not es,
                          "" if not es else f"also writes: {es[0].describe()} - every other node must keep its identity, data, id, metadata, parent and order"))
    f = m.func("Node.set_meta")

    def guard_of(node_):
        """tests (positive) and negated tests that hold where node_ executes"""
        pos, neg = [], []
        ch, p_ = node_, m.parent_of(node_)
        while p_ is not None and p_ is not f.node:
            if isinstance(p_, ast.If):
                if any(ch is x for x in p_.body):
                    pos.append(norm(p_.test))
                else:
                    neg.append(norm(p_.test))
            ch, p_ = p_, m.parent_of(p_)
        # early returns before node_: `if T: ...; return` at the same level negate T
        for st in f.body:
            if isinstance(st, ast.If) and st.lineno < getattr(node_, "lineno", 0) and st.body and isinstance(st.body[-1], ast.Return) and not any(node_ is x for x in ast.walk(st)):
                neg.append(norm(st.test))
        return pos, neg

    c1 = find("self.clear_meta(key)", f.node)
    c2 = find("self._meta = {key: value}", f.node)
    c3 = find("self._meta[key] = value", f.node)
    ok = len(c1) == 1 and len(c2) == 1 and len(c3) == 1
    if ok:
        g1, g2, g3 = guard_of(c1[0][0]), guard_of(c2[0][0]), guard_of(c3[0][0])
        ok = g1[0] == ["value is None"] and g2[0] == ["self._meta is None"] and "value is None" in g2[1] \
            and not g3[0] and {"value is None", "self._meta is None"} <= set(g3[1])
    writes = [e for e in ctx.fx.direct[f]]
    ok = ok and len(writes) == 2
    obs.append(ctx.ob("FRAME", ["C04"], f, "set_meta: None removes the key, first value creates the dict, else stores", None, ok, "" if ok else "metadata edit semantics changed"))
    f = m.func("Node.clear_meta")
    e = one("$m = self._meta", f.node)
    ok = has("if key is None:\n    self._meta = None\n    return", f.node) and e is not None \
        and has("$m.pop(key, None)", f.node, {"$m": e[1]["$m"]}) and has("if len($m) == 0:\n    self._meta = None", f.node, {"$m": e[1]["$m"]})
    obs.append(ctx.ob("FRAME", ["C04"], f, "clear_meta: all or one key; an emptied dict becomes None again", None, ok, ""))
    f = m.func("Node.update_meta")
    ok = has("if replace or self._meta is None:\n    self._meta = values.copy()\nelse:\n    self._meta.update(values)", f.node)
    obs.append(ctx.ob("FRAME", ["C04"], f, "update_meta: replace stores a copy of the caller's dict, else merges", None, ok, ""))
    f = m.func("Node.sort_children")
    srt = [c for c in ctx.env.calls_in[f] if isinstance(c.func, ast.Attribute) and c.func.attr == "sort"]
    ok = len(srt) == 1 and {k.arg: norm(k.value) for k in srt[0].keywords} == {"key": "key", "reverse": "reverse"} and not srt[0].args
    obs.append(ctx.ob("FRAME", ["C04"], f, "sort_children sorts the child list in place with the caller's key and direction", None, ok, ""))
    ok = has("if key is None:\n    key = attrgetter('name')", f.node)
    obs.append(ctx.ob("FRAME", ["C04"], f, "default sort key is the node name", None, ok, ""))
    ok = has("if deep:\n    for $c in $$l:\n        $c.sort_children(key=key, reverse=reverse, deep=True)", f.node)
    obs.append(ctx.ob("FRAME", ["C04"], f, "deep sort recurses into every child with the same key and direction", None, ok, ""))
    f = m.func("Node.rename")
    ok = has(f"if isinstance(self._data, str):\n    return self.set_data({_first_param(f)})", f.node)
    obs.append(ctx.ob("FRAME", ["C04"], f, "rename is set_data(new_name) for plain string nodes", None, ok, ""))
    f = m.func("Node.set_data")
    loops = [n for n in ast.walk(f.node) if isinstance(n, ast.For) and any(
        isinstance(x, ast.Assign) and any(isinstance(t, ast.Attribute) and t.attr in ("_data", "_data_id") for t in x.targets)
        for st in n.body for x in ast.walk(st))]
    ok = all(isinstance(m.parent_of(lp), ast.If) and norm(m.parent_of(lp).test) == "with_clones" for lp in loops) and len(loops) == 2
    obs.append(ctx.ob("FRAME", ["C04", "C02"], f, "set_data touches the other clones only under with_clones", None, ok, "" if ok else "without with_clones exactly this node changes"))
    ok = has("if $h and with_clones is None:\n    raise AmbiguousMatchError($_)", f.node)
    obs.append(ctx.ob("FRAME", ["C04", "C13"], f, "set_data on a clone requires a with_clones decision", None, ok, ""))
    return obs


# ----------------------------------------------------------------------- FS
@rule("FS", ["C19"], floor=8, section="3.13")
def fs(ctx: Ctx) -> List[Ob]:
    """load_tree_from_fs: both branches build the same entries (name, is_dir / size<-st_size, mdate<-st_mtime), recurse once per directory with the created node, and the sorted branch lists files first (by name) then directories (by name)"""
    obs: List[Ob] = []
    m = ctx.model
    f = m.func("load_tree_from_fs.visit")
    top = m.func("load_tree_from_fs")
    nparam, pparam = f.positional_params()[:2]
    ifs = [n for n in f.body if isinstance(n, ast.If) and norm(n.test) == "sort"]
    if len(ifs) != 1:
        raise AnalysisError("load_tree_from_fs.visit: `if sort:` branch not found")
    sorted_part = ifs[0].body
    unsorted_part = [s for s in f.body if s is not ifs[0]]
    ok = isinstance(sorted_part[-1], ast.Return)
    obs.append(ctx.ob("FS", ["C19"], f, "the sorted branch returns before the unsorted scan", None, ok, "" if ok else "entries would be added twice"))

    def ctor_shapes(stmts) -> Set[str]:
        out = set()
        for c, e in find("FileSystemEntry($$a, is_dir=True)", stmts):
            out.add("dir")
        for c, e in find("FileSystemEntry($$a, size=$s.st_size, mdate=$s.st_mtime)", stmts):
            out.add("file")
        n_all = len([c for s in stmts for c in ast.walk(s) if isinstance(c, ast.Call) and norm(c.func) == "FileSystemEntry"])
        if n_all != 2:
            out.add(f"{n_all} constructor calls")
        return out

    a, b = ctor_shapes(sorted_part), ctor_shapes(unsorted_part)
    ok = a == b == {"dir", "file"}
    obs.append(ctx.ob("FS", ["C19"], f, "sorted and unsorted branch construct the same two entry shapes (dir flag / size<-st_size, mdate<-st_mtime)", None, ok,
                      "" if ok else f"sorted: {sorted(a)} / unsorted: {sorted(b)}"))
    for part, nm in ((sorted_part, "sorted"), (unsorted_part, "unsorted")):
        recs = [c for s in part for c in ast.walk(s) if isinstance(c, ast.Call) and norm(c.func) == f.name]
        ok = len(recs) == 1 and len(recs[0].args) == 2
        if ok:
            pn = one(f"$pn = {nparam}.add($o)", part) or one(f"$pn = {nparam}.add_child($o)", part)
            ok = pn is not None and match("$pn", recs[0].args[0], {"$pn": pn[1]["$pn"]}) is not None
        obs.append(ctx.ob("FS", ["C19"], f, f"{nm}: each directory is added and scanned once, below its own node", None, ok, "" if ok else "sub-directories must appear at the corresponding depth"))
        tests = [norm(n.test).split(".")[-1] for s in part for n in ast.walk(s) if isinstance(n, ast.If) and "is_" in norm(n.test)]
        ok = tests == ["is_dir()", "is_file()"]
        obs.append(ctx.ob("FS", ["C19"], f, f"{nm}: directories and regular files are classified by is_dir()/is_file()", None, ok, ""))
    loops = [s for s in sorted_part if isinstance(s, ast.For) and isinstance(s.iter, ast.Call) and norm(s.iter.func) == "sorted"]
    ok = len(loops) == 2
    if ok:
        e1 = match("sorted($files, key=attrgetter('name'))", loops[0].iter)
        e2 = match("sorted($dirs, key=itemgetter(0))", loops[1].iter)
        ok = e1 is not None and e2 is not None and len(loops[0].body) == 1 and (match(f"{nparam}.add($o)", loops[0].body[0]) is not None)
        if ok:
            # files are FileSystemEntry objects, dirs are (path, entry) pairs
            ok = has("$files.append($o)", sorted_part, e1) and has("$dirs.append(($c, $o))", sorted_part, e2)
    obs.append(ctx.ob("FS", ["C19"], f, "sorted: files first (by name), then directories (by path name)", None, ok, "" if ok else "files first, name-sorted, then sub-directories, name-sorted"))
    e = one("$t = FileSystemTree(str(path))", top.node)
    ok = e is not None and has(f"{f.name}($t._root, path)", top.node, {"$t": e[1]["$t"]}) and any(match("$t", r.value, {"$t": e[1]["$t"]}) is not None for r in _returns(top))
    obs.append(ctx.ob("FS", ["C19"], top, "the scan starts at the root with the given path and builds a FileSystemTree", None, ok, ""))
    e = m.func("FileSystemEntry.__init__")
    ok = has("self.name = name", e.node) and has("self.is_dir = is_dir", e.node) and has("self.size = int(size)", e.node) \
        and has("self.mdate = float(mdate) if mdate is not None else None", e.node)
    obs.append(ctx.ob("FS", ["C19"], e, "FileSystemEntry stores name, is_dir, size, mdate (mdate 0.0 is a value)", None, ok, ""))
    sm, dm = m.func("FileSystemTree.serialize_mapper"), m.func("FileSystemTree.deserialize_mapper")
    e = one("$i = node.data", sm.node)
    ok = e is not None and has("if $i.is_dir:\n    data.update({'n': $i.name, 'd': True})\nelse:\n    data.update({'n': $i.name, 's': $i.size, 'm': $i.mdate})", sm.node, {"$i": e[1]["$i"]})
    obs.append(ctx.ob("FS", ["C19", "C05"], sm, "serialize: directories {n, d}, files {n, s<-size, m<-mdate}", None, ok, ""))
    ok = has("if 'd' in data:\n    return FileSystemEntry(data['n'], is_dir=True)", dm.node) and has("return FileSystemEntry(data['n'], size=data['s'], mdate=data['m'])", dm.node)
    obs.append(ctx.ob("FS", ["C19", "C05"], dm, "deserialize mirrors serialize (d -> directory; s -> size, m -> mdate)", None, ok, ""))
    # FileSystemEntry must not define data equality: equal entries would become clones
    fe = m.classes.get("FileSystemEntry")
    bad = [n for n in (fe.methods if fe else {}) if n in ("__eq__", "__hash__")]
    obs.append(ctx.ob("FS", ["C19", "C05"], "fs:FileSystemEntry", "entries are compared by identity (no __eq__/__hash__): distinct files never become clones", None, not bad,
                      "" if not bad else f"{bad}: two files with equal attributes would be stored as one clone group and share attributes after save/load"))
    return obs


# ---------------------------------------------------------------------- GEN
@rule("GEN", ["C20"], floor=12, section="3.13")
def gen(ctx: Ctx) -> List[Ob]:
    """build_random_tree: every Randomizer.generate tests the skip probability first, specs are merged `*` -> type -> relation, counts are resolved, indices are 1-based and both macros are supplied, skipped values are removed after the loop, typed parents get kind=node_type, children only for types present in relations, the requested class is instantiated"""
    obs: List[Ob] = []
    m = ctx.model
    gens = [f for f in m.all_funcs() if f.name == "generate" and f.cls and "Randomizer" in m.classes[f.cls].mro and f.cls != "Randomizer"]
    if len(gens) < 5:
        raise AnalysisError("fewer than 5 Randomizer.generate implementations")
    for f in gens:
        stm = [s for s in f.body if not (isinstance(s, ast.Expr) and isinstance(s.value, ast.Constant))]
        first = stm[0]
        ok = isinstance(first, ast.If) and match("self._skip_value()", first.test) is not None and isinstance(first.body[0], ast.Return)
        if ok:
            rv = first.body[0].value
            ok = rv is None or norm(rv) in ("None", "self.none_value")
        obs.append(ctx.ob("GEN", ["C20"], f, f"{f.qualname} tests the skip probability before producing a value", None, ok,
                          "" if ok else "attributes skipped by probability must be absent"))
    # every subclass constructor forwards `probability` to the base class
    for c in m.classes.values():
        if "Randomizer" in c.mro and c.name != "Randomizer" and "__init__" in c.methods:
            f = c.methods["__init__"]
            if "probability" not in f.param_names():
                continue
            sup = [x for x in ctx.env.calls_in[f] if isinstance(x.func, ast.Attribute) and x.func.attr == "__init__"
                   and isinstance(x.func.value, ast.Call) and norm(x.func.value.func) == "super"]
            ok = len(sup) == 1 and any(k.arg == "probability" and norm(k.value) == "probability" for k in sup[0].keywords)
            obs.append(ctx.ob("GEN", ["C20"], f, f"{c.name}.__init__ forwards probability to the base class", None, ok,
                              "" if ok else "a randomizer that drops its probability never skips"))
    f = m.func("Randomizer._skip_value")
    e = one("$u = self.probability == 1.0 or random.random() <= self.probability", f.node)
    ok = (e is not None and any(match("not $u", r.value, {"$u": e[1]["$u"]}) is not None for r in _returns(f))) \
        or any(match("not (self.probability == 1.0 or random.random() <= self.probability)", r.value) is not None for r in _returns(f))
    obs.append(ctx.ob("GEN", ["C20"], f, "_skip_value: skip unless probability is 1 or the draw is within it", None, ok, ""))
    f = m.func("RangeRandomizer.generate")
    ok = has("return random.uniform(self.min, self.max)", f.node) and has("return random.randrange(self.min, self.max)", f.node)
    obs.append(ctx.ob("GEN", ["C20"], f, "RangeRandomizer draws within [min, max)", None, ok, ""))
    f = m.func("_merge_specs")
    nt, sp, ty = f.positional_params()[:3]
    body = [s for s in f.body if not (isinstance(s, ast.Expr) and isinstance(s.value, ast.Constant))]
    ok = len(body) == 4
    if ok:
        e = match(f"$r = {ty}.get('*', {{}}).copy()", body[0])
        ok = e is not None and match(f"$r.update({ty}.get({nt}, {{}}))", body[1], e) is not None and match(f"$r.update({sp})", body[2], e) is not None \
            and match("return $r", body[3], e) is not None
    obs.append(ctx.ob("GEN", ["C20"], f, "_merge_specs: global defaults, then type defaults, then the relation spec (on a copy)", None, ok, "" if ok else "merge order decides which value wins"))
    f = m.func("_resolve_random_dict")
    d = f.positional_params()[0]
    lps = [n for n in f.body if isinstance(n, ast.For)]
    ok = len(lps) == 2
    rm = None
    if ok:
        e = match(f"for $k in $rm:\n    {d}.pop($k)", lps[1])
        ok = e is not None
        rm = e["$rm"] if e else None
    obs.append(ctx.ob("GEN", ["C20"], f, "skipped keys are removed after the scan (deferred)", None, ok, ""))
    if lps and rm:
        lp = lps[0]
        k = norm(lp.target)
        ok = has("$v = $v.generate()", lp) and has(f"if $v is None:\n    {rm}.append({k})\nelse:\n    {d}[{k}] = $v", lp) \
            and any(match(f"if macros and isinstance($v, str):\n    {d}[{k}] = $v.format(**macros)", st) is not None for st in lp.body)
        obs.append(ctx.ob("GEN", ["C20"], f, "randomizers are resolved, only None results are skipped (0/False/'' are values), every string value (literal or generated) is macro-expanded", None, ok,
                          "" if ok else "a legal falsy random value must not be dropped; the macro expansion is a separate step after the randomizer was resolved"))
    f = m.func("_make_tree")
    checks = [
        ("$cs = relations[parent_type]", "children come from the parent type's relation"),
        ("$s = _merge_specs($nt, $s, types)", "attribute merge per child type"),
        ("$c = $s.pop(':count', 1)", "count defaults to 1"),
        ("$c = _resolve_random($c) or 0", "randomized counts are resolved"),
        ("$i += 1", "1-based sibling index"),
        ("$p = f'{prefix}.{$i}' if prefix else f'{$i}'", "dotted index path from the parent's prefix"),
        ("$d = $s.copy()", "each node gets its own attribute dict"),
        ("_resolve_random_dict($d, macros={'idx': $i, 'hier_idx': $p})", "both macros supplied"),
        ("$nd = $f(**$d)", "node data built from the attributes"),
        ("$n = parent_node.add_child($nd, kind=$nt)", "typed trees carry the type name as kind"),
        ("$n = parent_node.add_child($nd)", "plain trees add the data"),
        ("_make_tree(parent_node=$n, parent_type=$nt, types=types, relations=relations, prefix=$p)", "recursion below the new node with its type and prefix"),
    ]
    env: Dict[str, object] = {}
    lp0 = [n for n in ast.walk(f.node) if isinstance(n, ast.For) and isinstance(n.target, ast.Tuple) and len(n.target.elts) == 2]
    if lp0:
        env["$nt"] = norm(lp0[0].target.elts[0])
        env["$s"] = norm(lp0[0].target.elts[1])
    for txt, why in checks:
        hits = find(txt, f.node, env)
        ok = bool(hits)
        if ok:
            for k, v in hits[0][1].items():
                env.setdefault(k, v)
        obs.append(ctx.ob("GEN", ["C20"], f, f"_make_tree: {why}", None, ok, "" if ok else f"expected a statement of the shape `{txt}`"))
    lps = [n for n in ast.walk(f.node) if isinstance(n, ast.For) and match("range($c)", n.iter, {k: v for k, v in env.items() if k == "$c"}) is not None]
    obs.append(ctx.ob("GEN", ["C20"], f, "_make_tree: exactly `count` children per relation", None, len(lps) == 1, ""))
    rec_if = [n for n in ast.walk(f.node) if isinstance(n, ast.If) and match("$nt in relations", n.test, {k: v for k, v in env.items() if k == "$nt"}) is not None]
    obs.append(ctx.ob("GEN", ["C20"], f, "_make_tree: children only for types that have relations", None, len(rec_if) == 1, ""))
    tn = [n for n in ast.walk(f.node) if isinstance(n, ast.If) and norm(n.test) == "isinstance(parent_node, TypedNode)"]
    obs.append(ctx.ob("GEN", ["C20"], f, "_make_tree: kind is passed exactly for typed parents", None, len(tn) == 1, ""))
    f = m.func("build_random_tree")
    e = None
    for n in ast.walk(f.node):
        if isinstance(n, (ast.Assign, ast.AnnAssign)) and n.value is not None and match("tree_class(name=$n, forward_attrs=True)", n.value) is not None:
            e = norm(n.target if isinstance(n, ast.AnnAssign) else n.targets[0])
    ok = e is not None and has(f"_make_tree(parent_node={e}.system_root, parent_type='__root__', types=$t, relations=$r, prefix='')", f.node) \
        and any(norm(r.value) == e for r in _returns(f)) and has("structure_def = structure_def.copy()", f.node)
    obs.append(ctx.ob("GEN", ["C20"], f, "build_random_tree instantiates the requested class and starts at '__root__' (on a copy of the definition)", None, ok, ""))
    f = m.func("Tree.build_random_tree")
    ok = has("build_random_tree(tree_class=cls, structure_def=structure_def)", f.node)
    obs.append(ctx.ob("GEN", ["C20"], f, "Tree.build_random_tree passes its own class", None, ok, ""))
    return obs


# -------------------------------------------------------------------- SEARCH
@rule("SEARCH", ["C09"], floor=5, section="4/C09")
def search(ctx: Ctx) -> List[Ob]:
    """_search walks the default (pre-order) iterator with the caller's add_self and yields exactly the nodes for which the matcher is true, in walk order"""
    obs: List[Ob] = []
    m = ctx.model
    f = m.func("Node._search")
    lps = [n for n in iter_own(f.node) if isinstance(n, ast.For)]
    ok = len(lps) == 1 and match("self.iterator(add_self=add_self)", lps[0].iter) is not None
    obs.append(ctx.ob("SEARCH", ["C09"], f, "_search iterates self.iterator(add_self=add_self) (pre-order), the only loop", None, ok,
                      "" if ok else "matches must come in pre-order over the searched branch, and the start node is counted against the limit like any other"))
    ys = [x for x in iter_own(f.node, into_lambda=False) if isinstance(x, (ast.Yield, ast.YieldFrom))]
    if lps:
        lp = lps[0]
        v = norm(lp.target)
        first = lp.body[0]
        ok = match(f"if not $cb({v}):\n    continue", first) is not None
        obs.append(ctx.ob("SEARCH", ["C09"], f, "non-matching nodes are skipped, matching ones yielded", lp, ok, "" if ok else "selection inverted or missing"))
        inside = [x for st in lp.body for x in ast.walk(st) if isinstance(x, ast.Yield)]
        ok = len(inside) == 1 and norm(inside[0].value) == v and len(ys) == 1
        obs.append(ctx.ob("SEARCH", ["C09"], f, "each match is yielded once, inside the counted loop", lp, ok,
                          "" if ok else "a yield outside the counted loop escapes the result limit"))
    ch = [n for n in f.body if isinstance(n, ast.If) and match("callable(match)", n.test) is not None]
    ok = len(ch) == 1
    if ok:
        tb = {(norm(t) if t is not None else "else"): b for t, b in _if_chain(ch[0])}
        ok = set(tb) == {"callable(match)", "isinstance(match, str)", "isinstance(match, (list, tuple))", "else"}
        if ok:
            ok = has("$cb = match", tb["callable(match)"]) and has("re.compile(pattern=match)", tb["isinstance(match, str)"]) \
                and has("re.compile(pattern=match[0], flags=match[1])", tb["isinstance(match, (list, tuple))"]) and has("$n._data is match", tb["else"])
    obs.append(ctx.ob("SEARCH", ["C09"], f, "matcher: callable as is, str -> regex, (pattern, flags) -> regex with flags, else data identity", None, ok, ""))
    g = m.func("Node.find_all")
    ok = has("self._search(match, add_self=add_self, max_results=max_results)", g.node)
    obs.append(ctx.ob("SEARCH", ["C09"], g, "find_all collects _search(match, add_self, max_results) in order", None, ok, ""))
    lc = find("[$n for $n in self.iterator(add_self=add_self) if $n._data_id == data_id]", g.node)
    obs.append(ctx.ob("SEARCH", ["C09", "C02"], g, "find_all(data/data_id) selects the nodes of the branch whose _data_id equals the id", None, len(lc) == 1, ""))
    return obs
