"""Remaining repository-specific rules: index access (C09), data_id definition
(C02), kind-aware queries (C15), parent walks (C10), frames and metadata (C04),
file-system loader (C19), random tree generator (C20)."""
from __future__ import annotations

import ast
from typing import Dict, List, Optional, Set, Tuple

from ..cfg import describe_path
from ..core import Ctx, Ob, rule
from ..infer import NODE, SLOT
from ..model import AnalysisError, Func, iter_own, norm
from .trav import _if_chain
from .util import raised_class, stmt_index


# ------------------------------------------------------------------- EXH-5
@rule("EXH-5", ["C09", "C02"], floor=8, section="3.8")
def exh5(ctx: Ctx) -> List[Ob]:
    """Tree.__getitem__ refuses node keys, resolves node_id, then data_id, then data, and raises KeyError for none / AmbiguousMatchError for several; __contains__ and find_first read the same index"""
    obs: List[Ob] = []
    m = ctx.model
    f = m.func("Tree.__getitem__")
    cfg = ctx.cfg(f)
    p = [x for x in f.positional_params() if x != f.self_name][0]
    raises = {raised_class(n): n for n in iter_own(f.node) if isinstance(n, ast.Raise)}
    for cls, cond_txts, why in (
        ("ValueError", [f"isinstance({p}, Node)"], "a node is not a key"),
        ("KeyError", ["not res", "len(res) == 0", "res is None"], "no match"),
        ("AmbiguousMatchError", ["len(res) > 1", "len(res) >= 2"], "several matches"),
    ):
        r = raises.get(cls)
        ok = r is not None
        if ok:
            par = m.parent_of(r)
            ok = isinstance(par, ast.If) and norm(par.test) in cond_txts
        obs.append(ctx.ob("EXH-5", ["C09"], f, f"raises {cls} when {cond_txts[0]}", r, ok, "" if ok else f"index access must raise {cls} for: {why}"))
    # order: node_id lookup (int) -> data_id membership -> data
    nid = [n for n in cfg.stmt_nodes() if n.kind == "test" and norm(n.ast) == f"isinstance({p}, int)"]
    did = [n for n in cfg.stmt_nodes() if n.kind == "test" and "in self._nodes_by_data_id" in norm(n.ast)]
    ok = len(nid) == 1 and len(did) == 1 and cfg.dominated_by(did[0], lambda n: n is nid[0])
    obs.append(ctx.ob("EXH-5", ["C09", "C02"], f, "node_id is consulted before data_id", None, ok, "" if ok else "resolution order: node_id, then data_id, then data"))
    if nid:
        par = m.parent_of(nid[0].ast)
        t = " | ".join(norm(s) for s in par.body) if isinstance(par, ast.If) else ""
        ok = f"res = self._node_by_id.get({p})" in t and "if res is not None: return res" in t
        obs.append(ctx.ob("EXH-5", ["C09", "C02"], f, "an int key that is a registered node_id returns that node", None, ok, "" if ok else "node_id lookup broken"))
    if did:
        par = m.parent_of(did[0].ast)
        ok = isinstance(par, ast.If) and norm(par.body[0]) == f"res = self.find_all(data_id={p})" and norm(par.orelse[0]) == f"res = self.find_all({p})"
        ok = ok and norm(par.test).startswith(f"isinstance({p}, (int, str)) and {p} in self._nodes_by_data_id")
        obs.append(ctx.ob("EXH-5", ["C09", "C02"], f, "a key present in the data_id index is looked up as data_id, anything else as data", None, ok, "" if ok else "data_id before data"))
    ret = [n for n in iter_own(f.node) if isinstance(n, ast.Return) and norm(n.value) == "res[0]"]
    obs.append(ctx.ob("EXH-5", ["C09"], f, "the single match is returned", None, len(ret) == 1, ""))
    g = m.func("Tree.__contains__")
    ok = any(isinstance(n, ast.Return) and norm(n.value) in (f"bool(self.find_first({g.positional_params()[1]}))", f"self.find_first({g.positional_params()[1]}) is not None")
             for n in iter_own(g.node))
    obs.append(ctx.ob("EXH-5", ["C09", "C02"], g, "`data in tree` is find_first(data) found", None, ok, "" if ok else "containment must agree with lookup"))
    # Tree.find_first / find_all read the index under the computed id
    for q in ("Tree.find_all", "Tree.find_first"):
        h = m.func(q)
        t = [norm(s) for s in h.body]
        ok = any(s.startswith("if data is not None:") and "data_id = self.calc_data_id(data)" in s for s in t)
        obs.append(ctx.ob("EXH-5", ["C02", "C09"], h, f"{q}: data is converted with calc_data_id before the index is read", None, ok, "" if ok else "lookup by data must use the tree's id function"))
        gets = [c for c in ctx.env.calls_in[h] if norm(c.func) == "self._nodes_by_data_id.get" and norm(c.args[0]) == "data_id"]
        obs.append(ctx.ob("EXH-5", ["C02", "C09"], h, f"{q}: reads the clone list of data_id", None, len(gets) == 1, "" if gets else "index not consulted"))
    h = m.func("Tree.find_first")
    ok = any(isinstance(n, ast.Return) and norm(n.value) == "self._node_by_id.get(node_id)" for n in iter_own(h.node))
    obs.append(ctx.ob("EXH-5", ["C02", "C09"], h, "find_first(node_id=) reads the id map", None, ok, ""))
    return obs


# ------------------------------------------------------------- DATAID-DEF
@rule("DATAID-DEF", ["C02"], floor=6, section="4/C02")
def dataid_def(ctx: Ctx) -> List[Ob]:
    """a node's data_id is the explicit id if given, else the tree's id callback applied to the data, else hash(data); calc_data_id is called only where an id has to be derived"""
    obs: List[Ob] = []
    m = ctx.model
    f = m.func("Node.__init__")
    ifs = [n for n in f.body if isinstance(n, ast.If) and norm(n.test) == "data_id is None"]
    ok = len(ifs) == 1
    if ok:
        a, b = ifs[0].body[0], ifs[0].orelse[0] if ifs[0].orelse else None
        ok = isinstance(a, (ast.Assign, ast.AnnAssign)) and norm(a.value) == "tree.calc_data_id(data)" and norm(a.target if isinstance(a, ast.AnnAssign) else a.targets[0]) == "self._data_id"
        ok = ok and b is not None and norm(b.value) == "data_id" and norm(b.target if isinstance(b, ast.AnnAssign) else b.targets[0]) == "self._data_id"
    obs.append(ctx.ob("DATAID-DEF", ["C02"], f, "Node.__init__: explicit data_id wins, else tree.calc_data_id(data)", None, ok,
                      "" if ok else "the explicit id must be used as given (also 0 / ''), the derived one only when none was passed"))
    g = m.func("Tree.calc_data_id")
    ok = len(g.body) >= 2
    stm = [s for s in g.body if not (isinstance(s, ast.Expr) and isinstance(s.value, ast.Constant))]
    ok = len(stm) == 2 and isinstance(stm[0], ast.If) and norm(stm[0].test) in ("self._calc_data_id_hook", "self._calc_data_id_hook is not None") \
        and norm(stm[0].body[0]) == "return self._calc_data_id_hook(self, data)" and norm(stm[1]) == "return hash(data)"
    obs.append(ctx.ob("DATAID-DEF", ["C02"], g, "Tree.calc_data_id: the callback if one was given, else hash(data)", None, ok, "" if ok else "id derivation order changed"))
    ti = m.func("Tree.__init__")
    ok = any(isinstance(n, (ast.Assign, ast.AnnAssign)) and norm(n.target if isinstance(n, ast.AnnAssign) else n.targets[0]) == "self._calc_data_id_hook"
             and norm(n.value) == "calc_data_id" for n in ti.body)
    obs.append(ctx.ob("DATAID-DEF", ["C02"], ti, "Tree.__init__ stores the calc_data_id callback", None, ok, ""))
    # who may call calc_data_id
    allowed = {"Node.__init__", "Node.set_data", "Node.find_all", "Tree.find_all", "Tree.find_first", "Node.to_list_iter"}
    for h in m.all_funcs():
        for c in ctx.env.calls_in[h]:
            if any(x.qualname == "Tree.calc_data_id" for x, _ in ctx.env.callees(h, c)) or (
                    isinstance(c.func, ast.Name) and any(b.kind == "val" and isinstance(b.expr, ast.Attribute) and b.expr.attr == "calc_data_id"
                                                          for b in ctx.env.scope(h).resolve(c.func.id)[1])):
                ok = h.top.qualname in allowed
                obs.append(ctx.ob("DATAID-DEF", ["C02"], h, f"calc_data_id call: {norm(c)}", c, ok,
                                  "" if ok else "an id is re-derived from the data where the node's stored data_id must be used (explicit ids would be lost)"))
    # is_clone / get_clones read the slot of the node's own _data_id
    for q in ("Node.is_clone", "Node.get_clones"):
        h = m.func(q)
        subs = [n for n in iter_own(h.node) if (isinstance(n, ast.Subscript) and norm(n.value) == "self._tree._nodes_by_data_id" and norm(n.slice) == "self._data_id")
                or (isinstance(n, ast.Call) and norm(n.func) == "self._tree._nodes_by_data_id.get" and norm(n.args[0]) == "self._data_id")]
        obs.append(ctx.ob("DATAID-DEF", ["C02"], h, f"{q} reads the clone list of the node's own data_id", None, len(subs) == 1, "" if subs else "clone queries must use the node's data_id"))
    h = m.func("Node.is_clone")
    ok = any(isinstance(n, ast.Compare) and isinstance(n.ops[0], ast.Gt) and norm(n.comparators[0]) == "1" and norm(n.left).startswith("len(") for n in iter_own(h.node))
    obs.append(ctx.ob("DATAID-DEF", ["C02"], h, "is_clone: more than one node under the id", None, ok, "" if ok else "a clone is a node whose data is referenced at least twice"))
    h = m.func("Node.get_clones")
    t = " | ".join(norm(s) for s in h.body)
    ok = "if add_self: return clones.copy()" in t and "return [n for n in clones if n is not self]" in t
    obs.append(ctx.ob("DATAID-DEF", ["C02"], h, "get_clones: a copy of the clone list, without self unless add_self", None, ok, "" if ok else ""))
    return obs


# -------------------------------------------------------------- KIND-BRANCH
@rule("KIND-BRANCH", ["C15"], floor=12, section="4/C15")
def kind_branch(ctx: Ctx) -> List[Ob]:
    """kind-aware queries: the any-kind branch reads the unfiltered child/sibling list, the kind branch compares _kind with the requested (or own) kind, and nothing else is filtered"""
    obs: List[Ob] = []
    m = ctx.model
    # methods with a `kind` parameter
    for name in ("get_children", "first_child", "last_child", "has_children"):
        f = m.func(f"TypedNode.{name}")
        anyk = [n for n in iter_own(f.node) if isinstance(n, ast.If) and norm(n.test) == "kind is ANY_KIND"]
        ok = len(anyk) == 1
        if ok:
            r = anyk[0].body[0]
            want = {"get_children": ["all_children"], "first_child": ["all_children[0]"], "last_child": ["all_children[-1]"],
                    "has_children": ["bool(self._children)"]}[name]
            ok = isinstance(r, ast.Return) and norm(r.value) in want
        obs.append(ctx.ob("KIND-BRANCH", ["C15"], f, f"{name}(ANY_KIND) equals the untyped query", None, ok, "" if ok else "with the any-kind option the result is the untyped one"))
        cmps = [n for n in ast.walk(f.node) if isinstance(n, ast.Compare) and len(n.ops) == 1 and norm(n.comparators[0]) == "kind" and "_kind" in norm(n.left)]
        if name == "has_children":
            ok = any(isinstance(n, ast.Call) and norm(n) == "self.get_children(kind)" for n in ast.walk(f.node))
        else:
            ok = len(cmps) == 1 and isinstance(cmps[0].ops[0], ast.Eq)
        obs.append(ctx.ob("KIND-BRANCH", ["C15"], f, f"{name}(kind) selects children whose _kind == kind", None, ok, "" if ok else "the kind filter must be equality on the node's kind"))
    f = m.func("TypedNode.first_child")
    lps = [n for n in iter_own(f.node) if isinstance(n, ast.For)]
    ok = len(lps) == 1 and norm(lps[0].iter) == "all_children"
    obs.append(ctx.ob("KIND-BRANCH", ["C15"], f, "first_child scans the full child list front to back", None, ok, ""))
    f = m.func("TypedNode.last_child")
    lps = [n for n in iter_own(f.node) if isinstance(n, ast.For)]
    ok = len(lps) == 1 and norm(lps[0].iter) in ("range(len(all_children) - 1, -1, -1)", "reversed(all_children)")
    obs.append(ctx.ob("KIND-BRANCH", ["C15"], f, "last_child scans the full child list back to front", None, ok, "" if ok else "the last child of a kind is found from the end, including index 0"))
    # methods with any_kind
    for name in ("get_siblings", "first_sibling", "last_sibling", "prev_sibling", "next_sibling", "get_index", "is_first_sibling", "is_last_sibling"):
        f = m.func(f"TypedNode.{name}")
        d = f.param_default("any_kind")
        ok = d is not None and norm(d) == "False"
        obs.append(ctx.ob("KIND-BRANCH", ["C15"], f, f"{name}: any_kind defaults to False", None, ok, "" if ok else "kind-aware by default"))
        cmps = [n for n in ast.walk(f.node) if isinstance(n, ast.Compare) and len(n.ops) == 1 and isinstance(n.ops[0], ast.Eq)
                and {norm(n.left).split(".")[-1], norm(n.comparators[0]).split(".")[-1]} <= {"_kind", "kind", "rel"}]
        deleg = [c for c in ast.walk(f.node) if isinstance(c, ast.Call) and isinstance(c.func, ast.Attribute)
                 and c.func.attr in ("first_sibling", "last_sibling", "get_children") and norm(c.func.value) in ("self", "self.parent", "self._parent")]
        ok = bool(cmps) or bool(deleg)
        obs.append(ctx.ob("KIND-BRANCH", ["C15"], f, f"{name}: the kind branch compares with the node's own kind (or delegates to a kind-aware query)", None, ok,
                          "" if ok else "siblings of the same kind only"))
    f = m.func("TypedNode.get_siblings")
    lc = [n for n in iter_own(f.node) if isinstance(n, ast.ListComp)]
    ok = len(lc) == 1 and norm(lc[0].generators[0].ifs[0]) in ("(add_self or n is not self) and n.kind == rel", "(add_self or n is not self) and n._kind == self._kind")
    obs.append(ctx.ob("KIND-BRANCH", ["C15"], f, "get_siblings: same kind, self excluded by identity unless add_self", None, ok, ""))
    for name, idx in (("is_first_sibling", "0"), ("is_last_sibling", "-1")):
        f = m.func(f"TypedNode.{name}")
        anyk = [n for n in f.body if isinstance(n, ast.If) and norm(n.test) == "any_kind"]
        ok = len(anyk) == 1 and norm(anyk[0].body[0]) == f"return self is self._parent._children[{idx}]"
        obs.append(ctx.ob("KIND-BRANCH", ["C15"], f, f"{name}(any_kind=True) is the untyped identity test", None, ok, ""))
    for name, idx in (("first_sibling", "0"), ("last_sibling", "-1")):
        f = m.func(f"TypedNode.{name}")
        anyk = [n for n in f.body if isinstance(n, ast.If) and norm(n.test) == "any_kind"]
        ok = len(anyk) == 1 and norm(anyk[0].body[0]) == f"return pc[{idx}]"
        obs.append(ctx.ob("KIND-BRANCH", ["C15"], f, f"{name}(any_kind=True) is the untyped end of the list", None, ok, ""))
    f = m.func("TypedTree.iter_by_type")
    ok = any(isinstance(n, ast.Compare) and norm(n) == "n._kind == kind" for n in ast.walk(f.node))
    obs.append(ctx.ob("KIND-BRANCH", ["C15"], f, "iter_by_type yields the nodes whose _kind == kind", None, ok, ""))
    for q in ("TypedTree.first_child", "TypedTree.last_child"):
        f = m.func(q)
        ok = any(isinstance(n, ast.Return) and norm(n.value) == f"self._root.{f.name}(kind=kind)" for n in f.body)
        obs.append(ctx.ob("KIND-BRANCH", ["C15"], f, f"{q} delegates to the root with the caller's kind", None, ok, ""))
    return obs


# -------------------------------------------------------------- PARENT-WALK
@rule("PARENT-WALK", ["C10"], floor=8, section="4/C10")
def parent_walk(ctx: Ctx) -> List[Ob]:
    """the parent-walk family stops at the system root by the same test, `parent` maps the root to None, sibling accessors read the parent's list at the right end, counts walk the default iterator"""
    obs: List[Ob] = []
    m = ctx.model

    def wh(f):
        ws = [n for n in iter_own(f.node) if isinstance(n, ast.While)]
        return ws[0] if len(ws) == 1 else None

    f = m.func("Node.calc_depth")
    w = wh(f)
    ok = w is not None and norm(w.test) == "pe is not None" and [norm(s) for s in w.body] == ["depth += 1", "pe = pe._parent"] \
        and any(norm(s) == "pe = self._parent" for s in f.body) and any(norm(s) == "depth = 0" for s in f.body)
    obs.append(ctx.ob("PARENT-WALK", ["C10"], f, "calc_depth counts the parents up to and including the system root (1 for top-level)", None, ok, "" if ok else "depth off by one"))
    f = m.func("Node.get_top")
    w = wh(f)
    ok = w is not None and norm(w.test) == "root._parent._parent" and [norm(s) for s in w.body] == ["root = root._parent"]
    obs.append(ctx.ob("PARENT-WALK", ["C10"], f, "get_top climbs while the parent is not the system root", None, ok, ""))
    for q, start in (("Node.is_descendant_of", "parent = self._parent"), ("Node.get_parent_list", "parent = self if add_self else self._parent")):
        f = m.func(q)
        w = wh(f)
        ok = w is not None and norm(w.test) == "parent is not None and parent._parent is not None" and norm(w.body[-1]) == "parent = parent._parent" \
            and any(norm(s) == start for s in f.body)
        obs.append(ctx.ob("PARENT-WALK", ["C10"], f, f"{q} walks the proper ancestors and stops before the system root", None, ok, "" if ok else "the system root is not an ancestor"))
    f = m.func("Node.is_descendant_of")
    ok = any(isinstance(n, ast.If) and norm(n.test) == "parent is other" and norm(n.body[0]) == "return True" for n in ast.walk(f.node)) \
        and norm(f.body[-1]) == "return False"
    obs.append(ctx.ob("PARENT-WALK", ["C10"], f, "is_descendant_of compares ancestors by identity", None, ok, ""))
    f = m.func("Node.is_ancestor_of")
    ok = any(isinstance(n, ast.Return) and norm(n.value) == "other.is_descendant_of(self)" for n in f.body)
    obs.append(ctx.ob("PARENT-WALK", ["C10"], f, "is_ancestor_of is the converse of is_descendant_of", None, ok, ""))
    f = m.func("Node.get_parent_list")
    t = [norm(s) for s in f.body]
    ok = any(s.startswith("if not bottom_up:") and "res.reverse()" in s for s in t) and "return res" in t
    obs.append(ctx.ob("PARENT-WALK", ["C10"], f, "get_parent_list is top-down unless bottom_up", None, ok, ""))
    for q in ("Node.parent", "TypedNode.parent"):
        f = m.func(q)
        ok = any(isinstance(n, ast.Return) and norm(n.value) in ("p if p._parent else None", "p if p._parent is not None else None") for n in f.body) \
            and any(norm(s) == "p = self._parent" for s in f.body)
        obs.append(ctx.ob("PARENT-WALK", ["C10", "C15"], f, f"{q}: None for top-level nodes", None, ok, ""))
    f = m.func("Node.up")
    w = wh(f)
    ok = w is not None and norm(w.test) == "level > 0" and "p = p._parent" in [norm(s) for s in w.body] and "level -= 1" in [norm(s) for s in w.body]
    obs.append(ctx.ob("PARENT-WALK", ["C10"], f, "up(n) climbs n parents", None, ok, ""))
    # end-of-list accessors
    want = {
        "Node.first_child": "self._children[0] if self._children else None",
        "Node.last_child": "self._children[-1] if self._children else None",
        "Node.first_sibling": "self._parent._children[0]",
        "Node.last_sibling": "self._parent._children[-1]",
        "Node.is_first_sibling": "self is self._parent._children[0]",
        "Node.is_last_sibling": "self is self._parent._children[-1]",
        "Node.is_top": "self._parent._parent is None",
        "Node.is_system_root": "self._parent is None",
        "Node.is_leaf": "not self._children",
        "Node.has_children": "bool(self._children)",
        "Node.depth": "self.calc_depth()",
        "Tree.count": "len(self._node_by_id)",
        "Tree.count_unique": "len(self._nodes_by_data_id)",
        "Tree.calc_height": "self._root.calc_height()",
    }
    for q, txt in want.items():
        f = m.func(q)
        rets = [n for n in iter_own(f.node) if isinstance(n, ast.Return) and n.value is not None]
        ok = len(rets) == 1 and norm(rets[0].value) == txt
        props = ["C10", "C02"] if q.startswith("Tree.count") else ["C10"]
        obs.append(ctx.ob("PARENT-WALK", props, f, f"{q} returns `{txt}`", None, ok, "" if ok else f"got `{norm(rets[0].value) if rets else '?'}`"))
    f = m.func("Node.prev_sibling")
    ok = any(norm(s).startswith("if self.is_first_sibling(): return None") for s in f.body) and any(isinstance(n, ast.Return) and norm(n.value).endswith("[idx - 1]") for n in f.body)
    obs.append(ctx.ob("PARENT-WALK", ["C10"], f, "prev_sibling: None for the first, else the element before", None, ok, ""))
    f = m.func("Node.next_sibling")
    ok = any(norm(s).startswith("if self.is_last_sibling(): return None") for s in f.body) and any(isinstance(n, ast.Return) and norm(n.value).endswith("[idx + 1]") for n in f.body)
    obs.append(ctx.ob("PARENT-WALK", ["C10"], f, "next_sibling: None for the last, else the element after", None, ok, ""))
    f = m.func("Node.get_siblings")
    ok = any(isinstance(n, ast.ListComp) and norm(n.generators[0].ifs[0]) == "n is not self" and norm(n.generators[0].iter) == "self._parent._children" for n in ast.walk(f.node))
    obs.append(ctx.ob("PARENT-WALK", ["C10"], f, "get_siblings excludes self by identity", None, ok, ""))
    f = m.func("Node.count_descendants")
    lps = [n for n in iter_own(f.node) if isinstance(n, ast.For)]
    ok = len(lps) == 1 and norm(lps[0].iter) == "self.iterator()" and norm(lps[0].body[0]) .startswith("if all or not node._children: i += 1")
    obs.append(ctx.ob("PARENT-WALK", ["C10"], f, "count_descendants counts the walk (leaves only: nodes without children)", None, ok, ""))
    f = m.func("Node.calc_height")
    g = [x for x in f.nested if x.name == "_ch"]
    ok = bool(g)
    if ok:
        t = " | ".join(norm(s) for s in g[0].body)
        ok = "_ch(n, h + 1)" in t and "elif h > height: height = h" in t and any(norm(s) == "_ch(self, 0)" for s in f.body)
    obs.append(ctx.ob("PARENT-WALK", ["C10"], f, "calc_height: maximal leaf depth below self (0 for leaves)", None, ok, ""))
    f = m.func("Node.get_common_ancestor")
    calls = {norm(c) for c in ast.walk(f.node) if isinstance(c, ast.Call)}
    tests = {norm(n.test) for n in ast.walk(f.node) if isinstance(n, ast.If)}
    ok = "self._tree is other._tree" in tests and "other.get_parent_list(add_self=True)" in calls and "self.get_parent_list(add_self=True, bottom_up=True)" in calls \
        and norm(f.body[-1]) == "return None"
    obs.append(ctx.ob("PARENT-WALK", ["C10"], f, "get_common_ancestor: nearest (bottom-up) own ancestor-or-self that is also one of other's", None, ok, ""))
    return obs


# -------------------------------------------------------------------- FRAME
FRAME = {
    "Node.set_meta": {"_meta"},
    "Node.clear_meta": {"_meta"},
    "Node.update_meta": {"_meta"},
    "Node.sort_children": {"_children"},
    "Tree.sort": {"_children"},
    "Node.set_data": {"_data", "_data_id", "_nodes_by_data_id", SLOT},
    "Node.rename": {"_data", "_data_id", "_nodes_by_data_id", SLOT},
    "Node.move_to": {"_parent", "_children"},
}


@rule("FRAME", ["C04"], floor=8, section="3.4")
def frame(ctx: Ctx) -> List[Ob]:
    """each mutator's structural writes stay inside its documented footprint (metadata edits touch _meta only, sort only reorders child lists, set_data only data/id/index, move_to only parent links); metadata API details"""
    obs: List[Ob] = []
    m = ctx.model
    for q, allowed in FRAME.items():
        f = m.func(q)
        es = [e for e in ctx.fx.of(f) if e.field not in allowed]
        if q in ("Node.sort_children", "Tree.sort"):
            es += [e for e in ctx.fx.of(f) if e.field == "_children" and e.op not in ("sort",)]
        obs.append(ctx.ob("FRAME", ["C04"], f, f"{q} writes only {sorted(allowed)}", None, not es,
                          "" if not es else f"also writes: {es[0].describe()} - every other node must keep its identity, data, id, metadata, parent and order"))
    f = m.func("Node.set_meta")
    ch = _if_chain([n for n in f.body if isinstance(n, ast.If)][0])
    tb = {(norm(t) if t is not None else "else"): " ; ".join(norm(s) for s in b) for t, b in ch}
    ok = tb.get("value is None") == "self.clear_meta(key)" and tb.get("self._meta is None") == "self._meta = {key: value}" and tb.get("else") == "self._meta[key] = value"
    obs.append(ctx.ob("FRAME", ["C04"], f, "set_meta: None removes the key, first value creates the dict, else stores", None, ok, "" if ok else f"{tb}"))
    f = m.func("Node.clear_meta")
    t = " | ".join(norm(s) for s in f.body)
    ok = "if key is None: self._meta = None return" in t and "m.pop(key, None)" in t and "if len(m) == 0: self._meta = None" in t
    obs.append(ctx.ob("FRAME", ["C04"], f, "clear_meta: all or one key; an emptied dict becomes None again", None, ok, ""))
    f = m.func("Node.update_meta")
    ifs = [n for n in f.body if isinstance(n, ast.If)]
    ok = len(ifs) == 1 and norm(ifs[0].test) == "replace or self._meta is None" and norm(ifs[0].body[0]) == "self._meta = values.copy()" and norm(ifs[0].orelse[0]) == "self._meta.update(values)"
    obs.append(ctx.ob("FRAME", ["C04"], f, "update_meta: replace stores a copy of the caller's dict, else merges", None, ok, ""))
    f = m.func("Node.sort_children")
    srt = [c for c in ctx.env.calls_in[f] if isinstance(c.func, ast.Attribute) and c.func.attr == "sort"]
    ok = len(srt) == 1 and {k.arg: norm(k.value) for k in srt[0].keywords} == {"key": "key", "reverse": "reverse"}
    obs.append(ctx.ob("FRAME", ["C04"], f, "sort_children sorts the child list in place with the caller's key and direction", None, ok, ""))
    dflt = [n for n in f.body if isinstance(n, ast.If) and norm(n.test) == "key is None"]
    ok = len(dflt) == 1 and norm(dflt[0].body[0]) == "key = attrgetter('name')"
    obs.append(ctx.ob("FRAME", ["C04"], f, "default sort key is the node name", None, ok, ""))
    rec = [n for n in f.body if isinstance(n, ast.If) and norm(n.test) == "deep"]
    ok = len(rec) == 1 and isinstance(rec[0].body[0], ast.For) and norm(rec[0].body[0].iter) in ("cl", "self._children") \
        and norm(rec[0].body[0].body[0]) == f"{norm(rec[0].body[0].target)}.sort_children(key=key, reverse=reverse, deep=True)"
    obs.append(ctx.ob("FRAME", ["C04"], f, "deep sort recurses into every child with the same key and direction", None, ok, ""))
    f = m.func("Node.rename")
    ok = any(isinstance(n, ast.If) and norm(n.test) == "isinstance(self._data, str)" and norm(n.body[0]) == "return self.set_data(new_name)" for n in f.body)
    obs.append(ctx.ob("FRAME", ["C04"], f, "rename is set_data(new_name) for plain string nodes", None, ok, ""))
    # set_data: which nodes receive the new data / id
    f = m.func("Node.set_data")
    loops = [n for n in ast.walk(f.node) if isinstance(n, ast.For) and any(
        isinstance(x, ast.Assign) and any(isinstance(t, ast.Attribute) and t.attr in ("_data", "_data_id") for t in x.targets)
        for st in n.body for x in ast.walk(st))]
    ok = all(isinstance(m.parent_of(lp), ast.If) and norm(m.parent_of(lp).test) == "with_clones" for lp in loops) and len(loops) == 2
    obs.append(ctx.ob("FRAME", ["C04", "C02"], f, "set_data touches the other clones only under with_clones", None, ok, "" if ok else "without with_clones exactly this node changes"))
    t = " | ".join(norm(s) for s in f.body)
    ok = "if has_clones and with_clones is None: raise AmbiguousMatchError(" in t
    obs.append(ctx.ob("FRAME", ["C04", "C13"], f, "set_data on a clone requires a with_clones decision", None, ok, ""))
    return obs


# ----------------------------------------------------------------------- FS
@rule("FS", ["C19"], floor=8, section="3.13")
def fs(ctx: Ctx) -> List[Ob]:
    """load_tree_from_fs: both branches build the same entries (name, is_dir / size<-st_size, mdate<-st_mtime), recurse once per directory with the created node, and the sorted branch lists files first (by name) then directories (by name)"""
    obs: List[Ob] = []
    m = ctx.model
    f = m.func("load_tree_from_fs.visit")
    top = m.func("load_tree_from_fs")
    ifs = [n for n in f.body if isinstance(n, ast.If) and norm(n.test) == "sort"]
    if len(ifs) != 1:
        raise AnalysisError("load_tree_from_fs.visit: `if sort:` branch not found")
    sorted_part = ifs[0].body
    unsorted_part = [s for s in f.body if s is not ifs[0]]
    ok = isinstance(sorted_part[-1], ast.Return)
    obs.append(ctx.ob("FS", ["C19"], f, "the sorted branch returns before the unsorted scan", None, ok, "" if ok else "entries would be added twice"))

    def ctor_shapes(stmts) -> Set[str]:
        out = set()
        for s in stmts:
            for c in ast.walk(s):
                if isinstance(c, ast.Call) and norm(c.func) == "FileSystemEntry":
                    kw = tuple(sorted((k.arg, norm(k.value)) for k in c.keywords))
                    out.add(f"{norm(c.args[0]).replace('f', '', 1) if norm(c.args[0]).startswith('f') else norm(c.args[0])}|{kw}")
        return out

    a, b = ctor_shapes(sorted_part), ctor_shapes(unsorted_part)
    ok = a == b and len(a) == 2
    obs.append(ctx.ob("FS", ["C19"], f, "sorted and unsorted branch construct the same two entry shapes", None, ok, "" if ok else f"sorted: {sorted(a)} / unsorted: {sorted(b)}"))
    ok = any("('mdate', 'stat.st_mtime'), ('size', 'stat.st_size')" in x for x in a) and any("('is_dir', 'True')" in x for x in a)
    obs.append(ctx.ob("FS", ["C19"], f, "files carry size<-st_size and mdate<-st_mtime, directories the directory flag", None, ok, "" if ok else "attributes crossed"))
    for part, nm in ((sorted_part, "sorted"), (unsorted_part, "unsorted")):
        recs = [c for s in part for c in ast.walk(s) if isinstance(c, ast.Call) and norm(c.func) == "visit"]
        ok = len(recs) == 1 and norm(recs[0].args[0]) == "pn" and norm(recs[0].args[1]) == "c"
        pn = [st for s in part for st in ast.walk(s) if isinstance(st, ast.Assign) and norm(st.targets[0]) == "pn"]
        ok = ok and len(pn) == 1 and norm(pn[0].value) == "node.add(o)"
        obs.append(ctx.ob("FS", ["C19"], f, f"{nm}: each directory is added and scanned once, below its own node", None, ok, "" if ok else "sub-directories must appear at the corresponding depth"))
        tests = [norm(n.test) for s in part for n in ast.walk(s) if isinstance(n, ast.If) and "is_" in norm(n.test)]
        ok = tests == ["c.is_dir()", "c.is_file()"]
        obs.append(ctx.ob("FS", ["C19"], f, f"{nm}: directories and regular files are classified by is_dir()/is_file()", None, ok, ""))
    loops = [s for s in sorted_part if isinstance(s, ast.For) and "sorted(" in norm(s.iter)]
    ok = len(loops) == 2 and norm(loops[0].iter) == "sorted(files, key=attrgetter('name'))" and norm(loops[1].iter) == "sorted(dirs, key=itemgetter(0))" \
        and norm(loops[0].body[0]) == "node.add(o)"
    obs.append(ctx.ob("FS", ["C19"], f, "sorted: files first (by name), then directories (by path name)", None, ok, "" if ok else "files first, name-sorted, then sub-directories, name-sorted"))
    ok = any(norm(s) == "visit(tree._root, path)" for s in top.body) and any(norm(s) == "tree = FileSystemTree(str(path))" for s in top.body)
    obs.append(ctx.ob("FS", ["C19"], top, "the scan starts at the root with the given path and builds a FileSystemTree", None, ok, ""))
    e = m.func("FileSystemEntry.__init__")
    t = " | ".join(norm(s) for s in e.body)
    ok = "self.name = name" in t and "self.is_dir = is_dir" in t and "self.size = int(size)" in t and "self.mdate = float(mdate) if mdate is not None else None" in t
    obs.append(ctx.ob("FS", ["C19"], e, "FileSystemEntry stores name, is_dir, size, mdate", None, ok, ""))
    sm, dm = m.func("FileSystemTree.serialize_mapper"), m.func("FileSystemTree.deserialize_mapper")
    t = " | ".join(norm(s) for s in sm.body)
    ok = "data.update({'n': inst.name, 'd': True})" in t and "data.update({'n': inst.name, 's': inst.size, 'm': inst.mdate})" in t and "if inst.is_dir" in t
    obs.append(ctx.ob("FS", ["C19", "C05"], sm, "serialize: directories {n, d}, files {n, s<-size, m<-mdate}", None, ok, ""))
    t = " | ".join(norm(s) for s in dm.body)
    ok = "if 'd' in data: return FileSystemEntry(data['n'], is_dir=True)" in t and "return FileSystemEntry(data['n'], size=data['s'], mdate=data['m'])" in t
    obs.append(ctx.ob("FS", ["C19", "C05"], dm, "deserialize mirrors serialize (d -> directory; s -> size, m -> mdate)", None, ok, ""))
    return obs


# ---------------------------------------------------------------------- GEN
@rule("GEN", ["C20"], floor=12, section="3.13")
def gen(ctx: Ctx) -> List[Ob]:
    """build_random_tree: every Randomizer.generate tests the skip probability first, specs are merged `*` -> type -> relation, counts are resolved, indices are 1-based and both macros are supplied, skipped values are removed after the loop, typed parents get kind=node_type, children only for types present in relations, the requested class is instantiated"""
    obs: List[Ob] = []
    m = ctx.model
    gens = [f for f in m.all_funcs() if f.name == "generate" and f.cls and "Randomizer" in m.classes[f.cls].mro and f.cls != "Randomizer"]
    if len(gens) < 5:
        raise AnalysisError("fewer than 5 Randomizer.generate implementations")
    for f in gens:
        stm = [s for s in f.body if not (isinstance(s, ast.Expr) and isinstance(s.value, ast.Constant))]
        first = stm[0]
        ok = isinstance(first, ast.If) and norm(first.test) == "self._skip_value()" and isinstance(first.body[0], ast.Return)
        if ok:
            rv = first.body[0].value
            ok = rv is None or norm(rv) in ("None", "self.none_value")
        obs.append(ctx.ob("GEN", ["C20"], f, f"{f.qualname} tests the skip probability before producing a value", None, ok,
                          "" if ok else "attributes skipped by probability must be absent"))
    f = m.func("Randomizer._skip_value")
    t = " | ".join(norm(s) for s in f.body)
    ok = "use = self.probability == 1.0 or random.random() <= self.probability" in t and "return not use" in t
    obs.append(ctx.ob("GEN", ["C20"], f, "_skip_value: skip unless probability is 1 or the draw is within it", None, ok, ""))
    f = m.func("RangeRandomizer.generate")
    t = " | ".join(norm(s) for s in f.body)
    ok = "return random.uniform(self.min, self.max)" in t and "return random.randrange(self.min, self.max)" in t
    obs.append(ctx.ob("GEN", ["C20"], f, "RangeRandomizer draws within [min, max)", None, ok, ""))
    f = m.func("_merge_specs")
    t = [norm(s) for s in f.body]
    ok = t == ["res = types.get('*', {}).copy()", "res.update(types.get(node_type, {}))", "res.update(spec)", "return res"]
    obs.append(ctx.ob("GEN", ["C20"], f, "_merge_specs: global defaults, then type defaults, then the relation spec (on a copy)", None, ok, "" if ok else "merge order decides which value wins"))
    f = m.func("_resolve_random_dict")
    lps = [n for n in f.body if isinstance(n, ast.For)]
    ok = len(lps) == 2 and norm(lps[1].iter) == "remove" and norm(lps[1].body[0]) == "d.pop(key)"
    obs.append(ctx.ob("GEN", ["C20"], f, "skipped keys are removed after the scan (deferred)", None, ok, ""))
    if lps:
        t = " | ".join(norm(s) for s in lps[0].body)
        ok = "val = val.generate()" in t and "if val is None: remove.append(key) else: d[key] = val" in t and "if macros and isinstance(val, str): d[key] = val.format(**macros)" in t
        obs.append(ctx.ob("GEN", ["C20"], f, "randomizers are resolved, None results skipped, string values macro-expanded", None, ok, ""))
    f = m.func("_make_tree")
    t = " | ".join(norm(s) for s in ast.walk(f.node) if isinstance(s, ast.stmt) and not isinstance(s, (ast.For, ast.If, ast.FunctionDef)))
    checks = [
        ("child_specs = relations[parent_type]", "children come from the parent type's relation"),
        ("spec = _merge_specs(node_type, spec, types)", "attribute merge per child type"),
        ("count = spec.pop(':count', 1)", "count defaults to 1"),
        ("count = _resolve_random(count) or 0", "randomized counts are resolved"),
        ("i += 1", "1-based sibling index"),
        ("p = f'{prefix}.{i}' if prefix else f'{i}'", "dotted index path from the parent's prefix"),
        ("data = spec.copy()", "each node gets its own attribute dict"),
        ("_resolve_random_dict(data, macros={'idx': i, 'hier_idx': p})", "both macros supplied"),
        ("node_data = factory(**data)", "node data built from the attributes"),
        ("node = parent_node.add_child(node_data, kind=node_type)", "typed trees carry the type name as kind"),
        ("node = parent_node.add_child(node_data)", "plain trees add the data"),
        ("_make_tree(parent_node=node, parent_type=node_type, types=types, relations=relations, prefix=p)", "recursion below the new node with its type and prefix"),
    ]
    for txt, why in checks:
        ok = txt in t
        obs.append(ctx.ob("GEN", ["C20"], f, f"_make_tree: {why}", None, ok, "" if ok else f"expected `{txt}`"))
    lps = [n for n in ast.walk(f.node) if isinstance(n, ast.For) and norm(n.iter) == "range(count)"]
    obs.append(ctx.ob("GEN", ["C20"], f, "_make_tree: exactly `count` children per relation", None, len(lps) == 1, ""))
    rec_if = [n for n in ast.walk(f.node) if isinstance(n, ast.If) and norm(n.test) == "node_type in relations"]
    obs.append(ctx.ob("GEN", ["C20"], f, "_make_tree: children only for types that have relations", None, len(rec_if) == 1, ""))
    tn = [n for n in ast.walk(f.node) if isinstance(n, ast.If) and norm(n.test) == "isinstance(parent_node, TypedNode)"]
    obs.append(ctx.ob("GEN", ["C20"], f, "_make_tree: kind is passed exactly for typed parents", None, len(tn) == 1, ""))
    f = m.func("build_random_tree")
    t = " | ".join(norm(s) for s in f.body)
    ok = "tree: TTree = tree_class(name=name, forward_attrs=True)" in t and "_make_tree(parent_node=tree.system_root, parent_type='__root__', types=types, relations=relations, prefix='')" in t \
        and "return tree" in t and "structure_def = structure_def.copy()" in t
    obs.append(ctx.ob("GEN", ["C20"], f, "build_random_tree instantiates the requested class and starts at '__root__' (on a copy of the definition)", None, ok, ""))
    f = m.func("Tree.build_random_tree")
    ok = any("build_random_tree(tree_class=cls, structure_def=structure_def)" in norm(s) for s in f.body)
    obs.append(ctx.ob("GEN", ["C20"], f, "Tree.build_random_tree passes its own class", None, ok, ""))
    return obs


# -------------------------------------------------------------------- SEARCH
@rule("SEARCH", ["C09"], floor=5, section="4/C09")
def search(ctx: Ctx) -> List[Ob]:
    """_search walks the default (pre-order) iterator with the caller's add_self and yields exactly the nodes for which the matcher is true, in walk order"""
    obs: List[Ob] = []
    m = ctx.model
    f = m.func("Node._search")
    lps = [n for n in iter_own(f.node) if isinstance(n, ast.For)]
    ok = len(lps) == 1 and norm(lps[0].iter) == "self.iterator(add_self=add_self)"
    obs.append(ctx.ob("SEARCH", ["C09"], f, "_search iterates self.iterator(add_self=add_self) (pre-order)", None, ok, "" if ok else "matches must come in pre-order over the searched branch"))
    if lps:
        lp = lps[0]
        first = lp.body[0]
        ok = isinstance(first, ast.If) and norm(first.test) == f"not cb_match({norm(lp.target)})" and isinstance(first.body[0], ast.Continue)
        obs.append(ctx.ob("SEARCH", ["C09"], f, "non-matching nodes are skipped, matching ones yielded", lp, ok, "" if ok else "selection inverted or missing"))
        ys = [x for st in lp.body for x in ast.walk(st) if isinstance(x, ast.Yield)]
        ok = len(ys) == 1 and norm(ys[0].value) == norm(lp.target)
        obs.append(ctx.ob("SEARCH", ["C09"], f, "each match is yielded once", lp, ok, ""))
    ch = [n for n in f.body if isinstance(n, ast.If) and norm(n.test) == "callable(match)"]
    ok = len(ch) == 1
    if ok:
        tb = {(norm(t) if t is not None else "else"): " ; ".join(norm(s) for s in b) for t, b in _if_chain(ch[0])}
        ok = tb.get("callable(match)") == "cb_match = match" and "re.compile(pattern=match)" in tb.get("isinstance(match, str)", "") \
            and "re.compile(pattern=match[0], flags=match[1])" in tb.get("isinstance(match, (list, tuple))", "") and "node._data is match" in tb.get("else", "")
    obs.append(ctx.ob("SEARCH", ["C09"], f, "matcher: callable as is, str -> regex, (pattern, flags) -> regex with flags, else data identity", None, ok, ""))
    g = m.func("Node.find_all")
    ret = [n for n in iter_own(g.node) if isinstance(n, ast.Return) and "_search(" in norm(n.value)]
    ok = len(ret) == 1 and "self._search(match, add_self=add_self, max_results=max_results)" in norm(ret[0].value)
    obs.append(ctx.ob("SEARCH", ["C09"], g, "find_all collects _search(match, add_self, max_results) in order", None, ok, ""))
    lc = [n for n in iter_own(g.node) if isinstance(n, ast.ListComp) and "n._data_id == data_id" in norm(n)]
    ok = len(lc) == 1 and norm(lc[0].generators[0].iter) == "self.iterator(add_self=add_self)"
    obs.append(ctx.ob("SEARCH", ["C09", "C02"], g, "find_all(data/data_id) selects the nodes of the branch whose _data_id equals the id", None, ok, ""))
    return obs
