"""Patch-corpus evaluation of the *checker* (not of the property).

Two committed corpora of patches against /repo, written by independent authors
that never saw /verif:

* ``/verif/seeded/<id>/patch.diff``  - property-breaking changes that keep the
  pinned suite green.  Expectation: the check of the change's own property
  reports a new finding.
* ``/verif/benign/<id>/patch.diff``  - behaviour-preserving refactorings.
  Expectation: *no* rule reports a new finding or an analysis error, under any
  property.

Each patch is applied to a scratch copy (tempfile, outside /repo and /verif,
removed at once); all rules are run once on it in-process; new findings are the
ones whose key is not a finding of the unpatched tree.

    python3 -m sa.corpus benign|seeded|all [id ...] [-v]
"""
from __future__ import annotations

import glob
import json
import os
import shutil
import subprocess
import sys
from concurrent.futures import ProcessPoolExecutor
from typing import Dict, List, Optional, Tuple

from .model import AnalysisError, repo_root
from .selftest import make_scratch

V = os.path.dirname(os.path.dirname(os.path.abspath(__file__)))


ONLY_RULES: Optional[set] = None  # restrict to these rules (development aid: `rule` mode)


def all_findings(root: Optional[str]) -> Tuple[Dict[str, Tuple[Tuple[str, ...], str]], Dict[str, Tuple[Tuple[str, ...], str]]]:
    """({key: (props, text)}, {rule: (props, error)}) for every rule on root."""
    from . import props  # noqa: F401
    from .core import RULES, Ctx, run_rule

    ctx = Ctx(root)
    out: Dict[str, Tuple[Tuple[str, ...], str]] = {}
    errs: Dict[str, Tuple[Tuple[str, ...], str]] = {}
    for rd in RULES.values():
        if ONLY_RULES is not None and rd.name not in ONLY_RULES:
            continue
        try:
            ro = run_rule(ctx, rd)
        except AnalysisError as e:
            errs[rd.name] = (tuple(rd.props), str(e))
            continue
        for o in ro:
            if not o.ok and not o.note:
                out[o.key] = (tuple(o.props), f"{o.rule} {o.loc} {o.site}: {o.construct} :: {o.detail if hasattr(o, 'detail') else ''}")
    return out, errs


def run_patch(args) -> dict:
    kind, pid, patch, base_keys = args
    sid = os.path.basename(os.path.dirname(patch))
    d = make_scratch(repo_root())
    try:
        r = subprocess.run(["git", "apply", "--include=nutree/*", patch], cwd=d, capture_output=True, text=True)
        if r.returncode != 0:
            return {"id": sid, "status": "APPLY-FAILED", "why": r.stderr.strip()[:200]}
        try:
            found, errs = all_findings(d)
        except AnalysisError as e:
            found, errs = {}, {"<model>": (("*",), str(e))}
        except Exception as e:  # noqa: BLE001
            found, errs = {}, {"<internal>": (("*",), repr(e))}
        new = {k: v for k, v in found.items() if k not in base_keys}
        res = {"id": sid, "new": sorted(f"[{' '.join(v[0])}] {v[1]}" for v in new.values()), "errors": {k: v[1] for k, v in errs.items()}}
        if kind == "benign":
            res["status"] = "silent" if not new and not errs else "ALARM"
        else:
            accept = {pid}
            mp = os.path.join(os.path.dirname(patch), "meta.json")
            if os.path.exists(mp):
                # (two changes were filed by their authors under a property they do not break: see reviewer_note in meta.json)
                accept |= set(json.load(open(mp)).get("accept_props", []))
            own = [v for v in new.values() if accept & set(v[0])]
            own_err = [k for k, v in errs.items() if pid in v[0] or "*" in v[0]]
            res["rules"] = sorted({v[1].split(" ", 1)[0] for v in own})
            res["other_props"] = sorted({p for v in new.values() for p in v[0]} - {pid})
            res["status"] = "fired" if own else ("error-only" if own_err else "MISSED")
        return res
    finally:
        shutil.rmtree(d, ignore_errors=True)


def run(kind: str, ids: List[str], jobs: int = 16) -> List[dict]:
    base, berr = all_findings(None)
    if berr:
        raise AnalysisError(f"baseline has analysis errors: {berr}")
    tasks = []
    for p in sorted(glob.glob(f"{V}/{kind}/C*-*/patch.diff")):
        sid = os.path.basename(os.path.dirname(p))
        if ids and sid not in ids:
            continue
        tasks.append((kind, sid.split("-")[0], p, set(base)))
    with ProcessPoolExecutor(max_workers=min(jobs, max(1, len(tasks)))) as ex:
        return list(ex.map(run_patch, tasks))


def _rule_mode(rules: List[str]) -> int:
    """Development aid: everything the corpora and the variant table say about these rules."""
    global ONLY_RULES
    import re

    from .selftest import apply_variant
    from .variants import VARIANTS

    ONLY_RULES = set(rules)
    bad = 0
    res = run("benign", [])
    for r in res:
        if r["status"] != "silent":
            bad += 1
            print("benign", r["id"], "ALARM")
            for t in r.get("new", [])[:6]:
                print("     ", t[:400])
            for k, t in r.get("errors", {}).items():
                print("      ERR", k, t[:300])
    print(f"== benign silent: {sum(1 for r in res if r['status'] == 'silent')}/{len(res)}")
    want: Dict[str, set] = {}
    evf = f"{V}/seeded/EVAL_current.txt"
    if os.path.exists(evf):
        for line in open(evf):
            m = re.match(r"(C\d\d-\w+) exit=1 rules=(\S*)", line)
            if m:
                hit = set(m.group(2).split(",")) & ONLY_RULES
                if hit:
                    want[m.group(1)] = hit
    res = run("seeded", sorted(want))
    ok = 0
    for r in res:
        fired = set(r.get("rules", []))
        miss = want[r["id"]] - fired
        if miss:
            bad += 1
            print("seeded", r["id"], "no longer fired by", sorted(miss), "| errors:", r.get("errors"))
        else:
            ok += 1
    print(f"== seeded still fired: {ok}/{len(res)}")
    # variant table
    base, berr = all_findings(None)
    if berr:
        print("baseline errors", berr)
        return 1
    tasks = [v for v in VARIANTS if (v["kind"] == "keep") or (set(v.get("rules") or []) & ONLY_RULES)]
    with ProcessPoolExecutor(max_workers=16) as ex:
        out = list(ex.map(_run_variant_all, [(v, set(base)) for v in tasks]))
    okv = 0
    for v, (status, new, errs) in zip(tasks, out):
        if status == "skipped":
            continue
        if v["kind"] == "keep":
            if new or errs:
                bad += 1
                print("variant(keep)", v["id"], "ALARM", new[:3], errs)
            else:
                okv += 1
        else:
            hit = [t for t in new if t.split(" ", 1)[0] in (set(v.get("rules") or []) & ONLY_RULES)]
            if not hit:
                # a variant may list several rules; it is enough if one of them still fires
                print("variant(break)", v["id"], "not fired by", sorted(set(v.get("rules") or []) & ONLY_RULES), "| new:", new[:2], "| errors:", errs)
                bad += 1
            else:
                okv += 1
    print(f"== variants ok: {okv}/{len(tasks)}")
    return 1 if bad else 0


def _run_variant_all(args):
    from .selftest import apply_variant

    v, base_keys = args
    d = make_scratch(repo_root())
    try:
        skip = apply_variant(d, v)
        if skip:
            return ("skipped", [], {})
        try:
            found, errs = all_findings(d)
        except Exception as e:  # noqa: BLE001
            return ("error", [], {"<internal>": repr(e)})
        new = sorted(t[1] for k, t in found.items() if k not in base_keys)
        return ("ran", new, {k: v_[1] for k, v_ in errs.items()})
    finally:
        shutil.rmtree(d, ignore_errors=True)


def main(argv: List[str]) -> int:
    verbose = "-v" in argv
    write = "--write" in argv
    argv = [a for a in argv if a not in ("-v", "--write")]
    which = argv[0] if argv else "all"
    ids = argv[1:]
    if which == "rule":
        return _rule_mode(ids)
    bad = 0
    for kind in ("benign", "seeded"):
        if which not in (kind, "all"):
            continue
        res = run(kind, ids)
        good = "silent" if kind == "benign" else "fired"
        n_good = sum(1 for r in res if r["status"] == good)
        for r in res:
            if r["status"] != good or verbose:
                print(f"{kind} {r['id']} {r['status']} {','.join(r.get('rules', []))}")
                if r["status"] != good or verbose:
                    for t in r.get("new", [])[:8]:
                        print("     ", t[:300])
                    for k, t in r.get("errors", {}).items():
                        print("      ERR", k, t[:200])
                    if r.get("why"):
                        print("     ", r["why"])
        print(f"== {kind}: {n_good}/{len(res)} {good}")
        if write and not ids:
            # (development record, regenerated on request only - never by a registered check)
            with open(f"{V}/{kind}/EVAL_current.txt", "w", encoding="utf8") as fp:
                for r in res:
                    if kind == "seeded":
                        fp.write(f"{r['id']} exit={1 if r['status'] == 'fired' else 0} rules={','.join(r.get('rules', []))}, analysis_errors={len(r.get('errors', {}))} other_props=[{' '.join(r.get('other_props', []))} ]\n")
                    else:
                        what = "silent" if r["status"] == "silent" else "ALARM " + "; ".join(sorted({t.split(' ', 2)[1] for t in r.get('new', [])} | {'ERR:' + k for k in r.get('errors', {})}))
                        fp.write(f"{r['id']} {what}\n")
        bad += len(res) - n_good
    return 1 if bad else 0


if __name__ == "__main__":
    sys.exit(main(sys.argv[1:]))
