"""Debug helper: python3 -m sa.dbg RULE [RULE...]  -- print all obligations of the rules."""
import sys, time
from . import props  # noqa
from .core import RULES, Ctx, run_rule

def main():
    args = [a for a in sys.argv[1:] if not a.startswith("-")]
    only_bad = "-b" in sys.argv
    root = None
    for a in sys.argv[1:]:
        if a.startswith("--root="):
            root = a.split("=", 1)[1]
    t = time.time()
    ctx = Ctx(root)
    for name in args or list(RULES):
        rd = RULES[name]
        obs = run_rule(ctx, rd)
        print(f"== {name}: {len(obs)} obligations, {sum(1 for o in obs if not o.ok and not o.note)} findings")
        for o in obs:
            if only_bad and o.ok:
                continue
            print("  ", "ok " if o.ok else ("note" if o.note else "BAD"), ",".join(o.props), o.loc, o.site, "::", o.construct, ("-- " + o.detail[:200]) if o.detail else "")
    print(f"{time.time()-t:.2f}s")

main()
