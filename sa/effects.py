"""Write effects on the protected (structural) state, per function, direct and
transitive (summaries instantiated at call sites by root substitution)."""
from __future__ import annotations

import ast
from dataclasses import dataclass
from typing import Dict, FrozenSet, List, Optional, Set, Tuple

from .infer import (
    CONTAINER_FIELDS,
    Env,
    MUT_METHODS,
    PROTECTED_FIELDS,
    SLOT,
)
from .model import Func, Model, iter_own, norm


@dataclass(frozen=True)
class Effect:
    op: str  # rebind setitem delitem <list/dict method>
    root: str  # self | p:<param> | fresh | global | unknown
    field: str
    origin: str  # site of the function holding the write
    line: int
    text: str
    guards: FrozenSet = frozenset()
    chain: Tuple[str, ...] = ()

    @property
    def key(self):
        return (self.op, self.root, self.field, self.origin, self.text, self.guards)

    def describe(self) -> str:
        via = (" via " + " -> ".join(self.chain)) if self.chain else ""
        return f"{self.op} {self.root}.{self.field} at {self.origin}:{self.line} `{self.text}`{via}"


class Effects:
    def __init__(self, env: Env):
        self.env = env
        self.model: Model = env.model
        self.direct: Dict[Func, List[Effect]] = {}
        self.direct_nodes: Dict[Func, List[Tuple[Effect, ast.AST]]] = {}
        self.summary: Dict[Func, Dict[tuple, Effect]] = {}
        self._compute_direct()
        self._compute_summaries()

    # ---------------------------------------------------------------- direct
    def _targets(self, t: ast.AST) -> List[ast.AST]:
        if isinstance(t, (ast.Tuple, ast.List)):
            out = []
            for x in t.elts:
                out += self._targets(x)
            return out
        if isinstance(t, ast.Starred):
            return self._targets(t.value)
        return [t]

    def _write_target(self, f: Func, t: ast.AST, stmt: ast.AST, opname: str) -> List[Tuple[Effect, ast.AST]]:
        env = self.env
        out: List[Tuple[Effect, ast.AST]] = []
        gs = frozenset(g for g in env.guards_of(stmt))
        if isinstance(t, ast.Attribute) and t.attr in PROTECTED_FIELDS:
            rs = env.roots(f, t.value) or frozenset({"unknown"})
            for r in rs:
                out.append((Effect("rebind" if opname == "set" else "delattr", r, t.attr, f.site,
                                   getattr(stmt, "lineno", 0), norm(stmt), gs), stmt))
        elif isinstance(t, ast.Subscript):
            for r, fld in env.fields(f, t.value):
                out.append((Effect("setitem" if opname == "set" else "delitem", r, fld, f.site,
                                   getattr(stmt, "lineno", 0), norm(stmt), gs), stmt))
        return out

    def _direct_of(self, f: Func) -> List[Tuple[Effect, ast.AST]]:
        env = self.env
        out: List[Tuple[Effect, ast.AST]] = []
        for n in iter_own(f.node):
            if isinstance(n, ast.Assign):
                for t0 in n.targets:
                    for t in self._targets(t0):
                        out += self._write_target(f, t, n, "set")
            elif isinstance(n, (ast.AugAssign, ast.AnnAssign)):
                if isinstance(n, ast.AnnAssign) and n.value is None:
                    continue
                out += self._write_target(f, n.target, n, "set")
            elif isinstance(n, ast.Delete):
                for t in n.targets:
                    out += self._write_target(f, t, n, "del")
            elif isinstance(n, ast.Call) and isinstance(n.func, ast.Attribute) and n.func.attr in MUT_METHODS:
                fs = env.fields(f, n.func.value)
                gs = frozenset(env.guards_of(n))
                for r, fld in fs:
                    out.append((Effect(n.func.attr, r, fld, f.site, getattr(n, "lineno", 0), norm(n), gs), n))
        return out

    def _compute_direct(self) -> None:
        self.refusals: Dict[Func, List[Tuple[Effect, ast.AST]]] = {}
        for f in self.model.all_funcs():
            dn = self._direct_of(f)
            self.direct_nodes[f] = dn
            self.direct[f] = [e for e, _ in dn]
            self.refusals[f] = self._refusals_of(f)

    REFUSAL_ERRORS = {
        "UniqueConstraintError", "AmbiguousMatchError", "ValueError", "NotImplementedError",
        "TypeError", "KeyError", "RuntimeError", "TreeError",
    }

    def _refusals_of(self, f: Func) -> List[Tuple[Effect, ast.AST]]:
        """Pseudo-effects op='refuse': explicit raises of library/argument
        errors, argument asserts of public functions, list searches on an
        argument.  They travel through the same summaries (guards included)."""
        env = self.env
        out: List[Tuple[Effect, ast.AST]] = []
        params = set(f.top.param_names()) - {f.self_name}
        if f.parent is not None:
            params |= set(f.param_names())
        for n in iter_own(f.node):
            gs = set(env.guards_of(n))
            what = None
            if isinstance(n, ast.Raise) and n.exc is not None:
                ex = n.exc.func if isinstance(n.exc, ast.Call) else n.exc
                rc = ex.id if isinstance(ex, ast.Name) else getattr(ex, "attr", None)
                if rc in self.REFUSAL_ERRORS:
                    what = f"raise {rc}"
            elif isinstance(n, ast.Assert) and not (f.top.name.startswith("_") and not f.top.name.startswith("__")):
                names = {x.id for x in ast.walk(n.test) if isinstance(x, ast.Name)}
                if names & params:
                    what = "assert on an argument"
                    t = n.test
                    if (isinstance(t, ast.Compare) and len(t.ops) == 1 and isinstance(t.ops[0], ast.In)
                            and isinstance(t.left, ast.Name) and t.left.id in params
                            and isinstance(t.comparators[0], (ast.Tuple, ast.List, ast.Set))):
                        vals = tuple(c.value for c in t.comparators[0].elts if isinstance(c, ast.Constant))
                        gs.add((t.left.id, frozenset({("NOTIN", vals)})))
            elif (isinstance(n, ast.Call) and isinstance(n.func, ast.Attribute) and n.func.attr in ("index", "remove")
                  and n.args and isinstance(n.args[0], ast.Name) and n.args[0].id in params):
                what = f"{norm(n)} raises ValueError if absent"
            if what:
                if f.parent is None and f.cls is None and f.name.startswith("_"):
                    # private module-level helper: a failing search for the caller's own
                    # `self` is an internal belief, not argument validation
                    for p in f.param_names():
                        gs.add((p, frozenset({"NOTSELF"})))
                out.append((Effect("refuse", "-", what, f.site, getattr(n, "lineno", 0), norm(n), frozenset(gs)), n))
        return out

    # ------------------------------------------------------------- summaries
    def _map_effect(self, f: Func, call: ast.Call, g: Func, recv, e: Effect) -> List[Effect]:
        env = self.env
        if e.guards and env.guard_infeasible(f, call, g, recv, e.guards):
            return []
        if g.parent is not None:
            # nested function of the same top-level function: roots are shared
            return [e]
        if e.root in ("fresh", "global", "unknown", "-"):
            rs = frozenset({e.root})
        else:
            rs = env.map_roots(f, call, g, recv, frozenset({e.root}))
            if not rs:
                # the actual is absent (default) or carries no tree state
                a_missing = True
                if e.root.startswith("p:"):
                    bound = recv is not None or g.name == "__init__" or g.kind == "classmethod"
                    a = env._actual_for(g, call, e.root[2:], bound=bound)
                    a_missing = a is None
                    if a is not None and not isinstance(a, ast.Constant):
                        rs = frozenset({"unknown"})
                if not rs and not a_missing:
                    return []
                if not rs:
                    return []
        gs = set(env.guards_of(call))
        # carry the callee's isinstance guards through wrappers: a guard on a
        # callee parameter whose actual is a plain parameter of f stays a guard
        for pname, tags in e.guards:
            if pname in g.param_names():
                bound = recv is not None or g.name == "__init__" or g.kind == "classmethod"
                a = env._actual_for(g, call, pname, bound=bound)
                if isinstance(a, ast.Name) and a.id in f.top.param_names():
                    gs.add((a.id, tags))
        gs = frozenset(gs)
        step = f"{f.site}:{getattr(call, 'lineno', 0)} {norm(call.func)}()"
        return [
            Effect(e.op, r, e.field, e.origin, e.line, e.text, gs, (step,) + e.chain)
            for r in rs
        ]

    def _compute_summaries(self) -> None:
        env = self.env
        funcs = self.model.all_funcs()
        for f in funcs:
            self.summary[f] = {e.key: e for e in self.direct[f]}
            for e, _ in self.refusals[f]:
                self.summary[f][e.key] = e
        changed = True
        rounds = 0
        while changed and rounds < 30:
            changed = False
            rounds += 1
            for f in funcs:
                cur = self.summary[f]
                for g in f.nested:
                    for k, e in self.summary[g].items():
                        if k not in cur:
                            cur[k] = e
                            changed = True
                for call in env.calls_in[f]:
                    for g, recv in env.callees(f, call):
                        if g is f and g.parent is None:
                            pass
                        for e in list(self.summary[g].values()):
                            for e2 in self._map_effect(f, call, g, recv, e):
                                if len(e2.chain) > 12:
                                    continue
                                if e2.key not in cur:
                                    cur[e2.key] = e2
                                    changed = True
        self.rounds = rounds

    # --------------------------------------------------------------- queries
    def of(self, f: Func, *, include_fresh: bool = False) -> List[Effect]:
        es = [e for e in self.summary[f].values() if e.op != "refuse"]
        if not include_fresh:
            es = [e for e in es if e.root != "fresh"]
        return sorted(es, key=lambda e: (e.origin, e.line, e.op, e.root))

    def writes_rooted(self, f: Func, roots: Set[str]) -> List[Effect]:
        return [e for e in self.of(f) if e.root in roots]
