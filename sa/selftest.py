"""Checker self-test (thorough tier): the rules are run on scratch copies of the
*current* /repo sources with one construct edited.

* breaking variants must produce at least one new finding (named rule family);
* behaviour-preserving variants must stay silent (no new finding, no
  analysis error).

Edits are located by function (qualified name) and a statement fragment inside
that function's current source; a variant whose anchor no longer exists is
skipped and counted, never failed.  Scratch copies live under a fresh
``tempfile.mkdtemp`` directory outside /repo and /verif and are removed at once.
This tests the *checker*, not the property; nothing of the subject is executed.
"""
from __future__ import annotations

import ast
import os
import shutil
import tempfile
from concurrent.futures import ProcessPoolExecutor
from typing import Dict, List, Optional, Tuple

from .model import PKG, AnalysisError, Model


def _func_segment(src: str, qual: str) -> Optional[Tuple[int, int]]:
    """(start, end) character offsets of function/class `qual` in src."""
    tree = ast.parse(src)
    parts = qual.split(".")

    def find(body, names):
        for st in body:
            if isinstance(st, (ast.FunctionDef, ast.AsyncFunctionDef, ast.ClassDef)) and st.name == names[0]:
                if len(names) == 1:
                    return st
                return find_deep(st, names[1:])
            if isinstance(st, (ast.If, ast.Try)):
                for blk in ("body", "orelse", "finalbody"):
                    r = find(getattr(st, blk, []) or [], names)
                    if r is not None:
                        return r
        return None

    def find_deep(node, names):
        for ch in ast.walk(node):
            if ch is node:
                continue
            if isinstance(ch, (ast.FunctionDef, ast.AsyncFunctionDef, ast.ClassDef)) and ch.name == names[0]:
                if len(names) == 1:
                    return ch
                return find_deep(ch, names[1:])
        return None

    if qual == "<module>":
        return (0, len(src))
    node = find(tree.body, parts)
    if node is None:
        return None
    lines = src.splitlines(keepends=True)
    start = sum(len(l) for l in lines[: node.lineno - 1])
    end = sum(len(l) for l in lines[: node.end_lineno])
    return (start, end)


def apply_variant(root: str, v: dict) -> Optional[str]:
    """Apply variant v to the scratch tree at root. Returns None on success or
    a reason for skipping."""
    edits = v["edits"]
    for e in edits:
        path = os.path.join(root, PKG, e["file"])
        with open(path, encoding="utf8") as fp:
            src = fp.read()
        seg = _func_segment(src, e["func"])
        if seg is None:
            return f"function {e['func']} not found"
        a, b = seg
        body = src[a:b]
        cnt = body.count(e["old"])
        if cnt == 0:
            return f"anchor `{e['old'][:40]}` not found in {e['func']}"
        if cnt > 1 and not e.get("all"):
            return f"anchor `{e['old'][:40]}` ambiguous in {e['func']}"
        body = body.replace(e["old"], e["new"])
        src2 = src[:a] + body + src[b:]
        try:
            ast.parse(src2)
        except SyntaxError as ex:
            return f"variant does not parse: {ex}"
        with open(path, "w", encoding="utf8") as fp:
            fp.write(src2)
    return None


def make_scratch(src_root: str) -> str:
    d = tempfile.mkdtemp(prefix="nutree_sa_")
    shutil.copytree(os.path.join(src_root, PKG), os.path.join(d, PKG), ignore=shutil.ignore_patterns("__pycache__"))
    docs = os.path.join(src_root, "docs", "sphinx")
    os.makedirs(os.path.join(d, "docs", "sphinx"))
    for fn in ("ug_advanced.rst", "ug_serialize.rst"):
        p = os.path.join(docs, fn)
        if os.path.exists(p):
            shutil.copy(p, os.path.join(d, "docs", "sphinx", fn))
    return d


def findings_for(root: Optional[str], pid: str) -> Tuple[Dict[str, str], Optional[str]]:
    """Run the property's rules on root; return ({key: loc+detail}, error)."""
    from . import props  # noqa: F401
    from .core import RULES, Ctx, run_rule

    try:
        ctx = Ctx(root)
        out: Dict[str, str] = {}
        errs = []
        for rd in RULES.values():
            if pid not in rd.props:
                continue
            try:
                ro = run_rule(ctx, rd)
            except AnalysisError as e:
                errs.append(f"{rd.name}: {e}")
                continue
            for o in ro:
                if pid in o.props and not o.ok and not o.note:
                    out[o.key] = f"{o.rule} {o.loc} {o.site}: {o.construct}"
        return out, ("ANALYSIS-ERROR " + "; ".join(errs)) if errs else None
    except AnalysisError as e:
        return {}, f"ANALYSIS-ERROR {e}"
    except Exception as e:  # noqa: BLE001
        return {}, f"INTERNAL {e!r}"


def run_variant(args) -> dict:
    src_root, pid, v, baseline = args
    d = make_scratch(src_root)
    try:
        skip = apply_variant(d, v)
        if skip:
            return {"id": v["id"], "kind": v["kind"], "status": "skipped", "why": skip}
        found, err = findings_for(d, pid)
        new = {k: t for k, t in found.items() if k not in baseline}
        res = {"id": v["id"], "kind": v["kind"], "new": sorted(new.values())[:4], "error": err}
        if v["kind"] == "break":
            want = v.get("rules")
            hit = [t for k, t in new.items() if not want or k.split("|", 1)[0] in want]
            if hit:
                res["status"] = "fired"
            elif err and v.get("accept_error"):
                res["status"] = "fired(analysis-error)"
            elif err:
                res["status"] = "FAILED"
                res["why"] = f"analysis error instead of a finding: {err}"
            else:
                res["status"] = "FAILED"
                res["why"] = "breaking variant not detected" + (f" (other new findings: {sorted(new.values())[:2]})" if new else "")
        else:
            if err:
                res["status"] = "FAILED"
                res["why"] = f"behaviour-preserving variant ends in {err}"
            elif new:
                res["status"] = "FAILED"
                res["why"] = f"false alarm on a behaviour-preserving variant: {sorted(new.values())[:2]}"
            else:
                res["status"] = "silent"
        return res
    finally:
        shutil.rmtree(d, ignore_errors=True)


def run_corpus_patch(args) -> dict:
    """One committed patch of the seeded / benign corpus of this property (written by independent authors, see
    DESIGN 10.6), applied to a scratch copy of the tree under analysis and analysed - never executed."""
    import subprocess

    src_root, pid, kind, patch, baseline = args
    sid = os.path.basename(os.path.dirname(patch))
    d = make_scratch(src_root)
    try:
        r = subprocess.run(["git", "apply", "--include=nutree/*", patch], cwd=d, capture_output=True, text=True)
        if r.returncode != 0:
            return {"id": sid, "kind": kind, "status": "skipped", "why": "patch does not apply to this tree"}
        found, err = findings_for(d, pid)
        new = {k: t for k, t in found.items() if k not in baseline}
        res = {"id": sid, "kind": kind, "new": sorted(new.values())[:3], "error": err}
        mp = os.path.join(os.path.dirname(patch), "meta.json")
        if kind == "seeded" and os.path.exists(mp):
            import json as _json

            if _json.load(open(mp)).get("accept_props"):
                return {"id": sid, "kind": kind, "status": "skipped", "why": "filed under this property by its author, judged to break another one (meta.json reviewer_note)"}
        if kind == "seeded" and not new and os.path.exists(mp):
            import json as _json

            km = _json.load(open(mp)).get("known_miss")
            if km:
                # documented in DESIGN 10.6 / 10.8: a runtime quantity no rule derives; reported as skipped, and as fired should it ever be caught
                return {"id": sid, "kind": kind, "status": "skipped", "why": "known miss of the static family: " + km}
        if kind == "seeded":
            res["status"] = "fired" if new else "FAILED"
            if not new:
                res["why"] = "seeded property-breaking change not reported" + (f" ({err})" if err else "")
        else:
            res["status"] = "silent" if not new and not err else "FAILED"
            if res["status"] == "FAILED":
                res["why"] = f"false alarm on a behaviour-preserving refactoring: {sorted(new.values())[:2] or err}"
        return res
    finally:
        shutil.rmtree(d, ignore_errors=True)


def tree_digest(root: str) -> str:
    """sha256 over ast.dump of every nutree/*.py (formatting and comments do not count)."""
    import ast
    import hashlib

    h = hashlib.sha256()
    d = os.path.join(root, "nutree")
    for fn in sorted(os.listdir(d)):
        if fn.endswith(".py"):
            with open(os.path.join(d, fn), encoding="utf8") as fp:
                h.update(fn.encode())
                h.update(ast.dump(ast.parse(fp.read())).encode())
    return h.hexdigest()


def run_for_property(pid: str, ctx=None, jobs: int = 16) -> dict:
    from .variants import VARIANTS

    src_root = ctx.root if ctx is not None else None
    from .model import repo_root

    src_root = src_root or repo_root()
    vs = [v for v in VARIANTS if pid in v["props"]]
    baseline, err = findings_for(src_root, pid)
    if err:
        return {"errors": [f"baseline: {err}"], "variants": 0}
    base_keys = set(baseline)
    tasks = [(src_root, pid, v, base_keys) for v in vs]
    results: List[dict] = []
    if tasks:
        with ProcessPoolExecutor(max_workers=min(jobs, len(tasks))) as ex:
            results = list(ex.map(run_variant, tasks))
    import glob

    V = os.path.dirname(os.path.dirname(os.path.abspath(__file__)))
    ctasks = [(src_root, pid, kind, p_, base_keys) for kind in ("seeded", "benign") for p_ in sorted(glob.glob(os.path.join(V, kind, f"{pid}-*", "patch.diff")))]
    cres: List[dict] = []
    if ctasks:
        with ProcessPoolExecutor(max_workers=min(jobs, len(ctasks))) as ex:
            cres = list(ex.map(run_corpus_patch, ctasks))
    errors = [f"{r['id']}: {r.get('why')}" for r in results + cres if r["status"] == "FAILED"]
    corpus = {
        "seeded_fired": sum(1 for r in cres if r["status"] == "fired"),
        "seeded_total": sum(1 for r in cres if r["kind"] == "seeded" and r["status"] != "skipped"),
        "benign_silent": sum(1 for r in cres if r["status"] == "silent"),
        "benign_total": sum(1 for r in cres if r["kind"] == "benign" and r["status"] != "skipped"),
        "skipped": [r["id"] for r in cres if r["status"] == "skipped"],
    }
    return {
        "corpus": corpus,
        "variants": len(vs),
        "breaking_fired": sum(1 for r in results if r["status"].startswith("fired")),
        "breaking_total": sum(1 for r in results if r["kind"] == "break" and r["status"] != "skipped"),
        "preserving_silent": sum(1 for r in results if r["status"] == "silent"),
        "preserving_total": sum(1 for r in results if r["kind"] == "keep" and r["status"] != "skipped"),
        "skipped": [f"{r['id']}: {r['why']}" for r in results if r["status"] == "skipped"],
        "errors": errors,
        "detail": [{k: r[k] for k in ("id", "kind", "status") if k in r} | ({"new": r["new"][:2]} if r.get("new") else {}) for r in results],
    }


if __name__ == "__main__":
    import json
    import sys

    pids = sys.argv[1:]
    from . import props

    bad = 0
    for pid in pids or sorted(props.PROPS):
        r = run_for_property(pid)
        print(pid, {k: r[k] for k in r if k not in ("detail",)})
        bad += len(r.get("errors", []))
    sys.exit(1 if bad else 0)
